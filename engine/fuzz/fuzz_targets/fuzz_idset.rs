#![no_main]
// C37: bytes -> IdSet operation sequence, executed against /repo/utils with the in-process model of
// engine/utilsan under AddressSanitizer.
use std::sync::Once;
static INIT: Once = Once::new();
libfuzzer_sys::fuzz_target!(|data: &[u8]| {
    INIT.call_once(|| {
        utilsan::install_hook();
        utilsan::set_quiet(true);
    });
    let case = verif::fuzzside::idset_case(data);
    let r = verif::checks::c37::resolve(&case);
    let req = serde_json::json!({"kind": "idset", "ty": case.ty, "ops": r.ops});
    let resp = utilsan::serve_line(&req.to_string());
    if resp["ok"] != true {
        let what = resp["what"].as_str().unwrap_or("");
        if !["bad request", "request refers to dead slot", "unsupported "].iter().any(|p| what.starts_with(p)) {
            eprintln!("VERIF-FUZZ oracle failed: step {} {}", resp["step"], what);
            std::process::abort();
        }
    }
});
