#![no_main]
// C34: any text -> check_lsp + definition/type/completion queries at every byte offset never panic.
libfuzzer_sys::fuzz_target!(|data: &[u8]| verif::fuzzside::lsp(data));
