#![no_main]
// C38: bytes -> constructor + allocation sequence against /repo/utils' Arena under AddressSanitizer,
// with the alignment / overlap / pattern checks of engine/utilsan.
use std::sync::Once;
static INIT: Once = Once::new();
libfuzzer_sys::fuzz_target!(|data: &[u8]| {
    INIT.call_once(|| {
        utilsan::install_hook();
        utilsan::set_quiet(true);
    });
    let case = verif::fuzzside::arena_case(data);
    let sh = verif::checks::c38::shape(&case);
    let req = serde_json::json!({"kind": "arena", "ctor": case.ctor, "allocs": &case.allocs[..sh.kept]});
    let resp = utilsan::serve_line(&req.to_string());
    if resp["ok"] != true {
        eprintln!("VERIF-FUZZ oracle failed: step {} {}", resp["step"], resp["what"]);
        std::process::abort();
    }
});
