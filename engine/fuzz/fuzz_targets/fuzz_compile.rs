#![no_main]
// C04: any text -> compile_bytecode answers Ok or diagnostics, never panics in the front end.
libfuzzer_sys::fuzz_target!(|data: &[u8]| verif::fuzzside::compile(data));
