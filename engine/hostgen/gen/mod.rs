// placeholder: replaced per batch by the output of abra_core::generate_host_function_enum
