// placeholder: replaced per batch by the generated host side of the echo functions
use abra_core::vm::VmGreenThread;

pub fn handle(_thread: &mut VmGreenThread, id: u16, _st: &mut crate::State) {
    panic!("VERIF-GLUE template build has no host functions (id {id})");
}
