//! hostgen: embedder used by check C36.
//!
//!   hostgen gen <abra_src_dir> <host_file> <dest_dir>
//!       calls abra_core::generate_host_function_enum (exit 0 ok, 3 rejected by the Abra
//!       compiler, 101 panic)
//!   hostgen run <abra_src_dir> <main_file> <n_calls>
//!       compiles the Abra program once, then for sel in 0..n_calls runs a fresh Runtime in which
//!       the host function `verif_sel()` returns sel, servicing host calls through the generated
//!       bindings (`generated::HostFunctionArgs::from_vm` / `HostFunctionRet::into_vm`) and the
//!       per-batch glue. One line per call on stdout:
//!         R <sel> <end> <hex msg> <hex report|-> <n_args|-> <hex arg rendering>*
//!       end = done | error | panic | cap. Exit 4 = the Abra program was rejected.
//!
//! This file is fixed. `gen/mod.rs` and `src/glue.rs` are replaced per batch.

#[allow(dead_code, unused_variables, unused_imports, clippy::all)]
mod generated;
#[allow(dead_code, unused_variables, unused_imports, clippy::all)]
mod glue;

use abra_core::OsFileProvider;
use abra_core::vm::{Runtime, RuntimeStatusKind};
use std::cell::RefCell;
use std::panic::{AssertUnwindSafe, catch_unwind};
use std::path::PathBuf;

/// Per-run state shared with the glue.
pub struct State {
    /// which call of the batch this runtime performs (returned by `verif_sel()`)
    pub sel: i64,
    /// renderings of the arguments the echo function received, in declaration order
    pub args: Option<Vec<String>>,
    /// what the Abra side reported through `verif_report(s)`
    pub report: Option<String>,
    /// text printed through print_string / eprint_string
    pub out: String,
}

thread_local! {
    static LAST_PANIC: RefCell<Option<String>> = const { RefCell::new(None) };
}

fn hex(s: &str) -> String {
    if s.is_empty() {
        return "-".into();
    }
    let mut o = String::with_capacity(s.len() * 2);
    for b in s.bytes() {
        o.push_str(&format!("{b:02x}"));
    }
    o
}

fn main() {
    let args: Vec<String> = std::env::args().collect();
    if args.len() < 5 {
        eprintln!("usage: hostgen gen <src_dir> <host_file> <dest_dir> | hostgen run <src_dir> <main_file> <n_calls>");
        std::process::exit(2);
    }
    match args[1].as_str() {
        "gen" => {
            let fp = OsFileProvider::single_dir(PathBuf::from(&args[2]));
            match abra_core::generate_host_function_enum(&args[3], fp, &PathBuf::from(&args[4])) {
                Ok(()) => {}
                Err(e) => {
                    eprintln!("{e}");
                    std::process::exit(3);
                }
            }
        }
        "run" => run(&args[2], &args[3], args[4].parse().expect("n_calls")),
        _ => std::process::exit(2),
    }
}

fn run(src_dir: &str, main_file: &str, n_calls: i64) {
    let fp = OsFileProvider::single_dir(PathBuf::from(src_dir));
    let program = match abra_core::compile_bytecode(main_file, fp) {
        Ok(p) => p,
        Err(e) => {
            eprintln!("{e}");
            std::process::exit(4);
        }
    };
    std::panic::set_hook(Box::new(|info| {
        let msg = if let Some(s) = info.payload().downcast_ref::<&str>() {
            (*s).to_string()
        } else if let Some(s) = info.payload().downcast_ref::<String>() {
            s.clone()
        } else {
            "<non-string panic>".to_string()
        };
        let loc = info.location().map(|l| l.file().to_string()).unwrap_or_default();
        LAST_PANIC.with(|p| *p.borrow_mut() = Some(format!("{msg} @ {loc}")));
    }));
    for sel in 0..n_calls {
        let mut st = State { sel, args: None, report: None, out: String::new() };
        let mut rt = Runtime::new(program.clone());
        let res = catch_unwind(AssertUnwindSafe(|| {
            let mut steps: u64 = 0;
            loop {
                let status = rt.run_n_steps(10_000);
                steps += status.steps_consumed as u64;
                match status.kind {
                    RuntimeStatusKind::Done => return ("done", String::new()),
                    RuntimeStatusKind::MainThreadError(e) => return ("error", format!("{e}")),
                    RuntimeStatusKind::OutOfSteps => {
                        if steps > 50_000_000 {
                            return ("cap", String::new());
                        }
                    }
                    RuntimeStatusKind::PendingHostFunc => {
                        for thread in rt.iter_threads_mut() {
                            if let Some(id) = thread.get_pending_host_func() {
                                glue::handle(&mut *thread, id, &mut st);
                            }
                        }
                    }
                }
            }
        }));
        let (end, msg) = match res {
            Ok((e, m)) => (e, m),
            Err(_) => {
                // the heap may be inconsistent after a panic inside the VM
                std::mem::forget(rt);
                ("panic", LAST_PANIC.with(|p| p.borrow_mut().take()).unwrap_or_default())
            }
        };
        let mut line = format!("R {sel} {end} {} {}", hex(&msg), st.report.as_deref().map(hex).unwrap_or_else(|| "-".into()));
        // a reported empty string and "no report" must differ
        if st.report.as_deref() == Some("") {
            line = format!("R {sel} {end} {} E", hex(&msg));
        }
        match &st.args {
            None => line.push_str(" -"),
            Some(a) => {
                line.push_str(&format!(" {}", a.len()));
                for x in a {
                    line.push(' ');
                    line.push_str(&hex(x));
                }
            }
        }
        println!("{line}");
    }
}
