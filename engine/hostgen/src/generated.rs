// The bindings produced by abra_core::generate_host_function_enum for this batch.
include!(concat!(env!("CARGO_MANIFEST_DIR"), "/gen/mod.rs"));
