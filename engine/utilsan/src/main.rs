//! Sanitizer worker for /repo/utils: one JSON request per line on stdin, one JSON reply per line on stdout.
use std::io::{BufRead, Write};

fn main() {
    utilsan::install_hook();
    let stdin = std::io::stdin();
    let stdout = std::io::stdout();
    for line in stdin.lock().lines() {
        let Ok(line) = line else { break };
        if line.trim().is_empty() {
            continue;
        }
        let resp = utilsan::serve_line(&line);
        let mut out = stdout.lock();
        let _ = writeln!(out, "{resp}");
        let _ = out.flush();
    }
}
