//! utilsan: worker that executes IdSet / Arena operation sequences against the real
//! `/repo/utils` types and an in-worker model. One JSON request per stdin line, one JSON
//! response per stdout line:
//!   {"ok":true,"stats":{..}}   or   {"ok":false,"step":i,"what":".."}
//! Normally built with AddressSanitizer (`--cfg utilsan_asan`): a memory error kills the
//! process with an "AddressSanitizer" report on stderr; the coordinator turns that into a
//! failure. Without ASan only the model / alignment / overlap / pattern checks apply.

use serde::Deserialize;
use serde_json::{Value, json};
use std::cell::RefCell;
use std::collections::{BTreeMap, HashMap};
use std::fmt::Debug;
use std::hash::Hash;
use std::io::{BufRead, Write};
use std::panic::{AssertUnwindSafe, catch_unwind};
use utils::arena::Arena;
use utils::arena::arena_ref::Ar;
use utils::id_set::IdSet;

pub const ASAN: bool = cfg!(utilsan_asan);

thread_local! {
    static LAST_PANIC: RefCell<Option<String>> = const { RefCell::new(None) };
    /// index of the operation being executed (reported when an unexpected panic is caught)
    static STEP: std::cell::Cell<i64> = const { std::cell::Cell::new(-1) };
}

#[derive(Deserialize, Debug)]
#[serde(tag = "kind", rename_all = "snake_case")]
enum Req {
    Ping,
    /// deliberate use-after-free in the harness itself: proves the sanitizer is live
    SelftestUaf,
    Idset {
        /// 0 u64 | 1 String | 2 Vec<u8>
        ty: u8,
        ops: Vec<SetOp>,
    },
    Arena {
        /// 0 Arena::new() | 1 Arena::default() | 2 with_capacity(0) | 3 (1) | 4 (7) | 5 (64)
        ctor: u8,
        allocs: Vec<Alloc>,
    },
}

#[derive(Deserialize, Debug, Clone)]
#[serde(tag = "op", rename_all = "snake_case")]
enum SetOp {
    New { dst: u32, dflt: bool },
    Insert { s: u32, v: u32 },
    /// try_get_id + contains (+ get_id; on a missing value get_id must panic when `probe`)
    Lookup { s: u32, v: u32, probe: bool },
    /// `set[id]`; an id >= len must panic
    Index { s: u32, id: u32 },
    /// `set[id] = set[id].clone()` (hash-preserving mutation, the type's stated requirement)
    IndexMut { s: u32, id: u32 },
    Iter { s: u32, by_ref: bool },
    Debug { s: u32 },
    Len { s: u32 },
    Clear { s: u32 },
    Clone { s: u32, dst: u32 },
    Drop { s: u32 },
    /// consume the set; `take` = stop after that many items and drop the iterator
    IntoIter { s: u32, take: Option<u32> },
}

#[derive(Deserialize, Debug, Clone, Copy)]
struct Alloc {
    size: u32,
    align: u32,
}

// ---------------------------------------------------------------------------------------------
// IdSet

trait Elem: Hash + Eq + Clone + Debug + Default {
    fn make(v: u32) -> Self;
}

const LENS: [usize; 12] = [1, 2, 3, 7, 8, 15, 16, 17, 24, 40, 100, 300];

impl Elem for u64 {
    fn make(v: u32) -> u64 {
        match v {
            0 => 0,
            1 => u64::MAX,
            2 => 1,
            _ => (v as u64).wrapping_mul(0x9E37_79B9_7F4A_7C15),
        }
    }
}

impl Elem for String {
    fn make(v: u32) -> String {
        if v == 0 {
            return String::new();
        }
        let mut s = format!("s{v}|");
        let want = LENS[(v as usize) % LENS.len()];
        let fill = (b'a' + (v % 26) as u8) as char;
        while s.len() < want {
            s.push(fill);
        }
        s
    }
}

impl Elem for Vec<u8> {
    fn make(v: u32) -> Vec<u8> {
        if v == 0 {
            return Vec::new();
        }
        let mut b = v.to_le_bytes().to_vec();
        b.push(0xFF);
        let want = LENS[(v as usize * 5 + 3) % LENS.len()];
        while b.len() < want {
            b.push((v as u8).wrapping_mul(31).wrapping_add(b.len() as u8));
        }
        b
    }
}

#[derive(Clone)]
struct Model<T> {
    map: HashMap<T, u32>,
    vec: Vec<T>,
}

impl<T: Elem> Model<T> {
    fn new() -> Self {
        Model { map: HashMap::new(), vec: Vec::new() }
    }
    fn insert(&mut self, x: T) -> u32 {
        if let Some(&id) = self.map.get(&x) {
            return id;
        }
        let id = self.vec.len() as u32;
        self.map.insert(x.clone(), id);
        self.vec.push(x);
        id
    }
    fn debug_string(&self) -> String {
        let mut s = String::from("{");
        for (i, x) in self.vec.iter().enumerate() {
            if i > 0 {
                s.push_str(", ");
            }
            s.push_str(&format!("{x:?}"));
        }
        s.push('}');
        s
    }
}

fn short<T: Debug>(x: &T) -> String {
    let s = format!("{x:?}");
    if s.len() > 60 { format!("{}..({} chars)", &s[..50], s.len()) } else { s }
}

/// Every read-only observation of the set must agree with the model.
fn check_all<T: Elem>(s: &IdSet<T>, m: &Model<T>) -> Result<(), String> {
    if s.len() != m.vec.len() {
        return Err(format!("len() = {} but the model holds {}", s.len(), m.vec.len()));
    }
    if s.is_empty() != m.vec.is_empty() {
        return Err(format!("is_empty() = {} with model length {}", s.is_empty(), m.vec.len()));
    }
    for (i, x) in m.vec.iter().enumerate() {
        let got = &s[i as u32];
        if got != x {
            return Err(format!("set[{i}] = {} but the model has {}", short(got), short(x)));
        }
        let id = s.try_get_id(x);
        if id != Some(i as u32) {
            return Err(format!("try_get_id(value of id {i}) = {id:?}"));
        }
        if !s.contains(x) {
            return Err(format!("contains(value of id {i}) = false"));
        }
    }
    let mut n = 0usize;
    for (i, x) in s.iter().enumerate() {
        match m.vec.get(i) {
            Some(y) if y == x => {}
            other => return Err(format!("iter() item {i} = {} but the model has {}", short(x), other.map(short).unwrap_or("nothing".into()))),
        }
        n += 1;
    }
    if n != m.vec.len() {
        return Err(format!("iter() yielded {n} items, model holds {}", m.vec.len()));
    }
    Ok(())
}

fn panics<R>(f: impl FnOnce() -> R) -> bool {
    catch_unwind(AssertUnwindSafe(f)).is_err()
}

struct SetStats {
    ops: u64,
    expected_panics: u64,
    max_len: usize,
    checks: u64,
}

fn run_idset<T: Elem>(ops: &[SetOp]) -> Result<Value, (usize, String)> {
    let mut slots: BTreeMap<u32, (IdSet<T>, Model<T>)> = BTreeMap::new();
    let mut st = SetStats { ops: 0, expected_panics: 0, max_len: 0, checks: 0 };
    for (i, op) in ops.iter().enumerate() {
        STEP.with(|c| c.set(i as i64));
        st.ops += 1;
        let fail = |what: String| (i, what);
        let mut touched: Vec<u32> = vec![];
        macro_rules! slot {
            ($s:expr) => {
                match slots.get_mut($s) {
                    Some(x) => x,
                    None => return Err(fail(format!("request refers to dead slot {}", $s))),
                }
            };
        }
        match op {
            SetOp::New { dst, dflt } => {
                let set: IdSet<T> = if *dflt { IdSet::default() } else { IdSet::new() };
                slots.insert(*dst, (set, Model::new()));
                touched.push(*dst);
            }
            SetOp::Insert { s, v } => {
                let (set, m) = slot!(s);
                let x = T::make(*v);
                let want = m.insert(x.clone());
                let got = set.insert(x);
                if got != want {
                    return Err(fail(format!("insert(value {v}) returned id {got}, model says {want}")));
                }
                touched.push(*s);
            }
            SetOp::Lookup { s, v, probe } => {
                let (set, m) = slot!(s);
                let x = T::make(*v);
                let want = m.map.get(&x).copied();
                let got = set.try_get_id(&x);
                if got != want {
                    return Err(fail(format!("try_get_id(value {v}) = {got:?}, model says {want:?}")));
                }
                if set.contains(&x) != want.is_some() {
                    return Err(fail(format!("contains(value {v}) = {}, model says {}", set.contains(&x), want.is_some())));
                }
                match want {
                    Some(id) => {
                        if set.get_id(&x) != id {
                            return Err(fail(format!("get_id(value {v}) = {}, model says {id}", set.get_id(&x))));
                        }
                    }
                    None if *probe => {
                        // documented: "this will panic if value is not found"
                        if !panics(|| set.get_id(&x)) {
                            return Err(fail(format!("get_id(missing value {v}) did not panic")));
                        }
                        st.expected_panics += 1;
                    }
                    None => {}
                }
                touched.push(*s);
            }
            SetOp::Index { s, id } => {
                let (set, m) = slot!(s);
                match m.vec.get(*id as usize) {
                    Some(want) => {
                        let got = &set[*id];
                        if got != want {
                            return Err(fail(format!("set[{id}] = {}, model has {}", short(got), short(want))));
                        }
                    }
                    None => {
                        let r = catch_unwind(AssertUnwindSafe(|| set[*id].clone()));
                        if let Ok(x) = r {
                            return Err(fail(format!("set[{id}] with len {} did not panic and yielded {}", m.vec.len(), short(&x))));
                        }
                        st.expected_panics += 1;
                    }
                }
                touched.push(*s);
            }
            SetOp::IndexMut { s, id } => {
                let (set, m) = slot!(s);
                if (*id as usize) < m.vec.len() {
                    let x = set[*id].clone();
                    set[*id] = x;
                } else {
                    let r = catch_unwind(AssertUnwindSafe(|| {
                        let slot: &mut T = &mut set[*id];
                        slot.clone()
                    }));
                    if r.is_ok() {
                        return Err(fail(format!("&mut set[{id}] with len {} did not panic", m.vec.len())));
                    }
                    st.expected_panics += 1;
                }
                touched.push(*s);
            }
            SetOp::Iter { s, by_ref } => {
                let (set, m) = slot!(s);
                let items: Vec<&T> = if *by_ref {
                    let mut v = vec![];
                    for x in &*set {
                        v.push(x);
                    }
                    v
                } else {
                    set.iter().collect()
                };
                if items.len() != m.vec.len() || items.iter().zip(m.vec.iter()).any(|(a, b)| *a != b) {
                    return Err(fail(format!("iteration yielded {} items that differ from the model's {} items in insertion order", items.len(), m.vec.len())));
                }
                touched.push(*s);
            }
            SetOp::Debug { s } => {
                let (set, m) = slot!(s);
                let got = format!("{set:?}");
                let want = m.debug_string();
                if got != want {
                    return Err(fail(format!("Debug output {} differs from the model's {}", short(&got), short(&want))));
                }
                touched.push(*s);
            }
            SetOp::Len { s } => {
                let (set, m) = slot!(s);
                if set.len() != m.vec.len() || set.is_empty() != m.vec.is_empty() {
                    return Err(fail(format!("len() = {}, is_empty() = {}, model length {}", set.len(), set.is_empty(), m.vec.len())));
                }
            }
            SetOp::Clear { s } => {
                let (set, m) = slot!(s);
                set.clear();
                m.map.clear();
                m.vec.clear();
                touched.push(*s);
            }
            SetOp::Clone { s, dst } => {
                let (set, m) = slot!(s);
                let c = (set.clone(), m.clone());
                slots.insert(*dst, c);
                touched.push(*s);
                touched.push(*dst);
            }
            SetOp::Drop { s } => {
                if slots.remove(s).is_none() {
                    return Err(fail(format!("request refers to dead slot {s}")));
                }
            }
            SetOp::IntoIter { s, take } => {
                let Some((set, m)) = slots.remove(s) else { return Err(fail(format!("request refers to dead slot {s}"))) };
                let mut it = set.into_iter();
                let limit = take.map(|t| t as usize).unwrap_or(usize::MAX);
                let mut k = 0usize;
                while k < limit {
                    match it.next() {
                        None => break,
                        Some(x) => {
                            match m.vec.get(k) {
                                Some(y) if *y == x => {}
                                other => return Err(fail(format!("into_iter() item {k} = {}, model has {}", short(&x), other.map(short).unwrap_or("nothing".into())))),
                            }
                            k += 1;
                        }
                    }
                }
                if take.is_none() && k != m.vec.len() {
                    return Err(fail(format!("into_iter() yielded {k} items, model holds {}", m.vec.len())));
                }
                drop(it);
            }
        }
        for t in touched {
            if let Some((set, m)) = slots.get(&t) {
                st.checks += 1;
                st.max_len = st.max_len.max(m.vec.len());
                if let Err(e) = check_all(set, m) {
                    return Err((i, format!("after this op, slot {t}: {e}")));
                }
            }
        }
    }
    // end of sequence: every survivor must still agree with its model, then is dropped
    for (t, (set, m)) in slots.iter() {
        st.checks += 1;
        if let Err(e) = check_all(set, m) {
            return Err((ops.len(), format!("at end of sequence, slot {t}: {e}")));
        }
    }
    let live = slots.len();
    drop(slots);
    Ok(json!({"ops": st.ops, "expected_panics": st.expected_panics, "max_len": st.max_len, "full_checks": st.checks, "live_at_end": live}))
}

// ---------------------------------------------------------------------------------------------
// Arena

/// byte j of the k-th allocation
#[inline]
fn pat(k: u32, j: usize) -> u8 {
    (k.wrapping_mul(131).wrapping_add(17) as usize ^ j.wrapping_mul(7) ^ (j >> 8)) as u8
}

trait Pat: Copy + PartialEq + 'static {
    const PAYLOAD: usize;
    fn build(k: u32) -> Self;
    fn bytes(&self) -> &[u8];
}

macro_rules! pat_types {
    ($($name:ident $a:literal),*) => {$(
        #[repr(align($a))]
        #[derive(Clone, Copy, PartialEq, Eq)]
        struct $name<const S: usize>([u8; S]);
        impl<const S: usize> Pat for $name<S> {
            const PAYLOAD: usize = S;
            fn build(k: u32) -> Self {
                let mut v = $name([0u8; S]);
                for j in 0..S {
                    v.0[j] = pat(k, j);
                }
                v
            }
            fn bytes(&self) -> &[u8] {
                &self.0
            }
        }
    )*};
}
pat_types!(A1 1, A2 2, A4 4, A8 8, A16 16, A32 32, A64 64);

fn verify(bytes: &[u8], k: u32, full: bool) -> Result<(), String> {
    let n = bytes.len();
    let bad = |j: usize| format!("allocation #{k} byte {j} reads {:#04x}, pattern is {:#04x}", bytes[j], pat(k, j));
    if full || n <= 256 {
        for j in 0..n {
            if bytes[j] != pat(k, j) {
                return Err(bad(j));
            }
        }
    } else {
        for j in (0..64).chain(n - 64..n).chain((64..n - 64).step_by(97)) {
            if bytes[j] != pat(k, j) {
                return Err(bad(j));
            }
        }
    }
    Ok(())
}

struct Rec<'a> {
    addr: usize,
    size_of: usize,
    align: usize,
    check: Box<dyn Fn(bool) -> Result<(), String> + 'a>,
}

fn alloc_one<'a, T: Pat>(arena: &'a Arena, k: u32, recs: &mut Vec<Rec<'a>>) -> Result<(), String> {
    let ar: Ar<'a, T> = arena.alloc(T::build(k));
    let addr = {
        let r: &T = &ar;
        r as *const T as usize
    };
    let size_of = std::mem::size_of::<T>();
    let align = std::mem::align_of::<T>();
    if addr == 0 || addr % align != 0 {
        return Err(format!("allocation #{k} (size {size_of}, align {align}) is at address {addr:#x}, which is {} mod {align}", addr % align));
    }
    if format!("{ar:?}") != format!("{:#x}", addr) {
        return Err(format!("allocation #{k}: Ar Debug prints {ar:?}, address is {addr:#x}"));
    }
    if size_of > 0 {
        for (j, r) in recs.iter().enumerate() {
            if r.size_of > 0 && addr < r.addr + r.size_of && r.addr < addr + size_of {
                return Err(format!(
                    "allocation #{k} [{addr:#x}, +{size_of}) overlaps live allocation #{j} [{:#x}, +{}) (align {})",
                    r.addr, r.size_of, r.align
                ));
            }
        }
    }
    let copy = ar; // Ar is Copy: the copy must stay valid as well
    let check = Box::new(move |full: bool| -> Result<(), String> {
        let t: &T = &copy;
        verify(t.bytes(), k, full)?;
        if full && !(ar == copy) {
            return Err(format!("allocation #{k}: Ar != its own copy"));
        }
        Ok(())
    });
    check(true)?;
    recs.push(Rec { addr, size_of, align, check });
    Ok(())
}

macro_rules! by_size {
    ($ty:ident, $size:expr, $($args:expr),*) => {
        match $size {
            0 => alloc_one::<$ty<0>>($($args),*),
            1 => alloc_one::<$ty<1>>($($args),*),
            2 => alloc_one::<$ty<2>>($($args),*),
            3 => alloc_one::<$ty<3>>($($args),*),
            8 => alloc_one::<$ty<8>>($($args),*),
            24 => alloc_one::<$ty<24>>($($args),*),
            100 => alloc_one::<$ty<100>>($($args),*),
            4096 => alloc_one::<$ty<4096>>($($args),*),
            70000 => alloc_one::<$ty<70000>>($($args),*),
            other => Err(format!("unsupported payload size {other}")),
        }
    };
}

fn run_arena(ctor: u8, allocs: &[Alloc]) -> Result<Value, (usize, String)> {
    let arena = match ctor {
        0 => Arena::new(),
        1 => Arena::default(),
        2 => Arena::with_capacity(0),
        3 => Arena::with_capacity(1),
        4 => Arena::with_capacity(7),
        5 => Arena::with_capacity(64),
        other => return Err((0, format!("unsupported constructor {other}"))),
    };
    let mut recs: Vec<Rec<'_>> = Vec::with_capacity(allocs.len());
    let mut jumps = 0u64; // address discontinuities = observed buffer switches (approximate)
    let mut bytes = 0u64;
    for (i, a) in allocs.iter().enumerate() {
        STEP.with(|c| c.set(i as i64));
        let k = i as u32;
        let r = match a.align {
            1 => by_size!(A1, a.size, &arena, k, &mut recs),
            2 => by_size!(A2, a.size, &arena, k, &mut recs),
            4 => by_size!(A4, a.size, &arena, k, &mut recs),
            8 => by_size!(A8, a.size, &arena, k, &mut recs),
            16 => by_size!(A16, a.size, &arena, k, &mut recs),
            32 => by_size!(A32, a.size, &arena, k, &mut recs),
            64 => by_size!(A64, a.size, &arena, k, &mut recs),
            other => Err(format!("unsupported alignment {other}")),
        };
        if let Err(e) = r {
            return Err((i, e));
        }
        let n = recs.len();
        if n >= 2 {
            let (p, c) = (&recs[n - 2], &recs[n - 1]);
            if c.addr < p.addr + p.size_of || c.addr >= p.addr + p.size_of + c.align.max(1) {
                jumps += 1;
            }
        }
        bytes += recs[n - 1].size_of as u64;
        // every earlier allocation still reads back its pattern (large ones sampled; all of
        // them are read completely at the end)
        for r in recs[..n - 1].iter() {
            if let Err(e) = (r.check)(false) {
                return Err((i, format!("after allocation #{k}: {e}")));
            }
        }
    }
    for r in recs.iter() {
        if let Err(e) = (r.check)(true) {
            return Err((allocs.len(), format!("at end of sequence: {e}")));
        }
    }
    let n = recs.len();
    drop(recs);
    drop(arena);
    Ok(json!({"allocs": n, "address_jumps": jumps, "bytes": bytes}))
}

// ---------------------------------------------------------------------------------------------

fn handle(req: Req) -> Value {
    let r = match req {
        Req::Ping => Ok(json!({"build": if ASAN { "asan" } else { "plain" }})),
        Req::SelftestUaf => {
            if !ASAN {
                Err((0, "not an ASan build".to_string()))
            } else {
                let v = vec![7u8; 64];
                let p = v.as_ptr();
                drop(v);
                // deliberate: the sanitizer must kill the process here
                let x = unsafe { std::ptr::read_volatile(p) };
                Ok(json!({"survived": x}))
            }
        }
        Req::Idset { ty, ops } => match ty {
            0 => run_idset::<u64>(&ops),
            1 => run_idset::<String>(&ops),
            2 => run_idset::<Vec<u8>>(&ops),
            other => Err((0, format!("unsupported element type {other}"))),
        },
        Req::Arena { ctor, allocs } => run_arena(ctor, &allocs),
    };
    match r {
        Ok(stats) => json!({"ok": true, "stats": stats}),
        Err((step, what)) => json!({"ok": false, "step": step, "what": what}),
    }
}

/// Installs the panic hook that records the message (and prints it: a non-unwinding panic aborts right after).
pub fn install_hook() {
    std::panic::set_hook(Box::new(|info| {
        let msg = if let Some(s) = info.payload().downcast_ref::<&str>() {
            (*s).to_string()
        } else if let Some(s) = info.payload().downcast_ref::<String>() {
            s.clone()
        } else {
            "<non-string panic>".to_string()
        };
        let loc = info.location().map(|l| format!("{}:{}", l.file(), l.line())).unwrap_or_default();
        // a non-unwinding panic (debug-assertion "unsafe precondition" checks, misaligned pointer
        // dereference) aborts the process after this hook: stderr is where its message survives.
        // The documented panics the sequences provoke on purpose are printed too (harmless).
        if !QUIET.with(|q| q.get()) {
            eprintln!("utilsan: panic: {msg} at {loc}");
        }
        LAST_PANIC.with(|p| *p.borrow_mut() = Some(format!("{msg} at {loc}")));
    }));
}

thread_local! {
    static QUIET: std::cell::Cell<bool> = const { std::cell::Cell::new(false) };
}

/// Do not print the documented panics (used by the fuzz targets, which run millions of sequences).
pub fn set_quiet(q: bool) {
    QUIET.with(|c| c.set(q));
}

/// Executes one request given as JSON text; the reply is `{"ok": true, "stats": ..}` or
/// `{"ok": false, "step": n, "what": ..}`.
pub fn serve_line(line: &str) -> Value {
    match serde_json::from_str::<Req>(line) {
        Err(e) => json!({"ok": false, "step": 0, "what": format!("bad request: {e}")}),
        Ok(req) => {
            LAST_PANIC.with(|p| *p.borrow_mut() = None);
            STEP.with(|c| c.set(-1));
            match catch_unwind(AssertUnwindSafe(|| handle(req))) {
                Ok(v) => v,
                Err(_) => {
                    let m = LAST_PANIC.with(|p| p.borrow_mut().take()).unwrap_or_else(|| "<unknown>".into());
                    json!({"ok": false, "step": STEP.with(|c| c.get()), "what": format!("unexpected panic: {m}")})
                }
            }
        }
    }
}
