//! Coverage-guided campaigns (libFuzzer through cargo-fuzz) for the thorough tier.
//!
//! A campaign builds one target of `engine/fuzz` from /repo's working tree, runs `jobs` independent
//! libFuzzer processes for a fixed number of executions each (never a time budget) from a fresh corpus
//! directory seeded with the given inputs, and returns every input libFuzzer kept (the final corpus: one
//! input per newly covered feature) and every input it saved as a crash. The caller then judges all of
//! them in the ordinary stable worker with the ordinary oracle: a crash the target reports counts only
//! if that judgement fails too, and the corpus adds coverage-selected inputs to the seeded search.
//! `-seed=` pins libFuzzer only approximately; the saved input is the reproducible unit.

use std::path::{Path, PathBuf};
use std::process::{Command, Stdio};
use std::time::Instant;

pub struct Campaign {
    pub target: &'static str,
    /// "none" | "address"
    pub sanitizer: &'static str,
    /// executions per job
    pub runs: u64,
    pub max_len: usize,
    pub jobs: usize,
    pub seeds: Vec<Vec<u8>>,
    pub dict: Vec<String>,
}

#[derive(Default, Debug)]
pub struct CampaignOut {
    pub corpus: Vec<Vec<u8>>,
    pub crashes: Vec<Vec<u8>>,
    pub execs: u64,
    pub cov: u64,
    pub features: u64,
    pub build_s: f64,
    pub run_s: f64,
    pub jobs_crashed: usize,
    pub slow_or_timeout: usize,
    pub notes: Vec<String>,
}

fn fuzz_dir() -> PathBuf {
    crate::harness::root().join("engine").join("fuzz")
}

fn read_dir_files(d: &Path) -> Vec<Vec<u8>> {
    let mut names: Vec<PathBuf> = std::fs::read_dir(d).map(|r| r.filter_map(|e| e.ok()).map(|e| e.path()).filter(|p| p.is_file()).collect()).unwrap_or_default();
    names.sort();
    names.iter().filter_map(|p| std::fs::read(p).ok()).collect()
}

fn dict_escape(s: &str) -> String {
    let mut o = String::from("\"");
    for b in s.bytes() {
        if b == b'"' || b == b'\\' {
            o.push('\\');
            o.push(b as char);
        } else if (0x20..0x7f).contains(&b) {
            o.push(b as char);
        } else {
            o.push_str(&format!("\\x{b:02x}"));
        }
    }
    o.push('"');
    o
}

/// Builds and runs the campaign. Err = the campaign could not be built or started (a harness problem,
/// never a violation).
pub fn run(c: &Campaign, seed: u64) -> Result<CampaignOut, String> {
    let fd = fuzz_dir();
    let tdir = fd.join(format!("target-{}", c.sanitizer));
    let t0 = Instant::now();
    let st = Command::new("cargo")
        .args(["+nightly", "fuzz", "build", "--fuzz-dir", ".", "-s", c.sanitizer, "--target-dir"])
        .arg(&tdir)
        .arg(c.target)
        .current_dir(&fd)
        .env("CARGO_NET_OFFLINE", "true")
        .stdout(Stdio::null())
        .stderr(Stdio::piped())
        .output()
        .map_err(|e| format!("cargo fuzz build could not be started: {e}"))?;
    if !st.status.success() {
        let err = String::from_utf8_lossy(&st.stderr);
        let tail: Vec<&str> = err.lines().rev().take(25).collect();
        return Err(format!("cargo fuzz build {} failed:\n{}", c.target, tail.into_iter().rev().collect::<Vec<_>>().join("\n")));
    }
    let bin = tdir.join("x86_64-unknown-linux-gnu").join("release").join(c.target);
    if !bin.exists() {
        return Err(format!("fuzz binary {} not found after build", bin.display()));
    }
    let mut out = CampaignOut { build_s: t0.elapsed().as_secs_f64(), ..Default::default() };

    let work = fd.join("work").join(c.target);
    let _ = std::fs::remove_dir_all(&work);
    std::fs::create_dir_all(&work).map_err(|e| format!("mkdir {}: {e}", work.display()))?;
    let seeds = work.join("seeds");
    std::fs::create_dir_all(&seeds).map_err(|e| e.to_string())?;
    for (i, s) in c.seeds.iter().enumerate() {
        if s.len() <= c.max_len {
            std::fs::write(seeds.join(format!("seed-{i:05}")), s).map_err(|e| e.to_string())?;
        }
    }
    let dict = work.join("dict.txt");
    if !c.dict.is_empty() {
        let body: Vec<String> = c.dict.iter().map(|d| dict_escape(d)).collect();
        std::fs::write(&dict, body.join("\n") + "\n").map_err(|e| e.to_string())?;
    }

    let t1 = Instant::now();
    let mut children = vec![];
    for j in 0..c.jobs {
        let corp = work.join(format!("corpus-{j}"));
        let arts = work.join(format!("crash-{j}"));
        std::fs::create_dir_all(&corp).map_err(|e| e.to_string())?;
        std::fs::create_dir_all(&arts).map_err(|e| e.to_string())?;
        let mut cmd = Command::new(&bin);
        // job 0 starts from the seed inputs, odd jobs from an empty corpus (the two starts find different things)
        cmd.arg(&corp);
        if j % 2 == 0 {
            cmd.arg(&seeds);
        }
        cmd.arg(format!("-runs={}", c.runs))
            .arg(format!("-seed={}", (seed.wrapping_mul(1000) + j as u64 + 1) & 0xffff_ffff))
            .arg(format!("-max_len={}", c.max_len))
            .arg("-len_control=0")
            .arg("-timeout=60")
            .arg("-rss_limit_mb=4096")
            .arg("-print_final_stats=1")
            .arg("-verbosity=1")
            .arg(format!("-artifact_prefix={}/", arts.display()));
        if !c.dict.is_empty() {
            cmd.arg(format!("-dict={}", dict.display()));
        }
        let log = std::fs::File::create(work.join(format!("log-{j}.txt"))).map_err(|e| e.to_string())?;
        cmd.stdout(Stdio::null()).stderr(log).stdin(Stdio::null());
        cmd.env("ASAN_OPTIONS", "detect_leaks=0:abort_on_error=1:allocator_may_return_null=1");
        cmd.env("VERIF_FUZZ_QUIET", "1");
        children.push((j, cmd.spawn().map_err(|e| format!("spawn {}: {e}", bin.display()))?));
    }
    for (j, mut ch) in children {
        let status = ch.wait().map_err(|e| e.to_string())?;
        let log = std::fs::read_to_string(work.join(format!("log-{j}.txt"))).unwrap_or_default();
        let mut cov = 0u64;
        let mut ft = 0u64;
        for l in log.lines() {
            if let Some(r) = l.strip_prefix("stat::number_of_executed_units:") {
                out.execs += r.trim().parse::<u64>().unwrap_or(0);
            }
            if l.starts_with('#') {
                let w: Vec<&str> = l.split_whitespace().collect();
                for k in 0..w.len().saturating_sub(1) {
                    if w[k] == "cov:" {
                        cov = w[k + 1].parse().unwrap_or(cov);
                    }
                    if w[k] == "ft:" {
                        ft = w[k + 1].parse().unwrap_or(ft);
                    }
                }
            }
        }
        out.cov = out.cov.max(cov);
        out.features = out.features.max(ft);
        if !status.success() {
            out.jobs_crashed += 1;
            let tail: Vec<&str> = log.lines().rev().take(12).collect();
            out.notes.push(format!("job {j} ended with {status}: {}", tail.into_iter().rev().collect::<Vec<_>>().join(" | ")));
        }
        out.corpus.extend(read_dir_files(&work.join(format!("corpus-{j}"))));
        // libFuzzer also writes slow-unit-*, timeout-* and oom-* files next to crash-*: only crash-* means the
        // target's oracle (or a sanitizer) failed; the others are kept as ordinary inputs to re-judge
        let adir = work.join(format!("crash-{j}"));
        let mut names: Vec<PathBuf> = std::fs::read_dir(&adir).map(|r| r.filter_map(|e| e.ok()).map(|e| e.path()).filter(|p| p.is_file()).collect()).unwrap_or_default();
        names.sort();
        for n in names {
            let Ok(bytes) = std::fs::read(&n) else { continue };
            if n.file_name().and_then(|f| f.to_str()).is_some_and(|f| f.starts_with("crash-")) {
                out.crashes.push(bytes);
            } else {
                out.slow_or_timeout += 1;
                out.corpus.push(bytes);
            }
        }
    }
    out.run_s = t1.elapsed().as_secs_f64();
    out.corpus.sort();
    out.corpus.dedup();
    out.crashes.sort();
    out.crashes.dedup();
    let _ = std::fs::remove_dir_all(&work);
    Ok(out)
}

// ---------------------------------------------------------------------------------------------
// Re-judging campaign output with a check's ordinary oracle

use crate::harness::{Ctx, Env, Findings, Mode, Prop, Tier, Verdict};
use proptest::strategy::BoxedStrategy;
use serde_json::json;

/// The inputs a campaign kept or saved, decoded into the cases of an existing sub-property and judged
/// by it (in the stable worker, with the full oracle). No random search of its own.
pub struct Guided<'a, P: Prop> {
    pub inner: &'a P,
    pub cases: Vec<P::Case>,
    rule: &'static str,
}

impl<P: Prop> Prop for Guided<'_, P> {
    type Case = P::Case;
    fn name(&self) -> &'static str {
        "coverage_guided"
    }
    fn rule(&self) -> &'static str {
        self.rule
    }
    fn n_cases(&self, _tier: Tier) -> u32 {
        0
    }
    fn strategy(&self, tier: Tier, f: &Findings) -> BoxedStrategy<Self::Case> {
        self.inner.strategy(tier, f)
    }
    fn fixed_cases(&self, _tier: Tier, _f: &Findings) -> Vec<Self::Case> {
        self.cases.clone()
    }
    fn split(&self, c: &Self::Case) -> Vec<Self::Case> {
        self.inner.split(c)
    }
    fn judge(&self, c: &Self::Case, env: &mut Env) -> Verdict {
        self.inner.judge(c, env)
    }
}

/// Thorough tier (search mode) only: run the campaign, decode what it kept, judge it through `inner`.
/// In the quick tier and in replay mode the sub-property is registered with no cases so that replay
/// files written by an earlier thorough run still resolve.
pub fn guided<P: Prop>(ctx: &mut Ctx, inner: &P, c: Campaign, decode: impl Fn(&[u8]) -> Option<P::Case>) {
    let rule: &'static str = Box::leak(
        format!(
            "thorough tier only: libFuzzer target `{}` (sanitizer: {}), {} independent jobs x {} executions from a fresh corpus (even jobs seeded with {} inputs, odd jobs empty), max input {} bytes; every input libFuzzer kept (new coverage) or saved (target's oracle failed) is decoded to a case of `{}` and judged again by that sub-property in the stable worker; non-trivial and distinctness as there",
            c.target,
            c.sanitizer,
            c.jobs,
            c.runs,
            c.seeds.len(),
            c.max_len,
            inner.name()
        )
        .into_boxed_str(),
    );
    let mut cases = vec![];
    if ctx.tier == Tier::Thorough && matches!(ctx.mode, Mode::Search) {
        match run(&c, ctx.seed) {
            Err(e) => ctx.harness_error(format!("coverage-guided campaign {}: {e}", c.target)),
            Ok(out) => {
                let decode_all = |v: &Vec<Vec<u8>>| v.iter().filter_map(|b| decode(b)).collect::<Vec<_>>();
                let crashes = decode_all(&out.crashes);
                let corpus = decode_all(&out.corpus);
                ctx.extra.insert(
                    "coverage_guided_campaign".into(),
                    json!({"target": c.target, "sanitizer": c.sanitizer, "jobs": c.jobs, "runs_per_job": c.runs, "executions": out.execs, "edge_coverage": out.cov, "features": out.features,
                           "corpus_inputs_kept": out.corpus.len(), "inputs_saved_as_crash": out.crashes.len(), "slow_unit_or_timeout_inputs": out.slow_or_timeout, "jobs_ended_abnormally": out.jobs_crashed, "build_s": out.build_s.round(), "run_s": out.run_s.round(), "notes": out.notes}),
                );
                eprintln!("[{}] campaign {}: execs={} cov={} ft={} corpus={} crashes={} build={:.0}s run={:.0}s", ctx.id, c.target, out.execs, out.cov, out.features, out.corpus.len(), out.crashes.len(), out.build_s, out.run_s);
                if out.jobs_crashed > 0 && out.crashes.is_empty() {
                    ctx.harness_error(format!("campaign {}: {} job(s) ended abnormally without a saved input: {:?}", c.target, out.jobs_crashed, out.notes));
                }
                cases = crashes;
                cases.extend(corpus);
            }
        }
    }
    ctx.prop(&Guided { inner, cases, rule });
}

/// Deterministic pseudo-random seed inputs (fixed LCG; no RNG state outside this function) of growing length.
pub fn byte_seeds(n: usize, max_len: usize) -> Vec<Vec<u8>> {
    let mut x = 0x9E37_79B9_7F4A_7C15u64;
    (0..n)
        .map(|i| {
            let len = 1 + (i + 1) * max_len / (n + 1);
            (0..len)
                .map(|_| {
                    x = x.wrapping_mul(6364136223846793005).wrapping_add(1442695040888963407);
                    (x >> 33) as u8
                })
                .collect()
        })
        .collect()
}
