//! C36 — generated host bindings carry arguments and return values unchanged.
//!
//! One case = a batch of ~40 `#host fn echo_k(..) -> ..` signatures over generated `#host` structs
//! and enums, each with several calls whose argument values and return value are fixed by the
//! generator. For a batch the check
//!   1. writes `host.abra` (types + declarations) and `main.abra` (the calls),
//!   2. lets the real `abra_core::generate_host_function_enum` write the Rust bindings,
//!   3. compiles a copy of the `engine/hostgen` template crate that `include!`s those bindings
//!      together with generated glue (the host side of every `echo_k`),
//!   4. runs it: one fresh `Runtime` per call; the glue renders every argument it received through
//!      the bindings and returns the planned value through the bindings; the Abra side renders the
//!      value it received and hands the text to `verif_report`.
//! Oracle: both renderings equal the renderings of the planned values (round trip, both directions,
//! arguments in declaration order), nothing panics, the bindings compile.

use crate::g::values::*;
use crate::harness::*;
use proptest::prelude::*;
use serde::{Deserialize, Serialize};
use serde_json::{Value, json};
use std::collections::BTreeSet;
use std::path::{Path, PathBuf};
use std::process::{Command, Stdio};
use std::sync::{Arc, Mutex};
use std::time::{Duration, Instant};

// ---------------------------------------------------------------------------------------------
// case model

#[derive(Clone, Debug, Serialize, Deserialize, PartialEq, Eq, Hash)]
pub enum Ty {
    Int,
    Float,
    Bool,
    Str,
    Void,
    Arr(Box<Ty>),
    Tup(Vec<Ty>),
    Opt(Box<Ty>),
    Res(Box<Ty>, Box<Ty>),
    /// index into `Batch::defs`
    User(u16),
}

#[derive(Clone, Debug, Serialize, Deserialize, PartialEq, Eq, Hash)]
pub enum Def {
    /// `#host type St<i> = { f0: .., f1: .. }`
    Struct(Vec<Ty>),
    /// `#host type En<i> = | En<i>V0(..) | En<i>V1`
    Enum(Vec<Vec<Ty>>),
}

#[derive(Clone, Debug, Serialize, Deserialize, PartialEq, Eq, Hash)]
pub enum Val {
    Int(i64),
    /// bits
    Float(u64),
    Bool(bool),
    Str(String),
    Void,
    Arr(Vec<Val>),
    Tup(Vec<Val>),
    Some(Box<Val>),
    None,
    Ok(Box<Val>),
    Err(Box<Val>),
    St(Vec<Val>),
    En(u16, Vec<Val>),
}

#[derive(Clone, Debug, Serialize, Deserialize, PartialEq, Eq, Hash)]
pub struct Call {
    pub args: Vec<Val>,
    /// what the host returns
    pub ret: Val,
    /// call through a variable holding the host function instead of by name
    pub via_value: bool,
}

#[derive(Clone, Debug, Serialize, Deserialize, PartialEq, Eq, Hash)]
pub struct Sig {
    pub args: Vec<Ty>,
    pub ret: Ty,
    pub calls: Vec<Call>,
}

#[derive(Clone, Debug, Serialize, Deserialize, PartialEq, Eq, Hash, Default)]
pub struct Batch {
    pub defs: Vec<Def>,
    pub sigs: Vec<Sig>,
    /// constructs the generator removed because an open finding covers them: (key, count)
    #[serde(default)]
    pub excluded: Vec<(String, u64)>,
}

fn def_name(i: usize, d: &Def) -> String {
    match d {
        Def::Struct(_) => format!("St{i}"),
        Def::Enum(_) => format!("En{i}"),
    }
}

fn variant_name(i: usize, j: usize) -> String {
    format!("En{i}V{j}")
}

// ---------------------------------------------------------------------------------------------
// type utilities

fn abra_ty(t: &Ty, defs: &[Def]) -> String {
    match t {
        Ty::Int => "int".into(),
        Ty::Float => "float".into(),
        Ty::Bool => "bool".into(),
        Ty::Str => "string".into(),
        Ty::Void => "void".into(),
        Ty::Arr(e) => format!("array<{}>", abra_ty(e, defs)),
        Ty::Tup(es) => format!("({})", es.iter().map(|e| abra_ty(e, defs)).collect::<Vec<_>>().join(", ")),
        Ty::Opt(e) => format!("option<{}>", abra_ty(e, defs)),
        Ty::Res(a, b) => format!("result<{}, {}>", abra_ty(a, defs), abra_ty(b, defs)),
        Ty::User(i) => def_name(*i as usize, &defs[*i as usize]),
    }
}

/// structural description with user types expanded (distinctness key, evidence)
fn describe_ty(t: &Ty, defs: &[Def]) -> String {
    match t {
        Ty::Arr(e) => format!("array<{}>", describe_ty(e, defs)),
        Ty::Tup(es) => format!("({})", es.iter().map(|e| describe_ty(e, defs)).collect::<Vec<_>>().join(", ")),
        Ty::Opt(e) => format!("option<{}>", describe_ty(e, defs)),
        Ty::Res(a, b) => format!("result<{}, {}>", describe_ty(a, defs), describe_ty(b, defs)),
        Ty::User(i) => match &defs[*i as usize] {
            Def::Struct(fs) => format!("struct{{{}}}", fs.iter().map(|e| describe_ty(e, defs)).collect::<Vec<_>>().join(", ")),
            Def::Enum(vs) => format!(
                "enum{{{}}}",
                vs.iter().map(|v| if v.is_empty() { "_".to_string() } else { format!("_({})", v.iter().map(|e| describe_ty(e, defs)).collect::<Vec<_>>().join(", ")) }).collect::<Vec<_>>().join(" | ")
            ),
        },
        _ => abra_ty(t, defs),
    }
}

fn describe_sig(s: &Sig, defs: &[Def]) -> String {
    format!("fn({}) -> {}", s.args.iter().map(|a| describe_ty(a, defs)).collect::<Vec<_>>().join(", "), describe_ty(&s.ret, defs))
}

fn depth(t: &Ty, defs: &[Def]) -> u32 {
    match t {
        Ty::Arr(e) | Ty::Opt(e) => 1 + depth(e, defs),
        Ty::Tup(es) => 1 + es.iter().map(|e| depth(e, defs)).max().unwrap_or(0),
        Ty::Res(a, b) => 1 + depth(a, defs).max(depth(b, defs)),
        Ty::User(i) => match &defs[*i as usize] {
            Def::Struct(fs) => 1 + fs.iter().map(|e| depth(e, defs)).max().unwrap_or(0),
            Def::Enum(vs) => 1 + vs.iter().flatten().map(|e| depth(e, defs)).max().unwrap_or(0),
        },
        _ => 0,
    }
}

fn nontrivial(s: &Sig, defs: &[Def]) -> bool {
    let distinct: BTreeSet<String> = s.args.iter().map(|a| describe_ty(a, defs)).collect();
    (s.args.len() >= 2 && distinct.len() >= 2) || s.args.iter().chain(std::iter::once(&s.ret)).any(|t| depth(t, defs) >= 2)
}

/// type constructors and the void-related shapes a type contains
fn ty_features(t: &Ty, defs: &[Def], out: &mut BTreeSet<String>) {
    match t {
        Ty::Int => {
            out.insert("ty:int".into());
        }
        Ty::Float => {
            out.insert("ty:float".into());
        }
        Ty::Bool => {
            out.insert("ty:bool".into());
        }
        Ty::Str => {
            out.insert("ty:string".into());
        }
        Ty::Void => {
            out.insert("ty:void".into());
        }
        Ty::Arr(e) => {
            out.insert("ty:array".into());
            if **e == Ty::Void {
                out.insert("array-of-void".into());
            }
            ty_features(e, defs, out);
        }
        Ty::Tup(es) => {
            out.insert("ty:tuple".into());
            if es.iter().any(|e| *e == Ty::Void) {
                out.insert("void-in-tuple".into());
            }
            for e in es {
                ty_features(e, defs, out);
            }
        }
        Ty::Opt(e) => {
            out.insert("ty:option".into());
            if **e == Ty::Void {
                out.insert("option-of-void".into());
            }
            ty_features(e, defs, out);
        }
        Ty::Res(a, b) => {
            out.insert("ty:result".into());
            if **a == Ty::Void || **b == Ty::Void {
                out.insert("result-of-void".into());
            }
            ty_features(a, defs, out);
            ty_features(b, defs, out);
        }
        Ty::User(i) => match &defs[*i as usize] {
            Def::Struct(fs) => {
                out.insert("ty:struct".into());
                if fs.iter().any(|e| *e == Ty::Void) {
                    out.insert("void-in-struct".into());
                }
                if fs.iter().all(|e| *e == Ty::Void) {
                    out.insert("all-void-struct".into());
                }
                for e in fs {
                    ty_features(e, defs, out);
                }
            }
            Def::Enum(vs) => {
                out.insert("ty:enum".into());
                for v in vs {
                    if v.is_empty() {
                        out.insert("nullary-variant".into());
                    }
                    if v.len() == 1 && v[0] == Ty::Void {
                        out.insert("void-variant-payload".into());
                    }
                    if v.len() >= 2 {
                        out.insert("multi-field-variant".into());
                        if v.iter().any(|e| *e == Ty::Void) {
                            out.insert("void-in-multi-field-variant".into());
                        }
                    }
                    for e in v {
                        ty_features(e, defs, out);
                    }
                }
            }
        },
    }
}

fn sig_features(s: &Sig, defs: &[Def]) -> BTreeSet<String> {
    let mut out = BTreeSet::new();
    for a in &s.args {
        ty_features(a, defs, &mut out);
        if *a == Ty::Void {
            out.insert("void-arg".into());
        }
    }
    ty_features(&s.ret, defs, &mut out);
    if s.ret == Ty::Void {
        out.insert("void-ret".into());
    }
    if matches!(s.ret, Ty::Tup(_)) {
        out.insert("tuple-ret".into());
    }
    out
}

fn conforms(v: &Val, t: &Ty, defs: &[Def]) -> bool {
    match (v, t) {
        (Val::Int(_), Ty::Int) | (Val::Float(_), Ty::Float) | (Val::Bool(_), Ty::Bool) | (Val::Str(_), Ty::Str) | (Val::Void, Ty::Void) => true,
        (Val::Arr(xs), Ty::Arr(e)) => xs.iter().all(|x| conforms(x, e, defs)),
        (Val::Tup(xs), Ty::Tup(es)) => xs.len() == es.len() && xs.iter().zip(es).all(|(x, e)| conforms(x, e, defs)),
        (Val::None, Ty::Opt(_)) => true,
        (Val::Some(x), Ty::Opt(e)) => conforms(x, e, defs),
        (Val::Ok(x), Ty::Res(a, _)) => conforms(x, a, defs),
        (Val::Err(x), Ty::Res(_, b)) => conforms(x, b, defs),
        (Val::St(xs), Ty::User(i)) => match defs.get(*i as usize) {
            Some(Def::Struct(fs)) => xs.len() == fs.len() && xs.iter().zip(fs).all(|(x, e)| conforms(x, e, defs)),
            _ => false,
        },
        (Val::En(j, xs), Ty::User(i)) => match defs.get(*i as usize) {
            Some(Def::Enum(vs)) => match vs.get(*j as usize) {
                Some(fs) => xs.len() == fs.len() && xs.iter().zip(fs).all(|(x, e)| conforms(x, e, defs)),
                None => false,
            },
            _ => false,
        },
        _ => false,
    }
}

fn ty_well_formed(t: &Ty, limit: usize) -> bool {
    match t {
        Ty::Arr(e) | Ty::Opt(e) => ty_well_formed(e, limit),
        Ty::Tup(es) => (2..=4).contains(&es.len()) && es.iter().all(|e| ty_well_formed(e, limit)),
        Ty::Res(a, b) => ty_well_formed(a, limit) && ty_well_formed(b, limit),
        Ty::User(i) => (*i as usize) < limit,
        _ => true,
    }
}

fn batch_well_formed(b: &Batch) -> bool {
    for (i, d) in b.defs.iter().enumerate() {
        let ok = match d {
            Def::Struct(fs) => !fs.is_empty() && fs.iter().all(|t| ty_well_formed(t, i)),
            Def::Enum(vs) => !vs.is_empty() && vs.iter().flatten().all(|t| ty_well_formed(t, i)),
        };
        if !ok {
            return false;
        }
    }
    let n = b.defs.len();
    !b.sigs.is_empty()
        && b.sigs.iter().all(|s| {
            s.args.iter().all(|t| ty_well_formed(t, n))
                && ty_well_formed(&s.ret, n)
                && !s.calls.is_empty()
                && s.calls.iter().all(|c| c.args.len() == s.args.len() && c.args.iter().zip(&s.args).all(|(v, t)| conforms(v, t, &b.defs) && abra_expressible(v)) && conforms(&c.ret, &s.ret, &b.defs))
        })
}

/// argument values are written as Abra literals: floats must be finite
fn abra_expressible(v: &Val) -> bool {
    match v {
        Val::Float(b) => f64::from_bits(*b).is_finite(),
        Val::Arr(xs) | Val::Tup(xs) | Val::St(xs) | Val::En(_, xs) => xs.iter().all(abra_expressible),
        Val::Some(x) | Val::Ok(x) | Val::Err(x) => abra_expressible(x),
        _ => true,
    }
}

// ---------------------------------------------------------------------------------------------
// renderings (the comparison currency) and value expressions in both languages

#[derive(Clone, Copy, PartialEq)]
enum Side {
    /// rendering produced by the Rust glue from the values the bindings handed to the host
    Host,
    /// rendering produced by the generated Abra functions from the value Abra received
    Abra,
}

fn render(v: &Val, t: &Ty, defs: &[Def], side: Side) -> String {
    let list = |xs: &[Val], ts: &[Ty]| xs.iter().zip(ts).map(|(x, t)| render(x, t, defs, side)).collect::<Vec<_>>().join(",");
    match (v, t) {
        (Val::Int(n), _) => n.to_string(),
        (Val::Float(b), _) => match side {
            Side::Host => format!("f{b:016x}"),
            // Abra's float -> string is Rust's f64 Display (shortest text that round-trips)
            Side::Abra => f64::from_bits(*b).to_string(),
        },
        (Val::Bool(b), _) => b.to_string(),
        (Val::Str(s), _) => match side {
            Side::Host => format!("{s:?}"),
            Side::Abra => format!("<{s}>"),
        },
        (Val::Void, _) => "nil".into(),
        (Val::Arr(xs), Ty::Arr(e)) => {
            if side == Side::Abra && **e == Ty::Void {
                // the Abra side does not index an array<void>; it reports the length only
                format!("[#{}]", xs.len())
            } else {
                format!("[{}]", xs.iter().map(|x| render(x, e, defs, side)).collect::<Vec<_>>().join(","))
            }
        }
        (Val::Tup(xs), Ty::Tup(ts)) => format!("({})", list(xs, ts)),
        (Val::None, _) => "none".into(),
        (Val::Some(x), Ty::Opt(e)) => format!("some({})", render(x, e, defs, side)),
        (Val::Ok(x), Ty::Res(a, _)) => format!("ok({})", render(x, a, defs, side)),
        (Val::Err(x), Ty::Res(_, b)) => format!("err({})", render(x, b, defs, side)),
        (Val::St(xs), Ty::User(i)) => match &defs[*i as usize] {
            Def::Struct(fs) => format!("St{i}{{{}}}", list(xs, fs)),
            _ => "<ill-typed>".into(),
        },
        (Val::En(j, xs), Ty::User(i)) => match &defs[*i as usize] {
            Def::Enum(vs) => {
                let name = variant_name(*i as usize, *j as usize);
                if xs.is_empty() { name } else { format!("{name}({})", list(xs, &vs[*j as usize])) }
            }
            _ => "<ill-typed>".into(),
        },
        _ => "<ill-typed>".into(),
    }
}

fn abra_expr(v: &Val, t: &Ty, defs: &[Def]) -> String {
    let list = |xs: &[Val], ts: &[Ty]| xs.iter().zip(ts).map(|(x, t)| abra_expr(x, t, defs)).collect::<Vec<_>>().join(", ");
    match (v, t) {
        (Val::Int(n), _) => int_lit(*n),
        (Val::Float(b), _) => float_lit_plain(f64::from_bits(*b)),
        (Val::Bool(b), _) => b.to_string(),
        (Val::Str(s), _) => str_lit(s),
        (Val::Void, _) => "nil".into(),
        (Val::Arr(xs), Ty::Arr(e)) => format!("[{}]", xs.iter().map(|x| abra_expr(x, e, defs)).collect::<Vec<_>>().join(", ")),
        (Val::Tup(xs), Ty::Tup(ts)) => format!("({})", list(xs, ts)),
        (Val::None, _) => "option.none".into(),
        (Val::Some(x), Ty::Opt(e)) => format!("option.some({})", abra_expr(x, e, defs)),
        (Val::Ok(x), Ty::Res(a, _)) => format!("result.ok({})", abra_expr(x, a, defs)),
        (Val::Err(x), Ty::Res(_, b)) => format!("result.err({})", abra_expr(x, b, defs)),
        (Val::St(xs), Ty::User(i)) => match &defs[*i as usize] {
            Def::Struct(fs) => format!("St{i}({})", list(xs, fs)),
            _ => "nil".into(),
        },
        (Val::En(j, xs), Ty::User(i)) => match &defs[*i as usize] {
            Def::Enum(vs) => {
                let name = format!("En{i}.{}", variant_name(*i as usize, *j as usize));
                if xs.is_empty() { name } else { format!("{name}({})", list(xs, &vs[*j as usize])) }
            }
            _ => "nil".into(),
        },
        _ => "nil".into(),
    }
}

/// Rust expression of the type the bindings generate for `t` (documented mapping: int -> AbraInt,
/// float -> f64, string -> String, void -> (), array -> Vec, tuple -> tuple, option -> Option,
/// result -> Result, struct -> struct with public fields, variant with n >= 2 fields -> one tuple)
fn rust_expr(v: &Val, t: &Ty, defs: &[Def]) -> String {
    let list = |xs: &[Val], ts: &[Ty]| xs.iter().zip(ts).map(|(x, t)| rust_expr(x, t, defs)).collect::<Vec<_>>().join(", ");
    match (v, t) {
        (Val::Int(n), _) => format!("({n}i64)"),
        (Val::Float(b), _) => format!("f64::from_bits(0x{b:016x}u64)"),
        (Val::Bool(b), _) => b.to_string(),
        (Val::Str(s), _) => format!("String::from({s:?})"),
        (Val::Void, _) => "()".into(),
        (Val::Arr(xs), Ty::Arr(e)) => {
            if xs.is_empty() {
                "Vec::new()".into()
            } else {
                format!("vec![{}]", xs.iter().map(|x| rust_expr(x, e, defs)).collect::<Vec<_>>().join(", "))
            }
        }
        (Val::Tup(xs), Ty::Tup(ts)) => format!("({})", list(xs, ts)),
        (Val::None, _) => "None".into(),
        (Val::Some(x), Ty::Opt(e)) => format!("Some({})", rust_expr(x, e, defs)),
        (Val::Ok(x), Ty::Res(a, _)) => format!("Ok({})", rust_expr(x, a, defs)),
        (Val::Err(x), Ty::Res(_, b)) => format!("Err({})", rust_expr(x, b, defs)),
        (Val::St(xs), Ty::User(i)) => match &defs[*i as usize] {
            Def::Struct(fs) => format!("St{i} {{ {} }}", xs.iter().zip(fs).enumerate().map(|(j, (x, t))| format!("f{j}: {}", rust_expr(x, t, defs))).collect::<Vec<_>>().join(", ")),
            _ => "()".into(),
        },
        (Val::En(j, xs), Ty::User(i)) => match &defs[*i as usize] {
            Def::Enum(vs) => {
                let name = format!("En{i}::{}", variant_name(*i as usize, *j as usize));
                match xs.len() {
                    0 => name,
                    1 => format!("{name}({})", rust_expr(&xs[0], &vs[*j as usize][0], defs)),
                    _ => format!("{name}(({}))", list(xs, &vs[*j as usize])),
                }
            }
            _ => "()".into(),
        },
        _ => "()".into(),
    }
}

// ---------------------------------------------------------------------------------------------
// source emission

pub const CANARY: i64 = 424242;

fn host_abra(b: &Batch) -> String {
    let mut s = String::from("#host\nfn verif_sel() -> int\n\n#host\nfn verif_report(s: string) -> void\n\n");
    for (i, d) in b.defs.iter().enumerate() {
        match d {
            Def::Struct(fs) => {
                s.push_str(&format!("#host\ntype St{i} = {{\n"));
                for (j, t) in fs.iter().enumerate() {
                    s.push_str(&format!("    f{j}: {}\n", abra_ty(t, &b.defs)));
                }
                s.push_str("}\n\n");
            }
            Def::Enum(vs) => {
                s.push_str(&format!("#host\ntype En{i} =\n"));
                for (j, v) in vs.iter().enumerate() {
                    if v.is_empty() {
                        s.push_str(&format!("    | {}\n", variant_name(i, j)));
                    } else {
                        s.push_str(&format!("    | {}({})\n", variant_name(i, j), v.iter().map(|t| abra_ty(t, &b.defs)).collect::<Vec<_>>().join(", ")));
                    }
                }
                s.push('\n');
            }
        }
    }
    for (k, sig) in b.sigs.iter().enumerate() {
        s.push_str(&format!("#host\n{}\n\n", sig_decl(k, sig, &b.defs)));
    }
    s
}

fn sig_decl(k: usize, sig: &Sig, defs: &[Def]) -> String {
    format!("fn echo_{k}({}) -> {}", sig.args.iter().enumerate().map(|(i, t)| format!("a{i}: {}", abra_ty(t, defs))).collect::<Vec<_>>().join(", "), abra_ty(&sig.ret, defs))
}

fn collect_types(t: &Ty, defs: &[Def], out: &mut Vec<Ty>) {
    if out.contains(t) {
        return;
    }
    match t {
        Ty::Arr(e) | Ty::Opt(e) => collect_types(e, defs, out),
        Ty::Tup(es) => es.iter().for_each(|e| collect_types(e, defs, out)),
        Ty::Res(a, b) => {
            collect_types(a, defs, out);
            collect_types(b, defs, out);
        }
        Ty::User(i) => match &defs[*i as usize] {
            Def::Struct(fs) => fs.iter().for_each(|e| collect_types(e, defs, out)),
            Def::Enum(vs) => vs.iter().flatten().for_each(|e| collect_types(e, defs, out)),
        },
        _ => {}
    }
    if !out.contains(t) {
        out.push(t.clone());
    }
}

/// Abra function `sh_<n>(v: T) -> string` for every type that occurs in a return position.
fn abra_show_fns(b: &Batch) -> (Vec<Ty>, String) {
    let defs = &b.defs;
    let mut types = vec![];
    for s in &b.sigs {
        if s.ret != Ty::Void {
            collect_types(&s.ret, defs, &mut types);
        }
    }
    let idx = |t: &Ty| types.iter().position(|x| x == t).unwrap();
    let mut out = String::new();
    for (n, t) in types.iter().enumerate() {
        out.push_str(&format!("fn sh_{n}(v: {}) -> string {{\n", abra_ty(t, defs)));
        match t {
            Ty::Int | Ty::Float | Ty::Bool => out.push_str("    \"\" .. v\n"),
            Ty::Str => out.push_str("    \"<\" .. v .. \">\"\n"),
            Ty::Void => out.push_str("    \"nil\"\n"),
            Ty::Arr(e) => {
                if **e == Ty::Void {
                    out.push_str("    \"[#\" .. v.len() .. \"]\"\n");
                } else {
                    out.push_str(&format!(
                        "    var s = \"[\"\n    var i = 0\n    while i < v.len() {{\n        if i > 0 {{ s = s .. \",\" }}\n        s = s .. sh_{}(v[i])\n        i = i + 1\n    }}\n    s .. \"]\"\n",
                        idx(e)
                    ));
                }
            }
            Ty::Tup(es) => {
                out.push_str(&format!("    let ({}) = v\n", (0..es.len()).map(|i| format!("t{i}")).collect::<Vec<_>>().join(", ")));
                out.push_str(&format!("    \"(\" .. {} .. \")\"\n", es.iter().enumerate().map(|(i, e)| format!("sh_{}(t{i})", idx(e))).collect::<Vec<_>>().join(" .. \",\" .. ")));
            }
            Ty::Opt(e) => out.push_str(&format!("    match v {{\n        .some(x) -> \"some(\" .. sh_{}(x) .. \")\"\n        .none -> \"none\"\n    }}\n", idx(e))),
            Ty::Res(a, e) => out.push_str(&format!("    match v {{\n        .ok(x) -> \"ok(\" .. sh_{}(x) .. \")\"\n        .err(x) -> \"err(\" .. sh_{}(x) .. \")\"\n    }}\n", idx(a), idx(e))),
            Ty::User(i) => match &defs[*i as usize] {
                Def::Struct(fs) => out.push_str(&format!("    \"St{i}{{\" .. {} .. \"}}\"\n", fs.iter().enumerate().map(|(j, e)| format!("sh_{}(v.f{j})", idx(e))).collect::<Vec<_>>().join(" .. \",\" .. "))),
                Def::Enum(vs) => {
                    out.push_str("    match v {\n");
                    for (j, fs) in vs.iter().enumerate() {
                        let name = variant_name(*i as usize, j);
                        if fs.is_empty() {
                            out.push_str(&format!("        .{name} -> \"{name}\"\n"));
                        } else {
                            out.push_str(&format!(
                                "        .{name}({}) -> \"{name}(\" .. {} .. \")\"\n",
                                (0..fs.len()).map(|q| format!("x{q}")).collect::<Vec<_>>().join(", "),
                                fs.iter().enumerate().map(|(q, e)| format!("sh_{}(x{q})", idx(e))).collect::<Vec<_>>().join(" .. \",\" .. ")
                            ));
                        }
                    }
                    out.push_str("    }\n");
                }
            },
        }
        out.push_str("}\n\n");
    }
    (types, out)
}

fn abra_call_src(k: usize, sig: &Sig, c: &Call, defs: &[Def], ret_sh: Option<&str>) -> String {
    let mut s = String::new();
    for (i, (v, t)) in c.args.iter().zip(&sig.args).enumerate() {
        s.push_str(&format!("    let a{i}: {} = {}\n", abra_ty(t, defs), abra_expr(v, t, defs)));
    }
    s.push_str(&format!("    let canary = {CANARY}\n"));
    let args = (0..sig.args.len()).map(|i| format!("a{i}")).collect::<Vec<_>>().join(", ");
    let callee = if c.via_value {
        s.push_str(&format!("    let f = echo_{k}\n"));
        "f".to_string()
    } else {
        format!("echo_{k}")
    };
    match ret_sh {
        None => {
            s.push_str(&format!("    {callee}({args})\n"));
            s.push_str("    verif_report(\"c\" .. canary .. \"|nil\")\n");
        }
        Some(n) => {
            s.push_str(&format!("    let r = {callee}({args})\n"));
            s.push_str(&format!("    verif_report(\"c\" .. canary .. \"|\" .. {n}(r))\n"));
        }
    }
    s
}

fn main_abra(b: &Batch) -> String {
    let (types, shows) = abra_show_fns(b);
    let mut s = String::from("use host\n\n");
    s.push_str(&shows);
    let mut sel = 0usize;
    for (k, sig) in b.sigs.iter().enumerate() {
        let ret_sh = if sig.ret == Ty::Void { None } else { types.iter().position(|t| *t == sig.ret).map(|n| format!("sh_{n}")) };
        for c in &sig.calls {
            s.push_str(&format!("fn call_{sel}() {{\n{}}}\n\n", abra_call_src(k, sig, c, &b.defs, ret_sh.as_deref())));
            sel += 1;
        }
    }
    s.push_str("match verif_sel() {\n");
    for i in 0..sel {
        s.push_str(&format!("    {i} -> call_{i}()\n"));
    }
    s.push_str("    _ -> nil\n}\n");
    s
}

fn glue_rs(b: &Batch) -> String {
    let defs = &b.defs;
    let mut s = String::from(
        r#"// generated by verif check C36: host side of the echo functions. Uses only the generated API:
// HostFunctionArgs::from_vm, HostFunctionRet::into_vm, and the generated struct / enum types.
use crate::generated::*;
use abra_core::vm::VmGreenThread;

pub trait Show {
    fn show(&self) -> String;
}
impl Show for i64 {
    fn show(&self) -> String {
        self.to_string()
    }
}
impl Show for f64 {
    fn show(&self) -> String {
        format!("f{:016x}", self.to_bits())
    }
}
impl Show for bool {
    fn show(&self) -> String {
        self.to_string()
    }
}
impl Show for String {
    fn show(&self) -> String {
        format!("{:?}", self)
    }
}
impl Show for () {
    fn show(&self) -> String {
        "nil".to_string()
    }
}
impl<T: Show> Show for Option<T> {
    fn show(&self) -> String {
        match self {
            Some(x) => format!("some({})", x.show()),
            None => "none".to_string(),
        }
    }
}
impl<T: Show, E: Show> Show for Result<T, E> {
    fn show(&self) -> String {
        match self {
            Ok(x) => format!("ok({})", x.show()),
            Err(x) => format!("err({})", x.show()),
        }
    }
}
impl<T: Show> Show for Vec<T> {
    fn show(&self) -> String {
        format!("[{}]", self.iter().map(|x| x.show()).collect::<Vec<_>>().join(","))
    }
}
impl<A: Show, B: Show> Show for (A, B) {
    fn show(&self) -> String {
        format!("({},{})", self.0.show(), self.1.show())
    }
}
impl<A: Show, B: Show, C: Show> Show for (A, B, C) {
    fn show(&self) -> String {
        format!("({},{},{})", self.0.show(), self.1.show(), self.2.show())
    }
}
impl<A: Show, B: Show, C: Show, D: Show> Show for (A, B, C, D) {
    fn show(&self) -> String {
        format!("({},{},{},{})", self.0.show(), self.1.show(), self.2.show(), self.3.show())
    }
}
"#,
    );
    for (i, d) in defs.iter().enumerate() {
        match d {
            Def::Struct(fs) => {
                s.push_str(&format!("impl Show for St{i} {{\n    fn show(&self) -> String {{\n        let parts: Vec<String> = vec![{}];\n        format!(\"St{i}{{{{{{}}}}}}\", parts.join(\",\"))\n    }}\n}}\n", (0..fs.len()).map(|j| format!("self.f{j}.show()")).collect::<Vec<_>>().join(", ")));
            }
            Def::Enum(vs) => {
                s.push_str(&format!("impl Show for En{i} {{\n    fn show(&self) -> String {{\n        match self {{\n"));
                for (j, fs) in vs.iter().enumerate() {
                    let name = variant_name(i, j);
                    match fs.len() {
                        0 => s.push_str(&format!("            En{i}::{name} => \"{name}\".to_string(),\n")),
                        1 => s.push_str(&format!("            En{i}::{name}(v) => format!(\"{name}({{}})\", v.show()),\n")),
                        // n >= 2 fields arrive as one tuple, whose rendering already has the parentheses
                        _ => s.push_str(&format!("            En{i}::{name}(v) => format!(\"{name}{{}}\", v.show()),\n")),
                    }
                }
                s.push_str("        }\n    }\n}\n");
            }
        }
    }
    s.push_str(
        r#"
pub fn handle(thread: &mut VmGreenThread, id: u16, st: &mut crate::State) {
    let args = HostFunctionArgs::from_vm(thread, id);
    match args {
        HostFunctionArgs::PrintString(s) => {
            st.out.push_str(&s);
            HostFunctionRet::PrintString.into_vm(thread);
        }
        HostFunctionArgs::EprintString(s) => {
            st.out.push_str(&s);
            HostFunctionRet::EprintString.into_vm(thread);
        }
        HostFunctionArgs::Readline => HostFunctionRet::Readline(String::new()).into_vm(thread),
        HostFunctionArgs::GetArgs => HostFunctionRet::GetArgs(Vec::new()).into_vm(thread),
        HostFunctionArgs::VerifSel => HostFunctionRet::VerifSel(st.sel).into_vm(thread),
        HostFunctionArgs::VerifReport(s) => {
            st.report = Some(s);
            HostFunctionRet::VerifReport.into_vm(thread);
        }
"#,
    );
    let mut sel = 0usize;
    for (k, sig) in b.sigs.iter().enumerate() {
        let n = sig.args.len();
        let pat = if n == 0 { String::new() } else { format!("({})", (0..n).map(|i| format!("a{i}")).collect::<Vec<_>>().join(", ")) };
        s.push_str(&format!("        HostFunctionArgs::Echo{k}{pat} => {{\n"));
        s.push_str(&format!("            let got: Vec<String> = vec![{}];\n", (0..n).map(|i| format!("a{i}.show()")).collect::<Vec<_>>().join(", ")));
        s.push_str("            st.args = Some(got);\n");
        s.push_str("            let ret = match st.sel {\n");
        for c in &sig.calls {
            let e = match (&sig.ret, &c.ret) {
                (Ty::Void, _) => format!("HostFunctionRet::Echo{k}"),
                // a tuple return type is flattened into the variant's fields
                (Ty::Tup(ts), Val::Tup(xs)) => format!("HostFunctionRet::Echo{k}({})", xs.iter().zip(ts).map(|(x, t)| rust_expr(x, t, defs)).collect::<Vec<_>>().join(", ")),
                (t, v) => format!("HostFunctionRet::Echo{k}({})", rust_expr(v, t, defs)),
            };
            s.push_str(&format!("                {sel} => {e},\n"));
            sel += 1;
        }
        s.push_str(&format!("                other => panic!(\"VERIF-GLUE echo_{k} called in run {{other}}\"),\n"));
        s.push_str("            };\n            ret.into_vm(thread);\n        }\n");
    }
    s.push_str("    }\n}\n");
    s
}

// ---------------------------------------------------------------------------------------------
// scratch slots, external commands

static HARNESS_PROBLEMS: Mutex<Vec<String>> = Mutex::new(Vec::new());
static TEMPLATE_LOCK: Mutex<()> = Mutex::new(());

fn harness_problem(s: String) {
    eprintln!("HARNESS-NOTE C36: {}", s.chars().take(2000).collect::<String>());
    HARNESS_PROBLEMS.lock().unwrap().push(s.chars().take(600).collect());
}

fn hostgen_dir() -> PathBuf {
    root().join("engine").join("hostgen")
}

fn target_dir() -> PathBuf {
    hostgen_dir().join("target")
}

struct Slot {
    k: usize,
    dir: PathBuf,
    _lock: std::fs::File,
}

impl Slot {
    /// Claim a scratch directory that no other runner thread or check process is using.
    fn acquire() -> Result<Slot, String> {
        let scratch = hostgen_dir().join("scratch");
        std::fs::create_dir_all(&scratch).map_err(|e| format!("cannot create {}: {e}", scratch.display()))?;
        let t0 = Instant::now();
        loop {
            for k in 0..32 {
                let p = scratch.join(format!("s{k}.lock"));
                let Ok(f) = std::fs::OpenOptions::new().create(true).write(true).truncate(false).open(&p) else { continue };
                if f.try_lock().is_ok() {
                    let dir = scratch.join(format!("s{k}"));
                    let _ = std::fs::remove_dir_all(&dir);
                    return Ok(Slot { k, dir, _lock: f });
                }
            }
            if t0.elapsed() > Duration::from_secs(120) {
                return Err("no free scratch slot".into());
            }
            std::thread::sleep(Duration::from_millis(250));
        }
    }
    fn bin(&self) -> PathBuf {
        target_dir().join("debug").join(format!("hostgen_s{}", self.k))
    }
}

impl Drop for Slot {
    fn drop(&mut self) {
        // generated sources never outlive the judgement
        let _ = std::fs::remove_dir_all(&self.dir);
    }
}

struct CmdOut {
    code: Option<i32>,
    stdout: String,
    stderr: String,
}

enum CmdErr {
    Timeout,
    Spawn(String),
}

fn run_cmd(cmd: &mut Command, scratch: &Path, tag: &str, timeout: Duration) -> Result<CmdOut, CmdErr> {
    let op = scratch.join(format!("{tag}.stdout.tmp"));
    let ep = scratch.join(format!("{tag}.stderr.tmp"));
    let of = std::fs::File::create(&op).map_err(|e| CmdErr::Spawn(e.to_string()))?;
    let ef = std::fs::File::create(&ep).map_err(|e| CmdErr::Spawn(e.to_string()))?;
    let mut child = cmd.stdin(Stdio::null()).stdout(Stdio::from(of)).stderr(Stdio::from(ef)).spawn().map_err(|e| CmdErr::Spawn(e.to_string()))?;
    let t0 = Instant::now();
    let status = loop {
        match child.try_wait() {
            Ok(Some(s)) => break s,
            Ok(None) => {
                if t0.elapsed() > timeout {
                    let _ = child.kill();
                    let _ = child.wait();
                    return Err(CmdErr::Timeout);
                }
                std::thread::sleep(Duration::from_millis(20));
            }
            Err(e) => return Err(CmdErr::Spawn(e.to_string())),
        }
    };
    let rd = |p: &Path| String::from_utf8_lossy(&std::fs::read(p).unwrap_or_default()).to_string();
    let out = CmdOut { code: status.code(), stdout: rd(&op), stderr: rd(&ep) };
    let _ = std::fs::remove_file(&op);
    let _ = std::fs::remove_file(&ep);
    Ok(out)
}

fn cargo_build(dir: &Path, scratch: &Path, tag: &str) -> Result<CmdOut, CmdErr> {
    let mut c = Command::new("cargo");
    c.arg("build").arg("--offline").arg("--message-format").arg("short").current_dir(dir).env("CARGO_TARGET_DIR", target_dir()).env("CARGO_NET_OFFLINE", "true").env_remove("RUSTFLAGS");
    run_cmd(&mut c, scratch, tag, Duration::from_secs(1500))
}

#[derive(Debug, Clone)]
struct CallObs {
    end: String,
    msg: String,
    report: Option<String>,
    args: Option<Vec<String>>,
}

enum Outcome {
    /// something outside the property went wrong (message); never a violation
    Harness(String),
    Timeout(String),
    /// generate_host_function_enum panicked
    GenPanic(String),
    /// rustc rejected the generated bindings (errors located in gen/mod.rs)
    BindingsDoNotCompile(String),
    /// per call observation; `died` = how the process ended if not normally
    Ran { obs: Vec<Option<CallObs>>, died: Option<String> },
}

fn unhex(s: &str) -> String {
    if s == "-" || s == "E" {
        return String::new();
    }
    let bytes: Vec<u8> = (0..s.len() / 2).filter_map(|i| u8::from_str_radix(&s[2 * i..2 * i + 2], 16).ok()).collect();
    String::from_utf8_lossy(&bytes).to_string()
}

fn n_calls(b: &Batch) -> usize {
    b.sigs.iter().map(|s| s.calls.len()).sum()
}

/// Generate, build and run one batch.
fn execute(b: &Batch, keep_sources: &mut Option<Value>) -> Outcome {
    let slot = match Slot::acquire() {
        Ok(s) => s,
        Err(e) => return Outcome::Harness(e),
    };
    let scratch = slot.dir.parent().unwrap().to_path_buf();
    let tag = format!("s{}", slot.k);
    let tpl = hostgen_dir();
    // 1. the template (also the tool that calls generate_host_function_enum) is current with /repo
    {
        let _g = TEMPLATE_LOCK.lock().unwrap();
        match cargo_build(&tpl, &scratch, &tag) {
            Ok(o) if o.code == Some(0) => {}
            Ok(o) => return Outcome::Harness(format!("template crate does not build: {}", tail(&o.stderr, 1500))),
            Err(CmdErr::Timeout) => return Outcome::Timeout("template build".into()),
            Err(CmdErr::Spawn(e)) => return Outcome::Harness(format!("cargo: {e}")),
        }
    }
    // 2. scratch copy of the crate + generated sources
    let host_src = host_abra(b);
    let main_src = main_abra(b);
    let glue_src = glue_rs(b);
    let w = |rel: &str, body: &str| -> Result<(), String> {
        let p = slot.dir.join(rel);
        std::fs::create_dir_all(p.parent().unwrap()).map_err(|e| e.to_string())?;
        std::fs::write(&p, body).map_err(|e| format!("{}: {e}", p.display()))
    };
    let manifest = std::fs::read_to_string(tpl.join("Cargo.toml")).unwrap_or_default().replace("name = \"hostgen\"", &format!("name = \"hostgen_s{}\"", slot.k));
    let prep = (|| -> Result<(), String> {
        w("Cargo.toml", &manifest)?;
        w("Cargo.lock", &std::fs::read_to_string(tpl.join("Cargo.lock")).map_err(|e| e.to_string())?)?;
        w("src/main.rs", &std::fs::read_to_string(tpl.join("src/main.rs")).map_err(|e| e.to_string())?)?;
        w("src/generated.rs", &std::fs::read_to_string(tpl.join("src/generated.rs")).map_err(|e| e.to_string())?)?;
        w("src/glue.rs", &glue_src)?;
        w("abra_src/host.abra", &host_src)?;
        w("abra_src/main.abra", &main_src)?;
        std::fs::create_dir_all(slot.dir.join("gen")).map_err(|e| e.to_string())
    })();
    if let Err(e) = prep {
        return Outcome::Harness(format!("cannot prepare scratch crate: {e}"));
    }
    // 3. bindings
    let mut c = Command::new(target_dir().join("debug").join("hostgen"));
    c.arg("gen").arg(slot.dir.join("abra_src")).arg("host.abra").arg(slot.dir.join("gen"));
    let g = match run_cmd(&mut c, &scratch, &tag, Duration::from_secs(300)) {
        Ok(o) => o,
        Err(CmdErr::Timeout) => return Outcome::Timeout("binding generation".into()),
        Err(CmdErr::Spawn(e)) => return Outcome::Harness(format!("hostgen gen: {e}")),
    };
    let bindings = std::fs::read_to_string(slot.dir.join("gen/mod.rs")).unwrap_or_default();
    *keep_sources = Some(json!({"host.abra": host_src, "main.abra": main_src, "glue.rs": glue_src, "bindings mod.rs": bindings}));
    match g.code {
        Some(0) => {}
        Some(3) => return Outcome::Harness(format!("the Abra compiler rejected the generated host file (generator precondition?): {}", tail(&strip_ansi(&g.stderr), 1500))),
        _ => return Outcome::GenPanic(tail(&g.stderr, 1500)),
    }
    // 4. build
    let bo = match cargo_build(&slot.dir, &scratch, &tag) {
        Ok(o) => o,
        Err(CmdErr::Timeout) => return Outcome::Timeout("build".into()),
        Err(CmdErr::Spawn(e)) => return Outcome::Harness(format!("cargo: {e}")),
    };
    if bo.code != Some(0) {
        let errs: Vec<&str> = bo.stderr.lines().filter(|l| l.contains(": error")).collect();
        let in_gen: Vec<&str> = errs.iter().copied().filter(|l| l.contains("gen/mod.rs")).collect();
        if !in_gen.is_empty() {
            return Outcome::BindingsDoNotCompile(in_gen.iter().take(6).map(|l| l.replace(&*slot.dir.to_string_lossy(), "")).collect::<Vec<_>>().join("\n"));
        }
        return Outcome::Harness(format!("the scratch crate does not build, errors outside the generated bindings: {}", tail(&bo.stderr, 3000)));
    }
    // 5. run
    let n = n_calls(b);
    let mut c = Command::new(slot.bin());
    c.arg("run").arg(slot.dir.join("abra_src")).arg("main.abra").arg(n.to_string());
    let ro = match run_cmd(&mut c, &scratch, &tag, Duration::from_secs(600)) {
        Ok(o) => o,
        Err(CmdErr::Timeout) => return Outcome::Timeout("run".into()),
        Err(CmdErr::Spawn(e)) => return Outcome::Harness(format!("run: {e}")),
    };
    if ro.code == Some(4) {
        return Outcome::Harness(format!("the Abra compiler rejected the generated main program: {}", tail(&strip_ansi(&ro.stderr), 1500)));
    }
    let mut obs: Vec<Option<CallObs>> = vec![None; n];
    for line in ro.stdout.lines() {
        let p: Vec<&str> = line.split(' ').collect();
        if p.len() < 6 || p[0] != "R" {
            continue;
        }
        let Ok(sel) = p[1].parse::<usize>() else { continue };
        if sel >= n {
            continue;
        }
        let report = if p[4] == "-" { None } else { Some(unhex(p[4])) };
        let args = if p[5] == "-" { None } else { Some(p[6..].iter().map(|x| unhex(x)).collect()) };
        obs[sel] = Some(CallObs { end: p[2].to_string(), msg: unhex(p[3]), report, args });
    }
    let died = if ro.code == Some(0) { None } else { Some(format!("exit status {:?}; stderr: {}", ro.code, tail(&ro.stderr, 600))) };
    Outcome::Ran { obs, died }
}

fn tail(s: &str, n: usize) -> String {
    let cs: Vec<char> = s.chars().collect();
    cs[cs.len().saturating_sub(n)..].iter().collect()
}

fn strip_ansi(s: &str) -> String {
    let mut out = String::new();
    let mut it = s.chars().peekable();
    while let Some(c) = it.next() {
        if c == '\u{1b}' {
            for d in it.by_ref() {
                if d.is_ascii_alphabetic() {
                    break;
                }
            }
        } else {
            out.push(c);
        }
    }
    out
}

// ---------------------------------------------------------------------------------------------
// narrowing helpers

fn used_defs(t: &Ty, defs: &[Def], out: &mut BTreeSet<u16>) {
    match t {
        Ty::Arr(e) | Ty::Opt(e) => used_defs(e, defs, out),
        Ty::Tup(es) => es.iter().for_each(|e| used_defs(e, defs, out)),
        Ty::Res(a, b) => {
            used_defs(a, defs, out);
            used_defs(b, defs, out);
        }
        Ty::User(i) => {
            if out.insert(*i) {
                match &defs[*i as usize] {
                    Def::Struct(fs) => fs.iter().for_each(|e| used_defs(e, defs, out)),
                    Def::Enum(vs) => vs.iter().flatten().for_each(|e| used_defs(e, defs, out)),
                }
            }
        }
        _ => {}
    }
}

fn remap_ty(t: &Ty, map: &dyn Fn(u16) -> u16) -> Ty {
    match t {
        Ty::Arr(e) => Ty::Arr(Box::new(remap_ty(e, map))),
        Ty::Opt(e) => Ty::Opt(Box::new(remap_ty(e, map))),
        Ty::Tup(es) => Ty::Tup(es.iter().map(|e| remap_ty(e, map)).collect()),
        Ty::Res(a, b) => Ty::Res(Box::new(remap_ty(a, map)), Box::new(remap_ty(b, map))),
        Ty::User(i) => Ty::User(map(*i)),
        other => other.clone(),
    }
}

/// The batch restricted to the given signatures (and optionally one call), with unused type
/// definitions dropped. Values need no change: they refer to definitions through their type.
pub fn restrict(b: &Batch, sigs: &[usize], call: Option<usize>) -> Batch {
    let mut used = BTreeSet::new();
    for &k in sigs {
        let s = &b.sigs[k];
        for t in s.args.iter().chain(std::iter::once(&s.ret)) {
            used_defs(t, &b.defs, &mut used);
        }
    }
    let order: Vec<u16> = used.iter().copied().collect();
    let map = |i: u16| order.iter().position(|x| *x == i).unwrap() as u16;
    let defs = order
        .iter()
        .map(|&i| match &b.defs[i as usize] {
            Def::Struct(fs) => Def::Struct(fs.iter().map(|t| remap_ty(t, &map)).collect()),
            Def::Enum(vs) => Def::Enum(vs.iter().map(|v| v.iter().map(|t| remap_ty(t, &map)).collect()).collect()),
        })
        .collect();
    let sigs = sigs
        .iter()
        .map(|&k| {
            let s = &b.sigs[k];
            Sig {
                args: s.args.iter().map(|t| remap_ty(t, &map)).collect(),
                ret: remap_ty(&s.ret, &map),
                calls: match call {
                    Some(c) => vec![s.calls[c.min(s.calls.len() - 1)].clone()],
                    None => s.calls.clone(),
                },
            }
        })
        .collect();
    Batch { defs, sigs, excluded: vec![] }
}

// ---------------------------------------------------------------------------------------------
// evaluation

struct CallVerdict {
    k: usize,
    c: usize,
    failure: Option<Failure>,
}

fn evaluate(b: &Batch, obs: &[Option<CallObs>], died: &Option<String>) -> Vec<CallVerdict> {
    let defs = &b.defs;
    let mut out = vec![];
    let mut sel = 0usize;
    let mut death_blamed = false;
    for (k, sig) in b.sigs.iter().enumerate() {
        let feats = sig_features(sig, defs);
        for (c, call) in sig.calls.iter().enumerate() {
            let o = &obs[sel];
            sel += 1;
            let base = |class: &str, msg: String| Failure::new(class, msg).feats(feats.iter().cloned()).feat(if call.via_value { "via:value" } else { "via:name" });
            let descr = || {
                json!({
                    "signature": sig_decl(k, sig, defs),
                    "signature_expanded": describe_sig(sig, defs),
                    "call": abra_call_src(k, sig, call, defs, if sig.ret == Ty::Void { None } else { Some("render") }),
                    "host_expects": call.args.iter().zip(&sig.args).map(|(v, t)| render(v, t, defs, Side::Host)).collect::<Vec<_>>(),
                    "host_returns": rust_expr(&call.ret, &sig.ret, defs),
                    "abra_expects": format!("c{CANARY}|{}", render(&call.ret, &sig.ret, defs, Side::Abra)),
                    "observed": o.as_ref().map(|o| json!({"end": o.end, "msg": o.msg, "host_got": o.args, "abra_reported": o.report})),
                })
            };
            let failure = match o {
                None => {
                    if died.is_some() && !death_blamed {
                        death_blamed = true;
                        Some(base("HostAbort", format!("embedder process died during a host call: {}", norm_msg(died.as_deref().unwrap_or("")))).detail(descr()))
                    } else if died.is_some() {
                        // never reached because the process was already dead
                        None
                    } else {
                        Some(base("OutcomeMismatch", "no result line for this call".into()).detail(descr()))
                    }
                }
                Some(o) => {
                    let exp_args: Vec<String> = call.args.iter().zip(&sig.args).map(|(v, t)| render(v, t, defs, Side::Host)).collect();
                    let exp_rep = format!("c{CANARY}|{}", render(&call.ret, &sig.ret, defs, Side::Abra));
                    if o.end == "panic" {
                        if o.msg.contains("VERIF-GLUE") {
                            harness_problem(format!("glue panic: {}", o.msg));
                            None
                        } else {
                            let (m, file) = o.msg.rsplit_once(" @ ").unwrap_or((&o.msg, ""));
                            let first = m.lines().next().unwrap_or("");
                            let class = if first.starts_with("error: expected type") || first.starts_with("internal error") || first.starts_with("error: internal") { "VmInternal" } else { "HostPanic" };
                            let phase = if o.args.is_none() { "phase:from_vm" } else if o.report.is_none() { "phase:into_vm-or-after" } else { "phase:after-report" };
                            Some(base(class, norm_msg(first)).feat(format!("file:{}", base_path(file))).feat(phase).detail(descr()))
                        }
                    } else if let Some(i) = o.args.as_ref().and_then(|got| if got.len() != exp_args.len() { Some(usize::MAX) } else { got.iter().zip(&exp_args).position(|(g, e)| g != e) }) {
                        let mut f = base("OutcomeMismatch", if i == usize::MAX { "host received a different number of arguments".to_string() } else { format!("host received a wrong value for argument {i} (type {})", describe_ty(&sig.args[i], defs)) }).feat("dir:abra-to-host");
                        if i != usize::MAX {
                            let mut af = BTreeSet::new();
                            ty_features(&sig.args[i], defs, &mut af);
                            f = f.feats(af.into_iter().map(|x| format!("arg-{x}")));
                        }
                        Some(f.detail(descr()))
                    } else if o.end != "done" {
                        let first = o.msg.lines().next().unwrap_or("").to_string();
                        let class = if first.starts_with("error: expected type") || first.starts_with("internal error") { "VmInternal" } else { "OutcomeMismatch" };
                        Some(base(class, format!("run ended with {}: {}", o.end, norm_msg(&first))).feat(if o.args.is_none() { "phase:before-host-call" } else { "phase:after-host-call" }).detail(descr()))
                    } else if o.args.is_none() {
                        Some(base("OutcomeMismatch", "the echo function was never called".into()).detail(descr()))
                    } else if o.report.as_deref() != Some(exp_rep.as_str()) {
                        let mut rf = BTreeSet::new();
                        ty_features(&sig.ret, defs, &mut rf);
                        let canary_ok = o.report.as_deref().map(|r| r.starts_with(&format!("c{CANARY}|"))).unwrap_or(false);
                        Some(
                            base("OutcomeMismatch", format!("Abra received a wrong return value (type {})", describe_ty(&sig.ret, defs)))
                                .feat("dir:host-to-abra")
                                .feat(if canary_ok { "canary:intact" } else { "canary:damaged" })
                                .feats(rf.into_iter().map(|x| format!("ret-{x}")))
                                .detail(descr()),
                        )
                    } else {
                        None
                    }
                }
            };
            out.push(CallVerdict { k, c, failure });
        }
    }
    out
}

fn base_path(p: &str) -> String {
    if p.contains("gen/mod.rs") {
        "gen/mod.rs".into()
    } else {
        base(p)
    }
}

// ---------------------------------------------------------------------------------------------
// strategies

fn leaf_ty() -> BoxedStrategy<Ty> {
    prop_oneof![
        4 => Just(Ty::Int),
        2 => Just(Ty::Float),
        2 => Just(Ty::Bool),
        3 => Just(Ty::Str),
        2 => Just(Ty::Void),
        5 => any::<u16>().prop_map(Ty::User),
    ]
    .boxed()
}

fn ty_strategy(depth: u32) -> BoxedStrategy<Ty> {
    leaf_ty()
        .prop_recursive(depth, 12, 4, |inner| {
            prop_oneof![
                3 => inner.clone().prop_map(|t| Ty::Arr(Box::new(t))),
                3 => proptest::collection::vec(inner.clone(), 2..=4).prop_map(Ty::Tup),
                3 => inner.clone().prop_map(|t| Ty::Opt(Box::new(t))),
                2 => (inner.clone(), inner).prop_map(|(a, b)| Ty::Res(Box::new(a), Box::new(b))),
            ]
        })
        .boxed()
}

/// map raw user-type indices onto the definitions that exist (`limit` of them); none -> int
fn resolve_ty(t: &Ty, limit: usize) -> Ty {
    match t {
        Ty::Arr(e) => Ty::Arr(Box::new(resolve_ty(e, limit))),
        Ty::Opt(e) => Ty::Opt(Box::new(resolve_ty(e, limit))),
        Ty::Tup(es) => Ty::Tup(es.iter().map(|e| resolve_ty(e, limit)).collect()),
        Ty::Res(a, b) => Ty::Res(Box::new(resolve_ty(a, limit)), Box::new(resolve_ty(b, limit))),
        Ty::User(raw) => {
            if limit == 0 {
                Ty::Int
            } else {
                Ty::User(pick_idx(*raw, limit) as u16)
            }
        }
        other => other.clone(),
    }
}

fn int_vals() -> BoxedStrategy<i64> {
    prop_oneof![
        3 => proptest::sample::select(vec![0i64, 1, -1, 2, 42, -42, 255, 256, 65535, 65536, i32::MAX as i64, i32::MIN as i64, (1i64 << 32), (1i64 << 53) + 1, i64::MAX, i64::MIN, i64::MAX - 1, i64::MIN + 1]),
        2 => any::<i64>(),
        1 => -1000i64..1000,
    ]
    .boxed()
}

fn float_vals(host_side: bool) -> BoxedStrategy<u64> {
    let finite = prop_oneof![
        3 => proptest::sample::select(float_boundaries()).prop_map(|f| f.to_bits()),
        2 => float_strategy().prop_map(|f| f.to_bits()),
    ];
    if host_side {
        prop_oneof![
            8 => finite,
            1 => proptest::sample::select(vec![f64::INFINITY.to_bits(), f64::NEG_INFINITY.to_bits(), f64::NAN.to_bits()]),
        ]
        .boxed()
    } else {
        finite.boxed()
    }
}

fn str_vals() -> BoxedStrategy<String> {
    let pool: Vec<String> = ["", "a", "hello world", "é", "日本", "😀a", "a\"b", "back\\slash", "line\nbreak", "tab\there", "nil", "none", "0", "(,)", "[ ]", "<>", "λ→∀", "ß", "\u{7ff}\u{800}\u{ffff}\u{10000}", "trailing space ", "ａｂｃ"]
        .iter()
        .map(|s| s.to_string())
        .collect();
    let alphabet: Vec<char> = vec!['a', 'b', 'z', 'A', ' ', '0', '~', '!', 'é', 'λ', '日', '😀', '\u{80}', '\u{7ff}', '\u{800}', '\u{10000}', '[', ',', ')', '"', '\\', '<', '>', '|', '\n', '\t', '{', '}'];
    prop_oneof![
        3 => proptest::sample::select(pool),
        4 => proptest::collection::vec(proptest::sample::select(alphabet), 0..=12).prop_map(|v| v.into_iter().collect::<String>()),
    ]
    .boxed()
}

fn val_strategy(t: &Ty, defs: &Arc<Vec<Def>>, host_side: bool) -> BoxedStrategy<Val> {
    let many = |ts: &[Ty]| -> BoxedStrategy<Vec<Val>> { ts.iter().map(|t| val_strategy(t, defs, host_side)).collect::<Vec<_>>().boxed() };
    match t {
        Ty::Int => int_vals().prop_map(Val::Int).boxed(),
        Ty::Float => float_vals(host_side).prop_map(Val::Float).boxed(),
        Ty::Bool => any::<bool>().prop_map(Val::Bool).boxed(),
        Ty::Str => str_vals().prop_map(Val::Str).boxed(),
        Ty::Void => Just(Val::Void).boxed(),
        Ty::Arr(e) => proptest::collection::vec(val_strategy(e, defs, host_side), 0..=3).prop_map(Val::Arr).boxed(),
        Ty::Tup(es) => many(es).prop_map(Val::Tup).boxed(),
        Ty::Opt(e) => prop_oneof![2 => val_strategy(e, defs, host_side).prop_map(|v| Val::Some(Box::new(v))), 1 => Just(Val::None)].boxed(),
        Ty::Res(a, b) => prop_oneof![val_strategy(a, defs, host_side).prop_map(|v| Val::Ok(Box::new(v))), val_strategy(b, defs, host_side).prop_map(|v| Val::Err(Box::new(v)))].boxed(),
        Ty::User(i) => match &defs[*i as usize] {
            Def::Struct(fs) => many(fs).prop_map(Val::St).boxed(),
            Def::Enum(vs) => {
                let alts: Vec<BoxedStrategy<Val>> = vs
                    .iter()
                    .enumerate()
                    .map(|(j, fs)| {
                        let j = j as u16;
                        many(fs).prop_map(move |xs| Val::En(j, xs)).boxed()
                    })
                    .collect();
                proptest::strategy::Union::new(alts).boxed()
            }
        },
    }
}

#[derive(Clone, Debug, Default)]
struct Exclusions {
    /// open finding keys that switch a construct off
    void_in_tuple: bool,
    void_in_multi_variant: bool,
}

impl Exclusions {
    fn from(f: &Findings) -> Exclusions {
        Exclusions { void_in_tuple: f.is_open(K_TUPLE_VOID), void_in_multi_variant: f.is_open(K_VARIANT_VOID) }
    }
}

pub const K_TUPLE_VOID: &str = "host-binding-tuple-void-member";
pub const K_VARIANT_VOID: &str = "variant-void-field-representation";

/// Remove constructs covered by open findings (void -> int), counting each removal.
fn exclude_ty(t: &Ty, ex: &Exclusions, counts: &mut Vec<(String, u64)>) -> Ty {
    let bump = |counts: &mut Vec<(String, u64)>, k: &str| {
        if let Some(e) = counts.iter_mut().find(|e| e.0 == k) {
            e.1 += 1;
        } else {
            counts.push((k.to_string(), 1));
        }
    };
    match t {
        Ty::Arr(e) => Ty::Arr(Box::new(exclude_ty(e, ex, counts))),
        Ty::Opt(e) => Ty::Opt(Box::new(exclude_ty(e, ex, counts))),
        Ty::Res(a, b) => Ty::Res(Box::new(exclude_ty(a, ex, counts)), Box::new(exclude_ty(b, ex, counts))),
        Ty::Tup(es) => Ty::Tup(
            es.iter()
                .map(|e| {
                    if *e == Ty::Void && ex.void_in_tuple {
                        bump(counts, K_TUPLE_VOID);
                        Ty::Int
                    } else {
                        exclude_ty(e, ex, counts)
                    }
                })
                .collect(),
        ),
        other => other.clone(),
    }
}

fn types_strategy(tier: Tier, ex: Exclusions) -> BoxedStrategy<Batch> {
    let _ = tier;
    // void directly in a field / argument position is where the VM erases slots: keep it frequent
    let field = || prop_oneof![1 => Just(Ty::Void), 5 => ty_strategy(2)];
    let def = prop_oneof![
        proptest::collection::vec(field(), 1..=4).prop_map(Def::Struct),
        proptest::collection::vec(proptest::collection::vec(field(), 0..=3), 1..=4).prop_map(Def::Enum),
    ];
    let defs = proptest::collection::vec(def, 5..=8);
    let arg = prop_oneof![1 => Just(Ty::Void), 11 => ty_strategy(3)];
    let sig = (proptest::collection::vec(arg, 0..=5), prop_oneof![1 => Just(Ty::Void), 9 => ty_strategy(3)]);
    let sigs = proptest::collection::vec(sig, 40..=44);
    (defs, sigs)
        .prop_map(move |(defs, sigs)| {
            let mut counts = vec![];
            let defs: Vec<Def> = defs
                .iter()
                .enumerate()
                .map(|(i, d)| match d {
                    Def::Struct(fs) => Def::Struct(fs.iter().map(|t| exclude_ty(&resolve_ty(t, i), &ex, &mut counts)).collect()),
                    Def::Enum(vs) => Def::Enum(
                        vs.iter()
                            .map(|v| {
                                let mut v: Vec<Ty> = v.iter().map(|t| exclude_ty(&resolve_ty(t, i), &ex, &mut counts)).collect();
                                if ex.void_in_multi_variant && v.len() >= 2 {
                                    for t in v.iter_mut() {
                                        if *t == Ty::Void {
                                            *t = Ty::Int;
                                            if let Some(e) = counts.iter_mut().find(|e| e.0 == K_VARIANT_VOID) {
                                                e.1 += 1;
                                            } else {
                                                counts.push((K_VARIANT_VOID.to_string(), 1));
                                            }
                                        }
                                    }
                                }
                                v
                            })
                            .collect(),
                    ),
                })
                .collect();
            let n = defs.len();
            let sigs = sigs.iter().map(|(a, r)| Sig { args: a.iter().map(|t| exclude_ty(&resolve_ty(t, n), &ex, &mut counts)).collect(), ret: exclude_ty(&resolve_ty(r, n), &ex, &mut counts), calls: vec![] }).collect();
            Batch { defs, sigs, excluded: counts }
        })
        .boxed()
}

fn batch_strategy(tier: Tier, ex: Exclusions) -> BoxedStrategy<Batch> {
    types_strategy(tier, ex)
        .prop_flat_map(|b| {
            let defs = Arc::new(b.defs.clone());
            let per_sig: Vec<BoxedStrategy<Vec<Call>>> = b
                .sigs
                .iter()
                .map(|s| {
                    let args: Vec<BoxedStrategy<Val>> = s.args.iter().map(|t| val_strategy(t, &defs, false)).collect();
                    let call = (args, val_strategy(&s.ret, &defs, true), any::<bool>()).prop_map(|(args, ret, via_value)| Call { args, ret, via_value });
                    proptest::collection::vec(call, 4..=5).boxed()
                })
                .collect();
            per_sig.prop_map(move |calls| {
                let mut b = b.clone();
                for (s, c) in b.sigs.iter_mut().zip(calls) {
                    s.calls = c;
                }
                b
            })
        })
        .boxed()
}

// ---------------------------------------------------------------------------------------------
// the property

pub struct HostRoundTrip;

impl HostRoundTrip {
    /// Re-run the single failing call alone so that the reported case is small and self-contained.
    fn narrowed(&self, b: &Batch, k: usize, c: usize, f: Failure) -> Failure {
        if b.sigs.len() == 1 && b.sigs[0].calls.len() == 1 {
            return f;
        }
        let small = restrict(b, &[k], Some(c));
        let mut src = None;
        let again = match execute(&small, &mut src) {
            Outcome::Ran { obs, died } => evaluate(&small, &obs, &died).into_iter().find_map(|v| v.failure),
            Outcome::BindingsDoNotCompile(e) => Some(bindings_failure(&small, &e)),
            _ => None,
        };
        match again {
            Some(f2) => {
                let mut d = f2.detail.clone();
                if let Value::Object(m) = &mut d {
                    m.insert("narrowed_case".into(), serde_json::to_value(&small).unwrap_or(Value::Null));
                    m.insert("sources".into(), src.unwrap_or(Value::Null));
                }
                f2.detail(d)
            }
            None => {
                let mut d = f.detail.clone();
                if let Value::Object(m) = &mut d {
                    m.insert("note".into(), json!("the call did not fail when run alone in a fresh build; reported from the full batch"));
                }
                f.detail(d)
            }
        }
    }
}

fn bindings_failure(b: &Batch, errs: &str) -> Failure {
    let mut feats = BTreeSet::new();
    for s in &b.sigs {
        feats.extend(sig_features(s, &b.defs));
    }
    let first = errs.lines().next().unwrap_or("");
    // "gen/mod.rs:12:5: error[E0277]: message" -> message
    let msg = first.splitn(2, ": error").nth(1).unwrap_or(first);
    Failure::new("VerdictMismatch", format!("generated bindings do not compile: error{}", norm_msg(msg))).feat("bindings-do-not-compile").feats(feats).detail(json!({"rustc_errors": errs}))
}

impl Prop for HostRoundTrip {
    type Case = Batch;
    fn name(&self) -> &'static str {
        "host_round_trip"
    }
    fn rule(&self) -> &'static str {
        "one case = a batch of 40-44 #host signatures (arity 0-5; int/float/bool/string/void/array/tuple 2-4/option/result/#host struct/#host enum nested to depth 3) with 4-5 calls each; one evaluation = one call checked in both directions (host-side rendering of every received argument, Abra-side rendering of the returned value); non-trivial = the signature has >= 2 arguments of different types or a container of depth >= 2; distinct by structurally expanded signature"
    }
    fn n_cases(&self, tier: Tier) -> u32 {
        tier.pick(1, 8)
    }
    fn strategy(&self, tier: Tier, f: &Findings) -> BoxedStrategy<Batch> {
        // a build per shrink step is too expensive: judge narrows to the failing call itself
        batch_strategy(tier, Exclusions::from(f)).no_shrink().boxed()
    }
    fn split(&self, b: &Batch) -> Vec<Batch> {
        (0..b.sigs.len()).map(|k| restrict(b, &[k], None)).collect()
    }
    fn judge(&self, b: &Batch, env: &mut Env) -> Verdict {
        if !batch_well_formed(b) {
            return Verdict::Inconclusive("malformed case".into());
        }
        let mut sources = None;
        let outcome = execute(b, &mut sources);
        let (obs, died) = match outcome {
            Outcome::Harness(m) => {
                harness_problem(m.clone());
                return Verdict::Inconclusive(m);
            }
            Outcome::Timeout(m) => return Verdict::Inconclusive(format!("timeout: {m}")),
            Outcome::GenPanic(m) => {
                let line = m.lines().find(|l| l.contains("panicked at")).unwrap_or("").to_string();
                let msg = m.lines().skip_while(|l| !l.contains("panicked at")).nth(1).unwrap_or("").to_string();
                return Verdict::Fail(Failure::new("HostPanic", norm_msg(&msg)).feat("phase:bindgen").feat(format!("file:{}", base(line.split(" at ").nth(1).unwrap_or("").split(':').next().unwrap_or("")))).detail(json!({"stderr": m, "sources": sources})));
            }
            Outcome::BindingsDoNotCompile(errs) => {
                // find one signature that is enough to break the build
                let mut lo: Vec<usize> = (0..b.sigs.len()).collect();
                let mut last = (b.clone(), errs.clone());
                while lo.len() > 1 {
                    let (a, z) = lo.split_at(lo.len() / 2);
                    let (a, z) = (a.to_vec(), z.to_vec());
                    let try_half = |half: &[usize]| -> Option<(Batch, String)> {
                        let sb = restrict(b, half, Some(0));
                        match execute(&sb, &mut None) {
                            Outcome::BindingsDoNotCompile(e) => Some((sb, e)),
                            _ => None,
                        }
                    };
                    if let Some(r) = try_half(&a) {
                        last = r;
                        lo = a;
                    } else if let Some(r) = try_half(&z) {
                        last = r;
                        lo = z;
                    } else {
                        break;
                    }
                }
                let mut f = bindings_failure(&last.0, &last.1);
                let mut d = f.detail.clone();
                if let Value::Object(m) = &mut d {
                    m.insert("narrowed_case".into(), serde_json::to_value(&last.0).unwrap_or(Value::Null));
                    m.insert("host.abra".into(), json!(host_abra(&last.0)));
                }
                f = f.detail(d);
                return Verdict::Fail(f);
            }
            Outcome::Ran { obs, died } => (obs, died),
        };
        let verdicts = evaluate(b, &obs, &died);
        let defs = &b.defs;
        let mut st = CaseStats::default();
        st.excluded = b.excluded.clone();
        let mut first_fail: Option<(usize, usize, Failure)> = None;
        let mut all_fail: Vec<Value> = vec![];
        for v in verdicts {
            let sig = &b.sigs[v.k];
            st.evals += 1;
            if v.c == 0 {
                if nontrivial(sig, defs) {
                    st.nt(&describe_sig(sig, defs));
                }
                for l in sig_features(sig, defs) {
                    st.label(l);
                }
                st.label(format!("arity:{}", sig.args.len()));
            }
            st.label(if sig.calls[v.c].via_value { "via:value" } else { "via:name" });
            if st.sample.is_none() && nontrivial(sig, defs) && v.failure.is_none() {
                let call = &sig.calls[v.c];
                st.sample = Some(json!({
                    "signature": sig_decl(v.k, sig, defs),
                    "signature_expanded": describe_sig(sig, defs),
                    "abra_call": abra_call_src(v.k, sig, call, defs, if sig.ret == Ty::Void { None } else { Some("render") }),
                    "host_must_receive": call.args.iter().zip(&sig.args).map(|(x, t)| render(x, t, defs, Side::Host)).collect::<Vec<_>>(),
                    "host_returns": rust_expr(&call.ret, &sig.ret, defs),
                    "abra_must_report": format!("c{CANARY}|{}", render(&call.ret, &sig.ret, defs, Side::Abra)),
                }));
            }
            if let Some(f) = v.failure {
                if all_fail.len() < 60 {
                    all_fail.push(json!({"signature": sig_decl(v.k, sig, defs), "call": v.c, "class": f.class, "msg": f.msg, "known": env.findings.attribute(&f)}));
                }
                match env.findings.attribute(&f) {
                    Some(key) => st.known_hits.push(key),
                    None => {
                        if first_fail.is_none() {
                            first_fail = Some((v.k, v.c, f));
                        }
                    }
                }
            }
        }
        match first_fail {
            Some((k, c, f)) => {
                let mut f = self.narrowed(b, k, c, f);
                if let Value::Object(m) = &mut f.detail {
                    m.insert("all_failing_calls_of_the_batch".into(), json!(all_fail));
                }
                // the narrowed run may turn out to be a known finding
                Verdict::Fail(f)
            }
            None => Verdict::Pass(st),
        }
    }
}

pub fn run(ctx: &mut Ctx) {
    ctx.assume("equality of values is equality of their renderings: host side via a Show trait over the generated Rust types (floats by bit pattern, strings by Debug escaping); Abra side via generated sh_<n> functions (floats through Abra's float->string, which is Rust's shortest round-trip Display; strings delimited by < >; array<void> by length only)");
    ctx.assume("argument values are written as Abra literals, so argument floats are finite; inf/NaN travel in the host->Abra direction only");
    ctx.assume("the embedder (engine/hostgen) is built with the debug profile (debug assertions on) against /repo/abra_core and services host calls exactly like abra_cli: HostFunctionArgs::from_vm then HostFunctionRet::into_vm");
    ctx.assume("multi-field enum variants with a void field are generated only while no open finding covers their (inconsistent) in-VM representation");
    ctx.prop(&HostRoundTrip);
    let problems: Vec<String> = std::mem::take(&mut *HARNESS_PROBLEMS.lock().unwrap());
    for p in problems {
        ctx.harness_error(format!("C36: {p}"));
    }
}
