//! C34 — editor analysis never crashes on incomplete code.

use crate::checks::c02::tape_strategy;
use crate::g::prog::print_prog;
use crate::g::progen::{Flags, generate};
use crate::g::textmut::*;
use crate::harness::*;
use crate::proto::*;
use proptest::prelude::*;
use serde_json::json;

fn unfinished(text: &str) -> bool {
    let mut depth = 0i64;
    for c in text.chars() {
        match c {
            '(' | '{' | '[' => depth += 1,
            ')' | '}' | ']' => depth -= 1,
            _ => {}
        }
    }
    let t = text.trim_end();
    depth != 0 || ["=", "+", "-", "*", ".", ",", "->", "let", "fn", "match", "if", "in", "(", ":"].iter().any(|s| t.ends_with(s))
}

pub struct EditorQueries;

impl Prop for EditorQueries {
    type Case = TextCase;
    fn name(&self) -> &'static str {
        "editor_queries"
    }
    fn rule(&self) -> &'static str {
        "one case = a prefix (by char) of a corpus or generated program, optionally with further mutations; check_lsp + errors() and then definition_at, type_at and completions_at at EVERY byte offset 0..=len+1 (including offsets inside multi-byte characters and past the end) must return without panicking; non-trivial = the text ends inside an unfinished construct (unbalanced bracket or dangling operator/keyword); distinct by text"
    }
    fn n_cases(&self, tier: Tier) -> u32 {
        tier.pick(1500, 40000)
    }
    fn strategy(&self, tier: Tier, _f: &Findings) -> BoxedStrategy<Self::Case> {
        let fl = Flags::core(8, 3);
        let max_base = tier.pick(500, 1500);
        let prefix_of_corpus = (text_strategy(max_base, 0), any::<u16>(), proptest::collection::vec(mut_strategy(), 0..3)).prop_map(|(t, cut, muts)| {
            let mut all = vec![Mut::Prefix(cut)];
            all.extend(muts);
            TextCase { origin: t.origin, text: apply(&t.text, &all), n_muts: all.len() }
        });
        let prefix_of_generated = (tape_strategy(200), any::<u16>()).prop_map(move |(tape, cut)| {
            let src = print_prog(&generate(&tape, &fl));
            let src: String = src.chars().take(700).collect();
            TextCase { origin: "generated".into(), text: apply(&src, &[Mut::Prefix(cut)]), n_muts: 1 }
        });
        let small = (proptest::collection::vec(any::<u16>(), 4..30), any::<bool>(), any::<u16>()).prop_map(|(tape, which, cut)| {
            let src = if which { selfref_text(&tape) } else { mlstring_text(&tape) };
            TextCase { origin: "grammar".into(), text: apply(&src, &[Mut::Prefix(cut | 0x8000)]), n_muts: 1 }
        });
        prop_oneof![4 => prefix_of_corpus, 2 => prefix_of_generated, 1 => text_strategy(max_base, 5), 1 => small].boxed()
    }
    fn fixed_cases(&self, tier: Tier, _f: &Findings) -> Vec<Self::Case> {
        // every prefix of a few small programs (the "program being typed" scenario)
        let mut v = vec![];
        let c = corpus();
        let mut picked = 0;
        for (n, t) in c.iter() {
            let len = t.chars().count();
            if (40..tier.pick(160, 400)).contains(&len) && picked < tier.pick(6, 40) {
                picked += 1;
                for k in 0..=len {
                    let text: String = t.chars().take(k).collect();
                    v.push(TextCase { origin: n.clone(), text, n_muts: 1 });
                }
            }
        }
        for t in ["task {\n  println(1)\n}\n", "let x = task { 1 }", "fn f() { task { f() } }", "let é = 1\né.", "x.", "type Pt = { x: int }\nlet p = Pt(1)\np.", "use core/map\nlet m: map<int,int> = map.new()\nm.", "let s = \"日本\"\ns.", "Color.", "option.", "let a = [1,2]\na.len().", "fn f(x: int) = x\nf(", "match 1 {\n 1 ->"] {
            v.push(TextCase { origin: "handmade".into(), text: t.to_string(), n_muts: 1 });
        }
        v
    }
    fn judge(&self, c: &Self::Case, env: &mut Env) -> Verdict {
        let mut st = CaseStats::one();
        let files = single(c.text.clone());
        let r = match env.lsp(&files, "main.abra", true, vec![], false) {
            Exec::Ok(r) => r,
            Exec::Abort(f) => return Verdict::Fail(f.feat("lsp").detail(json!({"text": c.text}))),
            Exec::Inconclusive(s) => return Verdict::Inconclusive(s),
        };
        st.evals = 1 + r.queries_run;
        if let Some(p) = &r.analysis_panic {
            return Verdict::Fail(Failure::new("HostPanic", norm_msg(&p.msg)).feat(format!("file:{}", base(&p.file))).feat("lsp:analysis").detail(json!({"text": c.text, "panic": p})));
        }
        if let Some((_file, off, kind, p)) = &r.query_panic {
            let on_boundary = c.text.is_char_boundary((*off).min(c.text.len()));
            return Verdict::Fail(
                Failure::new("HostPanic", norm_msg(&p.msg))
                    .feat(format!("file:{}", base(&p.file)))
                    .feat(format!("lsp:{kind}"))
                    .feat(if *off > c.text.len() { "offset:past-end" } else if on_boundary { "offset:boundary" } else { "offset:inside-char" })
                    .detail(json!({"text": c.text, "offset": off, "query": kind, "panic": p})),
            );
        }
        if unfinished(&c.text) {
            st.nt(&c.text);
            if c.text.len() < 300 {
                st.sample = Some(json!({"text": c.text, "queries": r.queries_run, "diagnostics": r.diags.len()}));
            }
        }
        if !c.text.is_ascii() {
            st.label("non-ascii");
        }
        st.label(if r.diags.is_empty() { "diagnostics:none" } else { "diagnostics:some" });
        Verdict::Pass(st)
    }
}

pub fn run(ctx: &mut Ctx) {
    ctx.assume("queries are issued on the main file of a single-file project; multi-file projects are covered by C35's generator");
    ctx.prop(&EditorQueries);
    // thorough tier: coverage-guided byte fuzzing of check_lsp + queries at every offset
    let seeds: Vec<Vec<u8>> = corpus().iter().filter(|(_, t)| t.len() <= 400).map(|(_, t)| t.as_bytes().to_vec()).collect();
    let c = crate::campaign::Campaign { target: "fuzz_lsp", sanitizer: "none", runs: 8_000, max_len: 400, jobs: 12, seeds, dict: DICT.iter().map(|s| s.to_string()).collect() };
    crate::campaign::guided(ctx, &EditorQueries, c, |b| {
        let text = crate::fuzzside::text_of(b);
        Some(TextCase { origin: "libfuzzer".into(), text, n_muts: 1 })
    });
}
