//! C06 — garbage collection never frees an object the program can still reach.
//! Programs x schedules: a heap-mutator family (cells with edges, moves, replacement, closures,
//! strings and channels in flight) and general generated programs, each run under every GC cycle
//! start point (strided in the quick tier) x three mark/sweep paces, with freed objects quarantined.
//! Oracle: no access to a reclaimed object, and the same outcome as with collection disabled.

use crate::checks::c02::{ProgCase, final_kind, tape_strategy};
use crate::g::prog::print_prog;
use crate::g::progen::{Flags, Tape, generate};
use crate::harness::*;
use crate::proto::*;
use crate::try_exec;
use proptest::prelude::*;
use serde::{Deserialize, Serialize};
use serde_json::json;

#[derive(Clone, Debug, Serialize, Deserialize)]
pub struct HeapCase {
    pub tape: Vec<u16>,
    pub cells: u8,
    /// extra multi-cycle scripts (random bytes), run in addition to the start-point sweep
    pub scripts: Vec<(Vec<u8>, u8)>,
}

const HEAP_DECLS: &str = "type Cell = {\n  id: int\n  label: string\n  items: array<int>\n  link: array<Cell>\n  bag: array<array<int>>\n}\n\nfn mk(n: int) -> Cell {\n  let e: array<Cell> = []\n  let b: array<array<int>> = []\n  Cell(n, \"c\" .. n, [n, n + 1], e, b)\n}\n\nfn weight(c: Cell, depth: int) -> int {\n  var w = c.id + c.items.len() * 10\n  for b in c.bag {\n    w = w + b.len() * 100\n  }\n  if depth > 0 {\n    for k in c.link {\n      w = w + weight(k, depth - 1)\n    }\n  }\n  w\n}\n\nfn show(c: Cell) {\n  println(c.id .. \" \" .. c.label .. \" \" .. c.items .. \" \" .. c.link.len() .. \" \" .. c.bag .. \" \" .. weight(c, 3))\n}\n\n// the moved objects of these helpers are held by no local once the call returns\nfn move_last(src: Cell, dst: Cell) {\n  if src.link.len() > 0 {\n    dst.link.push(src.link.pop())\n  }\n}\n\nfn stash(src: Cell, dst: Cell, n: int) {\n  dst.bag.push(src.items)\n  src.items = [n]\n}\n\nfn swap_in(src: Cell, dst: Cell, n: int) {\n  if dst.bag.len() > 0 {\n    dst.bag[0] = src.items\n    src.items = [n, n]\n  }\n}\n\nfn hand_over(src: Cell, dst: Cell, n: int) {\n  dst.items = src.items\n  src.items = [n]\n}\n\n";

pub fn heap_program(c: &HeapCase) -> (String, Vec<String>) {
    let mut t = Tape { data: &c.tape, pos: 0 };
    let k = (c.cells as usize).clamp(2, 6);
    let mut s = String::from(HEAP_DECLS);
    let mut labels = std::collections::BTreeSet::new();
    for i in 0..k {
        s.push_str(&format!("let c{i} = mk({i})\n"));
    }
    s.push_str("let ch: channel<array<Cell>> = channel()\nvar fcount = 0\n");
    let nops = 4 + t.n(24);
    let mut tmp = 0;
    for _ in 0..nops {
        // edges between the original cells only go from a lower to a higher index, so the graph stays
        // acyclic (deep copies through channels and the final traversal terminate)
        let (mut i, mut j) = (t.n(k), t.n(k));
        if i == j {
            j = (i + 1) % k;
        }
        if i > j {
            std::mem::swap(&mut i, &mut j);
        }
        let n = t.n(50) as i64;
        tmp += 1;
        match t.choose(&[5, 4, 3, 3, 3, 3, 3, 3, 2, 3, 2, 2, 3, 4, 3, 3]) {
            0 => {
                labels.insert("edge");
                s.push_str(&format!("c{i}.link.push(c{j})\n"));
            }
            1 => {
                // move an object out of one array through the operand stack into another
                labels.insert("move-via-pop");
                // what is popped from c{j}.link has a higher index than j > i, so i -> it stays upward
                s.push_str(&format!("if c{j}.link.len() > 0 {{\n  let t{tmp} = c{j}.link.pop()\n  c{i}.link.push(t{tmp})\n}}\n"));
            }
            2 => {
                labels.insert("string-churn");
                s.push_str(&format!("c{i}.label = c{i}.label .. \"x\" .. c{j}.label\n"));
            }
            3 => {
                labels.insert("replace-array");
                s.push_str(&format!("c{i}.items = [{n}, {n} + 1, c{j}.items.len()]\n"));
            }
            4 => {
                labels.insert("fresh-cell");
                s.push_str(&format!("let f{tmp} = mk({})\nf{tmp}.items.push({n})\nc{i}.link.push(f{tmp})\n", 100 + n));
            }
            5 => {
                // take a field out, overwrite the field, keep using what was taken
                labels.insert("field-move");
                s.push_str(&format!("let old{tmp} = c{i}.items\nc{i}.items = [{n}]\nold{tmp}.push(c{i}.items.len())\nc{j}.items = old{tmp}\n"));
            }
            6 => {
                labels.insert("closure");
                s.push_str(&format!("let g{tmp} = (q: int) -> c{i}.id + q + c{j}.items.len()\nfcount = fcount + g{tmp}({n})\n"));
            }
            7 => {
                labels.insert("garbage-loop");
                let rounds = 5 + t.n(25);
                s.push_str(&format!("for r in {rounds} {{\n  let junk = mk(r)\n  junk.label = junk.label .. junk.label\n  if r == {} {{\n    c{i}.link.push(junk)\n  }}\n}}\n", rounds - 1));
            }
            8 => {
                labels.insert("string-compare");
                s.push_str(&format!("if (c{i}.label .. \"m\") < (c{j}.label .. \"z\") {{\n  c{i}.items.push({n})\n}}\n"));
            }
            9 => {
                labels.insert("channel");
                s.push_str(&format!("ch.write(c{i}.link)\nlet got{tmp} = ch.read()\nif got{tmp}.len() > 0 {{\n  c{j}.link.push(got{tmp}[0])\n}}\n"));
            }
            10 => {
                labels.insert("clear-links");
                s.push_str(&format!("let e{tmp}: array<Cell> = []\nc{i}.link = e{tmp}\n"));
            }
            11 => {
                labels.insert("index-set");
                s.push_str(&format!("if c{i}.link.len() > 0 {{\n  c{i}.link[0] = c{j}\n}}\n"));
            }
            12 => {
                // pop -> push inside a helper: the moved cell is in no local afterwards
                labels.insert("helper-move-via-pop");
                s.push_str(&format!("move_last(c{j}, c{i})\n"));
            }
            13 => {
                // an old array moves into another cell's array (push), its old reference is overwritten
                labels.insert("helper-stash-push");
                let (a, b) = if t.n(2) == 0 { (i, j) } else { (j, i) };
                s.push_str(&format!("stash(c{a}, c{b}, {n})\n"));
            }
            14 => {
                labels.insert("helper-index-store");
                let (a, b) = if t.n(2) == 0 { (i, j) } else { (j, i) };
                s.push_str(&format!("swap_in(c{a}, c{b}, {n})\n"));
            }
            _ => {
                labels.insert("helper-field-store");
                let (a, b) = if t.n(2) == 0 { (i, j) } else { (j, i) };
                s.push_str(&format!("hand_over(c{a}, c{b}, {n})\n"));
            }
        }
    }
    for i in 0..k {
        s.push_str(&format!("show(c{i})\n"));
    }
    s.push_str("println(fcount)\n");
    (s, labels.into_iter().map(|x| x.to_string()).collect())
}

fn outcome(r: &RunOut) -> String {
    let end = match &r.end {
        RunEnd::Done => "done".to_string(),
        RunEnd::Error { kind, .. } => format!("error:{}", kind.tag()),
        RunEnd::Cap => "cap".into(),
        other => format!("{other:?}"),
    };
    format!("{}|{:?}|{}", r.stdout, r.final_value, end)
}

/// Run `src` under the schedule family; returns Err(failure) or Ok((runs, cycles completed, objects freed, any run non-trivial))
fn sweep_schedules(src: &str, opts: &RunOpts, scripts: &[(Vec<u8>, u8)], labels: &[String], env: &mut Env, stride_target: u32) -> Result<Option<(u64, u64, u64)>, Verdict> {
    let feats = || labels.iter().map(|l| format!("uses:{l}")).collect::<Vec<_>>();
    let mut base_opts = opts.clone();
    base_opts.gc = GcSpec::Disabled;
    let base = match env.run1(src, &base_opts) {
        Exec::Ok(r) => r,
        Exec::Abort(f) => return Err(Verdict::Fail(f.feats(feats()).detail(json!({"src": src})))),
        Exec::Inconclusive(s) => return Err(Verdict::Inconclusive(s)),
    };
    if let Some(f) = crash_failure(&base) {
        return Err(Verdict::Fail(f.feats(feats()).feat("gc:disabled").detail(json!({"src": src}))));
    }
    if !base.compile.is_ok() || matches!(base.end, RunEnd::Cap) {
        return Ok(None);
    }
    let want = outcome(&base);
    let s_total = base.steps.min(20_000) as u32;
    let stride = (s_total / stride_target).max(1);
    let mut variants = vec![Variant { gc: Some(GcSpec::Default), quarantine: Some(true), ..Variant::sel(0) }];
    let mut descs = vec!["default pacing".to_string()];
    let mut start = 0;
    while start < s_total {
        for pace in [2u8, 4, 6] {
            variants.push(Variant { gc: Some(GcSpec::StartAt { start, pace }), quarantine: Some(true), ..Variant::sel(0) });
            descs.push(format!("start={start} pace={pace}"));
        }
        start += stride;
    }
    for (script, tail) in scripts {
        variants.push(Variant { gc: Some(GcSpec::Scripted { script: script.clone(), tail: *tail | 1 }), quarantine: Some(true), ..Variant::sel(0) });
        descs.push(format!("script={script:?} tail={}", tail | 1));
    }
    let outs = match env.run_var(&single(src.to_string()), "main.abra", opts, &variants) {
        Exec::Ok(r) => r,
        Exec::Abort(f) => return Err(Verdict::Fail(f.feats(feats()).detail(json!({"src": src})))),
        Exec::Inconclusive(s) => return Err(Verdict::Inconclusive(s)),
    };
    let (mut cycles, mut freed) = (0u64, 0u64);
    for (r, d) in outs.iter().zip(descs.iter()) {
        if let Some(f) = crash_failure(r) {
            return Err(Verdict::Fail(f.feats(feats()).feat(format!("sched:{d}")).detail(json!({"src": src, "schedule": d}))));
        }
        let got = outcome(r);
        if got != want {
            return Err(Verdict::Fail(
                Failure::new("OutcomeMismatch", format!("behaviour differs from the run with collection disabled ({d})")).feats(feats()).detail(json!({"src": src, "gc_disabled": want, "with_gc": got, "schedule": d})),
            ));
        }
        cycles += r.stats.cycles_completed;
        freed += r.stats.objects_freed;
    }
    Ok(Some((outs.len() as u64 + 1, cycles, freed)))
}

pub struct HeapMutator;

impl Prop for HeapMutator {
    type Case = HeapCase;
    fn name(&self) -> &'static str {
        "heap_mutator"
    }
    fn rule(&self) -> &'static str {
        "one case = a heap-mutator program over 2..6 linked cells (edges, moves through pop, field moves, array/string replacement, fresh cells, closures over cells, garbage loops, strings in flight, channel round trips, index stores, and helper functions that move an old object into another cell by push / index store / field store and overwrite its old reference, so that no local holds it afterwards) ending in a traversal that prints everything reachable; it is run with collection disabled (reference), with the default pacing, with a collection cycle started at every k-th maybe_gc call (k = run length / 120 in the quick tier, 1 in the thorough tier for runs <= 3000 steps) x paces {one object, a few, everything} and generated multi-cycle scripts, always with freed objects quarantined and poisoned; no run may touch a reclaimed object and every run must equal the reference outcome; non-trivial = the schedules completed >= 1 cycle that reclaimed >= 1 object while the final traversal still printed every cell; distinct by program text"
    }
    fn n_cases(&self, tier: Tier) -> u32 {
        tier.pick(1200, 12000)
    }
    fn strategy(&self, _tier: Tier, _f: &Findings) -> BoxedStrategy<Self::Case> {
        (proptest::collection::vec(any::<u16>(), 20..160), 2u8..7, proptest::collection::vec((proptest::collection::vec(0u8..8, 4..60), 0u8..8), 0..4)).prop_map(|(tape, cells, scripts)| HeapCase { tape, cells, scripts }).boxed()
    }
    fn judge(&self, c: &Self::Case, env: &mut Env) -> Verdict {
        let (src, labels) = heap_program(c);
        let opts = RunOpts { max_steps: 400_000, ..RunOpts::default() };
        let target = env.tier.pick(200, 3000);
        let mut st = CaseStats::one();
        for l in &labels {
            st.label(l.clone());
        }
        match sweep_schedules(&src, &opts, &c.scripts, &labels, env, target) {
            Err(v) => v,
            Ok(None) => {
                st.discarded = 1;
                Verdict::Pass(st)
            }
            Ok(Some((runs, cycles, freed))) => {
                st.evals = runs;
                st.labels.push(("gc-cycles-completed".into(), cycles));
                st.labels.push(("objects-freed".into(), freed));
                if cycles >= 1 && freed >= 1 {
                    st.nt(&src);
                    st.sample = Some(json!({"src": src, "schedules": runs, "cycles_completed": cycles, "objects_freed": freed}));
                }
                Verdict::Pass(st)
            }
        }
    }
}

pub struct GeneralPrograms;

impl Prop for GeneralPrograms {
    type Case = ProgCase;
    fn name(&self) -> &'static str {
        "generated_programs_under_gc"
    }
    fn rule(&self) -> &'static str {
        "one case = a generated core-language program (E1) run with collection disabled, default pacing, and a cycle started at ~40 (quick) / ~400 (thorough) evenly spaced points x 3 paces with quarantine; same oracle as heap_mutator; non-trivial = >= 1 completed cycle that freed >= 1 object; distinct by program text"
    }
    fn n_cases(&self, tier: Tier) -> u32 {
        tier.pick(1200, 12000)
    }
    fn strategy(&self, tier: Tier, _f: &Findings) -> BoxedStrategy<Self::Case> {
        let fl = Flags::core(tier.pick(12, 22), 3);
        tape_strategy(tier.pick(400, 800)).prop_map(move |tape| ProgCase { tape, flags: fl.clone() }).boxed()
    }
    fn judge(&self, c: &Self::Case, env: &mut Env) -> Verdict {
        let prog = generate(&c.tape, &c.flags);
        let src = print_prog(&prog);
        let opts = RunOpts { max_steps: 300_000, want_final: final_kind(&prog), ..RunOpts::default() };
        let target = env.tier.pick(40, 400);
        let mut st = CaseStats::one();
        match sweep_schedules(&src, &opts, &[], &prog.labels, env, target) {
            Err(v) => v,
            Ok(None) => {
                st.discarded = 1;
                Verdict::Pass(st)
            }
            Ok(Some((runs, cycles, freed))) => {
                st.evals = runs;
                if cycles >= 1 && freed >= 1 {
                    st.nt(&src);
                    st.sample = Some(json!({"src": src, "schedules": runs, "cycles_completed": cycles, "objects_freed": freed}));
                }
                Verdict::Pass(st)
            }
        }
    }
}

pub fn run(ctx: &mut Ctx) {
    ctx.level = "fault_enumeration".into();
    ctx.assume("hook H2 replaces the pacing heuristic by an external script; hook H3 quarantines and poisons freed objects so that any later typed access or mark visit panics with VERIF-UAF");
    ctx.assume("the start point of a cycle is enumerated (strided in the quick tier); increment sizes and multi-cycle pacings are sampled");
    ctx.prop(&crate::g::srccase::SrcProp { name: "program" });
    ctx.prop(&HeapMutator);
    ctx.prop(&GeneralPrograms);
}
