//! C02 — compiled programs compute what the language reference specifies.
//! Differential: generated well-typed core-language programs vs the reference interpreter.

use crate::g::prog::*;
use crate::g::progen::*;
use crate::harness::*;
use crate::proto::*;
use crate::try_exec;
use proptest::prelude::*;
use serde::{Deserialize, Serialize};
use serde_json::json;

#[derive(Clone, Debug, Serialize, Deserialize)]
pub struct ProgCase {
    pub tape: Vec<u16>,
    pub flags: Flags,
}

pub fn tape_strategy(max_len: usize) -> BoxedStrategy<Vec<u16>> {
    // low values select simple alternatives; mix uniform and low-biased entries
    let entry = prop_oneof![6 => any::<u16>(), 1 => 0u16..4096, 1 => Just(0u16), 1 => 60000u16..=65535];
    proptest::collection::vec(entry, (max_len / 4).max(8)..max_len).boxed()
}

pub fn err_of(k: &ErrKind) -> Option<RefErr> {
    match k {
        ErrKind::Panic(_) => Some(RefErr::Panic),
        ErrKind::ArrayOutOfBounds => Some(RefErr::Oob),
        ErrKind::IntegerOverflow => Some(RefErr::Overflow),
        ErrKind::DivisionByZero => Some(RefErr::Div0),
        ErrKind::Other(_) => None,
    }
}

/// Compare a real run with the reference outcome. None = agree.
pub fn compare(r: &RunOut, reference: &RefOutcome) -> Option<String> {
    if r.stdout != reference.printed {
        let (a, b): (Vec<&str>, Vec<&str>) = (reference.printed.lines().collect(), r.stdout.lines().collect());
        let i = a.iter().zip(b.iter()).position(|(x, y)| x != y).unwrap_or(a.len().min(b.len()));
        return Some(format!("output differs at line {i}: expected {:?} got {:?}", a.get(i), b.get(i)));
    }
    match (&reference.end, &r.end) {
        (RefEnd::Done, RunEnd::Done) => {
            if let Some(exp) = &reference.final_value {
                if r.final_value.as_ref() != Some(exp) {
                    return Some(format!("final value: expected {exp:?} got {:?}", r.final_value));
                }
            }
            None
        }
        (RefEnd::Error(e), RunEnd::Error { kind, .. }) => {
            if err_of(kind).as_ref() == Some(e) { None } else { Some(format!("error kind: expected {e:?} got {}", kind.tag())) }
        }
        (e, g) => Some(format!("end: expected {e:?} got {}", match g {
            RunEnd::Done => "Done".to_string(),
            RunEnd::Error { kind, .. } => format!("Error({})", kind.tag()),
            other => format!("{other:?}").chars().take(80).collect(),
        })),
    }
}

pub fn final_kind(p: &Prog) -> FinalKind {
    match p.final_ty {
        Some(T::Int) => FinalKind::Int,
        Some(T::Bool) => FinalKind::Bool,
        Some(T::Str) => FinalKind::Str,
        _ => FinalKind::None,
    }
}

pub struct Differential;

impl Prop for Differential {
    type Case = ProgCase;
    fn name(&self) -> &'static str {
        "differential"
    }
    fn rule(&self) -> &'static str {
        "one case = a choice tape expanded into a well-typed core-language program (bindings, arithmetic, comparisons, if/while/for with break/continue, functions, recursion, lambdas, tuples, structs, enums, arrays, match, option, ? and !); (printed output, final value, runtime error kind) of the compiled program must equal the reference interpreter's; non-trivial = accepted by the compiler, reference specified, (>= 2 calls or >= 1 loop iteration), >= 1 heap value and non-empty output; distinct by program text"
    }
    fn n_cases(&self, tier: Tier) -> u32 {
        tier.pick(12000, 150000)
    }
    fn strategy(&self, tier: Tier, _f: &Findings) -> BoxedStrategy<Self::Case> {
        let fl = Flags::core(tier.pick(12, 25), tier.pick(3, 4));
        tape_strategy(tier.pick(400, 900)).prop_map(move |tape| ProgCase { tape, flags: fl.clone() }).boxed()
    }
    fn judge(&self, c: &Self::Case, env: &mut Env) -> Verdict {
        let prog = generate(&c.tape, &c.flags);
        let src = print_prog(&prog);
        let reference = run_reference(&prog);
        let opts = RunOpts { want_final: final_kind(&prog), max_steps: 3_000_000, ..RunOpts::default() };
        let r = try_exec!(env.run1(&src, &opts));
        let mut st = CaseStats::one();
        for l in &prog.labels {
            st.label(l.clone());
        }
        if let Some(f) = crash_failure(&r) {
            return Verdict::Fail(f.feats(prog.labels.iter().map(|l| format!("uses:{l}"))).detail(json!({"src": src})));
        }
        if let FrontVerdict::Diag(d) = &r.compile {
            // the generator promises well-typed programs: a rejection is a generator bug or a compiler defect
            return Verdict::Fail(
                Failure::new("VerdictMismatch", format!("generated program rejected: {}", norm_msg(d.lines().find(|l| !l.trim().is_empty()).unwrap_or(""))))
                    .feats(prog.labels.iter().map(|l| format!("uses:{l}")))
                    .detail(json!({"src": src, "diagnostics": d})),
            );
        }
        if let RefEnd::Unspecified(why) = &reference.end {
            st.discarded = 1;
            st.label(format!("discard:{why}"));
            return Verdict::Pass(st);
        }
        if matches!(r.end, RunEnd::Cap) {
            st.discarded = 1;
            st.label("discard:step-cap");
            return Verdict::Pass(st);
        }
        if let Some(m) = compare(&r, &reference) {
            return Verdict::Fail(
                Failure::new("OutcomeMismatch", m)
                    .feats(prog.labels.iter().map(|l| format!("uses:{l}")))
                    .detail(json!({"src": src, "expected_output": reference.printed, "got_output": r.stdout, "expected_end": format!("{:?}", reference.end), "got_end": format!("{:?}", r.end).chars().take(300).collect::<String>()})),
            );
        }
        st.label(match &reference.end {
            RefEnd::Done => "end:done".to_string(),
            RefEnd::Error(e) => format!("end:{e:?}"),
            _ => "end:?".into(),
        });
        if (reference.calls >= 2 || reference.loops >= 1) && reference.heap_values >= 1 && !reference.printed.is_empty() {
            st.nt(&src);
            st.sample = Some(json!({"src": src, "output": reference.printed, "end": format!("{:?}", reference.end), "final": format!("{:?}", reference.final_value)}));
        }
        Verdict::Pass(st)
    }
}

pub fn run(ctx: &mut Ctx) {
    ctx.assume("reference interpreter implements DESIGN.md appendix A (documented semantics); undocumented evaluation orders are avoided by construction");
    ctx.assume("programs are well-typed by construction; a rejected program is reported (generator bug or compiler defect)");
    ctx.prop(&crate::g::srccase::SrcProp { name: "program" });
    ctx.prop(&Differential);
}
