//! C13 — a match arm is reported redundant exactly when it is unreachable.
//! Oracle: brute force, both directions. Arm i is in the "redundant cases" diagnostic (its
//! secondary labels, mapped to arm indices by range containment) iff no value of the scrutinee
//! type reaches arm i under first-match semantics (reference matcher of `g::matchgen`). Literal
//! patterns that denote the same value in different spellings are the same value.

use crate::checks::c12::{fixed_batches, random_batches};
use crate::g::matchgen::*;
use crate::harness::*;
use crate::try_exec;
use proptest::prelude::*;
use serde_json::json;

fn lit(ty: &Ty, s: &str) -> Pat {
    match ty {
        Ty::Int => Pat::Int(s.to_string()),
        Ty::Float => Pat::Float(s.to_string()),
        Ty::Str => {
            let single = s.starts_with('\'');
            Pat::Str(s.trim_matches(|c| c == '\'' || c == '"').to_string(), single)
        }
        _ => unreachable!(),
    }
}

/// every ordered pair of spellings (equal and different values) of int, float and string
/// literals, alone, followed by a wildcard, inside a tuple, inside option, and as or-alternatives
pub fn spelling_cases() -> Vec<MCase> {
    let sets: Vec<(Ty, Vec<&str>)> = vec![
        (Ty::Int, vec!["10", "1_0", "010", "1", "01", "0", "00", "1_00", "100"]),
        (Ty::Float, vec!["1.0", "1.00", "01.0", "1.0_0", "10.0", "1_0.0", "0.0", "0.00", "00.0", "0.5", "0.50", ".5"]),
        (Ty::Str, vec!["\"a\"", "'a'", "\"b\"", "'b'", "\"cc\"", "'cc'"]),
    ];
    let mut out = vec![];
    for (ty, sp) in &sets {
        // `.5` is not a literal of the language (digits are required on both sides): keep the set honest
        let sp: Vec<&str> = sp.iter().copied().filter(|s| !s.starts_with('.')).collect();
        for a in &sp {
            for b in &sp {
                let (pa, pb) = (lit(ty, a), lit(ty, b));
                out.push(MCase { ty: ty.clone(), arms: vec![pa.clone(), pb.clone(), Pat::Wild], form: 0 });
                out.push(MCase { ty: ty.clone(), arms: vec![pa.clone(), pb.clone()], form: 0 });
                let t2 = Ty::Tuple(vec![ty.clone(), Ty::Bool]);
                out.push(MCase {
                    ty: t2,
                    arms: vec![Pat::Tuple(vec![pa.clone(), Pat::Bool(true)]), Pat::Tuple(vec![pb.clone(), Pat::Wild]), Pat::Tuple(vec![pb.clone(), Pat::Bool(true)]), Pat::Wild],
                    form: 0,
                });
                let to = Ty::Nom("option".into(), vec![ty.clone()]);
                let some = |p: Pat| Pat::Variant { vi: 0, form: VForm::Pos, qual: false, fields: vec![p] };
                out.push(MCase { ty: to, arms: vec![some(pa.clone()), some(pb.clone()), Pat::Wild], form: 0 });
                out.push(MCase { ty: ty.clone(), arms: vec![Pat::Or(Box::new(pa.clone()), Box::new(pb.clone())), pb.clone(), pa.clone(), Pat::Wild], form: 0 });
            }
        }
    }
    out
}

pub struct Redundancy;

impl Prop for Redundancy {
    type Case = MBatch;
    fn name(&self) -> &'static str {
        "redundancy"
    }
    fn rule(&self) -> &'static str {
        "one case = (scrutinee type, arm list), the same enumeration as C12 (exhaustive or not) plus every ordered pair of alternative spellings of int/float/string literals (alone, before a wildcard, inside a tuple, inside option, as or-alternatives); oracle = arm reported redundant iff no value reaches it first-match; non-trivial = some arm overlaps an earlier, different arm; distinct by (type, arm list)"
    }
    fn n_cases(&self, tier: Tier) -> u32 {
        tier.pick(600, 6000)
    }
    fn strategy(&self, _tier: Tier, _f: &Findings) -> BoxedStrategy<Self::Case> {
        random_batches(40)
    }
    fn fixed_cases(&self, tier: Tier, _f: &Findings) -> Vec<Self::Case> {
        let mut v = fixed_batches(tier);
        v.extend(spelling_cases().chunks(48).map(|c| MBatch::Lists(c.to_vec())));
        v
    }
    fn exhaustive(&self, _tier: Tier) -> bool {
        true
    }
    fn split(&self, case: &Self::Case) -> Vec<Self::Case> {
        case.split()
    }
    fn judge(&self, batch: &Self::Case, env: &mut Env) -> Verdict {
        let cases = batch.expand();
        if let Some(bad) = cases.iter().find(|c| c.arms.is_empty() || !c.arms.iter().all(|p| well_formed(p, &c.ty))) {
            return Verdict::Inconclusive(format!("ill-formed case {:?}", bad).chars().take(300).collect());
        }
        let (src, an) = try_exec!(analyse_static(env, &cases));
        let reports = match an {
            Analysed::Fail(f) => {
                let d = f.detail.clone();
                return Verdict::Fail(f.detail(json!({"src": src, "diag": d})));
            }
            Analysed::Reports(r) => r,
        };
        let mut st = CaseStats::default();
        let mut first_fail: Option<Failure> = None;
        for (c, r) in cases.iter().zip(&reports) {
            st.evals += 1;
            let ra = analyse_ref(c);
            let nt = has_overlap(c, &ra);
            if nt {
                st.nt(c);
            }
            case_labels(c, &mut st);
            st.label(r.verdict());
            st.label(if ra.irredundant() { "ref:all-arms-reachable" } else { "ref:unreachable-arm" });
            let reported: Vec<usize> = r.redundant.clone().unwrap_or_default();
            let expected: Vec<usize> = ra.reachable.iter().enumerate().filter(|(_, r)| !**r).map(|(i, _)| i).collect();
            let mk = |what: &str, msg: String| {
                Failure::new("VerdictMismatch", msg)
                    .feat(format!("what:{what}"))
                    .feats(case_feats(c))
                    .detail(json!({"match": case_text(c), "case": c, "reported_redundant": reported, "unreachable_by_reference": expected, "missing": r.missing, "other": r.other}))
            };
            let fail = if !r.other.is_empty() {
                Some(mk("other-diagnostic", format!("a generated match draws an unrelated diagnostic: {}", r.other[0])))
            } else if r.redundant.is_some() && reported.is_empty() {
                Some(mk("empty-report", "a redundancy diagnostic that names no arm".to_string()))
            } else if let Some(i) = reported.iter().find(|i| !expected.contains(i)) {
                let v = ra.values.iter().zip(&ra.taken).find(|(_, t)| **t == Some(*i)).map(|(v, _)| val_expr(v, &c.ty)).unwrap_or_default();
                Some(mk("spurious-redundant", format!("arm {i} `{}` is reported redundant but the value {v} reaches it", pat_text(&c.arms[*i], &c.ty))))
            } else if let Some(i) = expected.iter().find(|i| !reported.contains(i)) {
                let spell = matches!(c.arms[*i], Pat::Float(_)) || c.arms.iter().any(|p| literal_kind(p) == Some("float"));
                Some(mk("missed-redundant", format!("arm {i} `{}` is unreachable (every value it matches is taken by an earlier arm) but is not reported redundant", pat_text(&c.arms[*i], &c.ty))).feat(if spell { "lit:float" } else { "lit:other" }))
            } else {
                None
            };
            if let Some(f) = fail {
                match env.findings.attribute(&f) {
                    Some(k) => st.known_hits.push(k),
                    None => {
                        if first_fail.is_none() {
                            first_fail = Some(f);
                        }
                    }
                }
            }
            if st.sample.is_none() && nt && !expected.is_empty() {
                st.sample = Some(json!({"match": case_text(c), "reported_redundant": reported, "unreachable_by_reference": expected}));
            }
        }
        match first_fail {
            Some(f) => Verdict::Fail(f),
            None => Verdict::Pass(st),
        }
    }
}

fn literal_kind(p: &Pat) -> Option<&'static str> {
    match p {
        Pat::Float(_) => Some("float"),
        Pat::Int(_) => Some("int"),
        Pat::Str(..) => Some("string"),
        Pat::Tuple(ps) | Pat::Struct { fields: ps, .. } | Pat::Variant { fields: ps, .. } => ps.iter().find_map(literal_kind),
        Pat::Or(a, b) => literal_kind(a).or_else(|| literal_kind(b)),
        _ => None,
    }
}

pub fn run(ctx: &mut Ctx) {
    ctx.assume("values of int/float/string scrutinees are represented by every literal the arms mention plus fresh representatives (-1, 7.5, -0.0, \"zz\"), which makes the finite enumeration complete for first-match reachability");
    ctx.assume("redundancy is judged per arm: an arm with an or-pattern is redundant only if no alternative is reachable");
    ctx.assume("reported arms are the secondary labels of the 'redundant cases' diagnostic, mapped to arm indices by range containment (ASCII sources)");
    ctx.prop(&Redundancy);
}
