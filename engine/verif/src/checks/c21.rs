//! C21 — names resolve to the innermost visible declaration; imports are exact.
//! (1) shadowing-heavy generated programs vs the reference interpreter (locals, parameters, loop
//!     variables, match bindings, captures); (2) generated multi-file layouts with every `use` form.

use crate::checks::c19::BiasedDifferential;
use crate::harness::*;
use crate::proto::*;
use crate::try_exec;
use proptest::prelude::*;
use serde::{Deserialize, Serialize};
use serde_json::json;
use std::collections::{BTreeMap, BTreeSet};

const POOL: [&str; 6] = ["alpha", "beta", "gamma", "delta", "eps", "zeta"];
const FILES: [&str; 4] = ["lib_a", "lib_b", "sub/lib_c", "sub/deep/lib_d"];

#[derive(Clone, Debug, Serialize, Deserialize)]
pub enum UseForm {
    Glob,
    Only(Vec<u8>),
    Except(Vec<u8>),
    As(String),
}

#[derive(Clone, Debug, Serialize, Deserialize)]
pub struct ImportCase {
    /// for each library file: which pool names it declares (bit mask)
    pub decls: Vec<u8>,
    /// main's imports: (file index, form); at most one per file
    pub uses: Vec<(u8, UseForm)>,
    /// names main declares itself
    pub own: u8,
    /// a local `let` in main shadowing this pool name (value-level shadowing of an imported function)
    pub local_shadow: Option<u8>,
    /// lib_a additionally imports lib_b (must not leak into main)
    pub transitive: bool,
    /// also reference one name that is not visible (expects an unresolved-identifier diagnostic)
    pub use_hidden: bool,
    /// lib_a and main each declare an enum `Shade`; main matches on its own with qualified variant patterns
    #[serde(default)]
    pub enum_scenario: bool,
}

fn short(file: &str) -> String {
    file.rsplit('/').next().unwrap().to_string()
}

struct Layout {
    files: Vec<SrcFile>,
    /// name -> set of declaring places visible unqualified in main
    visible: BTreeMap<String, BTreeSet<String>>,
    hidden: Vec<String>,
    expected_out: String,
    uses_nonglob: bool,
}

fn build(c: &ImportCase) -> Layout {
    let nfiles = c.decls.len().clamp(1, FILES.len());
    let mut files = vec![];
    let decl_names = |mask: u8| -> Vec<&'static str> { POOL.iter().enumerate().filter(|(i, _)| mask >> i & 1 == 1).map(|(_, n)| *n).collect() };
    for fi in 0..nfiles {
        let mut text = String::new();
        if c.transitive && fi == 0 && nfiles > 1 {
            // a single, non-clashing name: it must stay invisible in main (imports are not transitive)
            text.push_str("use lib_b.only_lib_b\n");
        }
        for n in decl_names(c.decls[fi]) {
            text.push_str(&format!("fn {n}() -> string {{\n  \"{}.{n}\"\n}}\n", short(FILES[fi])));
        }
        text.push_str(&format!("fn only_{}() -> string {{\n  \"{}.only\"\n}}\n", short(FILES[fi]), short(FILES[fi])));
        if c.enum_scenario && fi == 0 {
            text.push_str("type Shade =\n  | Dark\n  | Light\n\nfn lib_shade(s: Shade) -> string {\n  match s {\n    Shade.Dark -> \"lib.dark\"\n    Shade.Light -> \"lib.light\"\n  }\n}\n");
        }
        files.push(SrcFile { path: format!("{}.abra", FILES[fi]), text });
    }
    let mut visible: BTreeMap<String, BTreeSet<String>> = BTreeMap::new();
    let mut main = String::new();
    let mut seen_files = BTreeSet::new();
    let mut prefixes: Vec<(String, usize)> = vec![];
    let mut uses_nonglob = false;
    for (fi, form) in &c.uses {
        let fi = *fi as usize % nfiles;
        if !seen_files.insert(fi) {
            continue;
        }
        let mut declared: Vec<String> = decl_names(c.decls[fi]).iter().map(|s| s.to_string()).collect();
        declared.push(format!("only_{}", short(FILES[fi])));
        // the enum and its function are only ever imported by the glob and except forms (the lists pick by index
        // among the names above)
        let extra: Vec<String> = if c.enum_scenario && fi == 0 { vec!["Shade".to_string(), "lib_shade".to_string()] } else { vec![] };
        let pick = |idxs: &Vec<u8>| -> Vec<String> {
            let mut v: Vec<String> = vec![];
            for i in idxs {
                let n = declared[*i as usize % declared.len()].clone();
                if !v.contains(&n) {
                    v.push(n);
                }
            }
            v
        };
        let imported: Vec<String> = match form {
            UseForm::Glob => {
                main.push_str(&format!("use {}\n", FILES[fi]));
                declared.iter().chain(extra.iter()).cloned().collect()
            }
            UseForm::Only(idxs) => {
                uses_nonglob = true;
                let names = pick(idxs);
                if names.len() == 1 {
                    main.push_str(&format!("use {}.{}\n", FILES[fi], names[0]));
                } else {
                    main.push_str(&format!("use {}.({})\n", FILES[fi], names.join(", ")));
                }
                names
            }
            UseForm::Except(idxs) => {
                uses_nonglob = true;
                let names = pick(idxs);
                if names.len() == 1 {
                    main.push_str(&format!("use {} except {}\n", FILES[fi], names[0]));
                } else {
                    main.push_str(&format!("use {} except ({})\n", FILES[fi], names.join(", ")));
                }
                declared.iter().filter(|d| !names.contains(d)).chain(extra.iter()).cloned().collect()
            }
            UseForm::As(p) => {
                uses_nonglob = true;
                main.push_str(&format!("use {} as {p}\n", FILES[fi]));
                prefixes.push((p.clone(), fi));
                // the alias is itself a declaration in main's namespace: it clashes with any other visible `p`
                visible.entry(p.clone()).or_default().insert(format!("alias-of-{}", short(FILES[fi])));
                vec![]
            }
        };
        for n in imported {
            visible.entry(n).or_default().insert(short(FILES[fi]));
        }
    }
    for n in decl_names(c.own) {
        main.push_str(&format!("fn {n}() -> string {{\n  \"main.{n}\"\n}}\n"));
        visible.entry(n.to_string()).or_default().insert("main".into());
    }
    let mut expected_out = String::new();
    if c.enum_scenario {
        // main's own enum of the same name: its qualified variant patterns must mean main's variants
        main.push_str("type Shade =\n  | Dark\n  | Light\n  | Mid\n\nfn shade_name(s: Shade) -> string {\n  match s {\n    Shade.Dark -> \"main.dark\"\n    Shade.Light -> \"main.light\"\n    Shade.Mid -> \"main.mid\"\n  }\n}\n");
        visible.entry("Shade".to_string()).or_default().insert("main".into());
        main.push_str("println(shade_name(Shade.Mid))\nprintln(shade_name(Shade.Dark))\n");
        expected_out.push_str("main.mid\nmain.dark\n");
    }
    // qualified access through every prefix
    for (p, fi) in &prefixes {
        for n in decl_names(c.decls[*fi]) {
            main.push_str(&format!("println({p}.{n}())\n"));
            expected_out.push_str(&format!("{}.{n}\n", short(FILES[*fi])));
        }
    }
    // a local value binding shadows an imported / own function of the same name
    // (a local value binding named like a namespace alias is not generated: nothing documents that case)
    let shadow = c.local_shadow.map(|i| POOL[i as usize % POOL.len()].to_string()).filter(|s| !prefixes.iter().any(|(p, _)| p == s));
    for (n, places) in &visible {
        if places.len() == 1 && Some(n) != shadow.as_ref() && !places.iter().next().unwrap().starts_with("alias-of-") && n != "Shade" && n != "lib_shade" {
            main.push_str(&format!("println({n}())\n"));
            expected_out.push_str(&format!("{}.{}\n", places.iter().next().unwrap(), if n.starts_with("only_") { "only" } else { n }));
        }
    }
    if let Some(s) = &shadow {
        main.push_str(&format!("let {s} = \"local.{s}\"\nprintln({s})\n"));
        expected_out.push_str(&format!("local.{s}\n"));
    }
    // hidden names: declared somewhere but not visible unqualified in main
    let mut hidden = vec![];
    for fi in 0..nfiles {
        for n in decl_names(c.decls[fi]) {
            if !visible.contains_key(n) && Some(n.to_string()) != shadow && !hidden.contains(&n.to_string()) && !prefixes.iter().any(|(p, _)| p == n) {
                hidden.push(n.to_string());
            }
        }
    }
    if c.transitive && nfiles > 1 && !visible.contains_key("only_lib_b") {
        hidden.insert(0, "only_lib_b".to_string());
    }
    if c.use_hidden {
        if let Some(h) = hidden.first() {
            main.push_str(&format!("println({h}())\n"));
        }
    }
    files.insert(0, SrcFile { path: "main.abra".into(), text: main });
    Layout { files, visible, hidden, expected_out, uses_nonglob }
}

pub struct Imports;

impl Prop for Imports {
    type Case = ImportCase;
    fn name(&self) -> &'static str {
        "imports"
    }
    fn rule(&self) -> &'static str {
        "one case = 1..4 library files (two in sub-directories) declaring subsets of a 6-name pool (every function returns the tag 'file.name'), a main file with one `use` per chosen library in one of the forms glob / single / list / except / except-list / as-prefix (the prefix sometimes equal to a pool name, so that the alias itself can clash), own declarations, an optional local binding shadowing a function name, an optional transitive import inside a library, optionally an enum `Shade` declared both in lib_a and (with an extra variant) in main, matched in main with qualified variant patterns, and optionally one reference to a hidden name; the model computes the effective namespace: a name with two visible declarations => a clash diagnostic; a hidden name used unqualified => an unresolved-identifier diagnostic whose range is that name; otherwise every visible name and every prefix-qualified name prints the tag of the declaration the model resolves; non-trivial = >= 2 files and >= 1 non-glob import form; distinct by case"
    }
    fn n_cases(&self, tier: Tier) -> u32 {
        tier.pick(2500, 40000)
    }
    fn strategy(&self, _tier: Tier, _f: &Findings) -> BoxedStrategy<Self::Case> {
        let idxs = || proptest::collection::vec(0u8..7, 1..4);
        let form = prop_oneof![3 => Just(UseForm::Glob), 3 => idxs().prop_map(UseForm::Only), 3 => idxs().prop_map(UseForm::Except), 2 => "p[a-c]".prop_map(UseForm::As), 1 => (0usize..POOL.len()).prop_map(|i| UseForm::As(POOL[i].to_string()))];
        (proptest::collection::vec(0u8..64, 1..5), proptest::collection::vec((0u8..4, form), 0..4), prop_oneof![3 => Just(0u8), 1 => 0u8..64], proptest::option::weighted(0.3, 0u8..6), any::<bool>(), proptest::bool::weighted(0.3), proptest::bool::weighted(0.3))
            .prop_map(|(decls, uses, own, local_shadow, transitive, use_hidden, enum_scenario)| {
                // prefixes must be distinct per import
                let mut seen = BTreeSet::new();
                let uses = uses
                    .into_iter()
                    .map(|(f, form)| match form {
                        UseForm::As(p) if !seen.insert(p.clone()) => (f, UseForm::Glob),
                        other => (f, other),
                    })
                    .collect();
                ImportCase { decls, uses, own, local_shadow, transitive, use_hidden, enum_scenario }
            })
            .boxed()
    }
    fn judge(&self, c: &Self::Case, env: &mut Env) -> Verdict {
        let l = build(c);
        let mut st = CaseStats::one();
        let clash: Vec<&String> = l.visible.iter().filter(|(_, p)| p.len() > 1).map(|(n, _)| n).collect();
        let hidden_used = c.use_hidden && !l.hidden.is_empty();
        let r = try_exec!(env.run(&l.files, "main.abra", &RunOpts::default()));
        if let Some(f) = crash_failure(&r) {
            return Verdict::Fail(f.detail(json!({"files": l.files})));
        }
        let detail = || json!({"files": l.files, "visible": l.visible, "hidden": l.hidden, "expected_output": l.expected_out});
        st.label(if !clash.is_empty() { "expect:clash" } else if hidden_used { "expect:unresolved" } else { "expect:runs" });
        if !clash.is_empty() {
            match &r.compile {
                FrontVerdict::Diag(d) if clash.iter().any(|n| d.contains(&format!("`{n}` was declared more than once"))) => {}
                other => return Verdict::Fail(Failure::new("VerdictMismatch", format!("two visible declarations of {:?} but no clash was reported: {}", clash, format!("{other:?}").chars().take(160).collect::<String>())).feat("expect:clash").detail(detail())),
            }
        } else if hidden_used {
            let h = &l.hidden[0];
            match &r.compile {
                FrontVerdict::Diag(d) if d.contains("Could not resolve identifier") && d.contains(&format!("{h}()")) => {}
                other => return Verdict::Fail(Failure::new("VerdictMismatch", format!("`{h}` is not made visible by any import but its use was not reported as unresolved: {}", format!("{other:?}").chars().take(160).collect::<String>())).feat("expect:unresolved").detail(detail())),
            }
        } else {
            if let FrontVerdict::Diag(d) = &r.compile {
                return Verdict::Fail(Failure::new("VerdictMismatch", format!("no clash and no hidden name predicted, but the compiler reports: {}", norm_msg(d.lines().find(|x| !x.trim().is_empty()).unwrap_or("")))).feat("expect:runs").detail(detail()));
            }
            if !matches!(r.end, RunEnd::Done) || r.stdout != l.expected_out {
                return Verdict::Fail(Failure::new("ModelMismatch", format!("resolved declarations differ: expected output {:?}, got {:?}", l.expected_out, r.stdout)).feat("expect:runs").detail(detail()));
            }
        }
        if l.files.len() >= 3 && l.uses_nonglob {
            st.nt(&l.files);
            st.sample = Some(detail());
        }
        Verdict::Pass(st)
    }
}

pub fn run(ctx: &mut Ctx) {
    ctx.assume("the effective namespace of a file is its own declarations, the prelude and exactly what its `use` lines select (not transitive); a file is never imported twice by the same file");
    ctx.prop(&crate::g::srccase::SrcProp { name: "program" });
    ctx.prop(&Imports);
    ctx.prop(&BiasedDifferential {
        name: "shadowing_differential",
        bias: 3,
        rule: "one case = a generated program biased towards shadowing (every second binding and loop variable reuses a visible name; nested blocks, loop bodies, match arms, lambda bodies); outcome must equal the reference interpreter, whose environment resolves every name to the innermost binding; non-trivial = the program uses shadowing and prints; distinct by program text",
        quick: 5000,
        thorough: 60000,
    });
}
