//! C30 — literals. Every in-range integer literal (with `_` separators, leading zeros, possibly
//! negated) evaluates to that integer, every float literal to the nearest binary64 value, every
//! string literal (single, double, triple quoted; escapes; indentation stripping) to the intended
//! text; out-of-range numeric literals are diagnostics.
//! Oracle: round trip. The harness starts from the value, prints a literal spelling of it itself,
//! and the program's output must be the value it started from.

use crate::g::batch::run_batch;
use crate::g::progen::Tape;
use crate::g::values::*;
use crate::harness::*;
use crate::proto::*;
use crate::try_exec;
use proptest::prelude::*;
use serde::{Deserialize, Serialize};
use serde_json::json;

#[derive(Clone, Debug, Serialize, Deserialize, PartialEq, Eq, Hash)]
pub enum Lit {
    /// digits with optional `_` between digits and leading zeros, optional leading `-`;
    /// form: 0 `println(lit)` | 1 `let x = lit` | 2 `"v=" .. lit`
    Int { text: String, form: u8 },
    /// digits `.` digits (same spelling freedom), optional leading `-`
    Float { text: String, form: u8 },
    /// style: 0 single | 1 double | 2 triple quoted; knobs drive raw/escaped and layout choices
    Str { text: String, style: u8, knobs: Vec<u16> },
}

// ---------------------------------------------------------------------------------------------
// numbers

fn digits_value(text: &str) -> Option<i128> {
    let t = text.replace('_', "");
    let (neg, d) = match t.strip_prefix('-') {
        Some(r) => (true, r.to_string()),
        None => (false, t),
    };
    if d.is_empty() || !d.bytes().all(|b| b.is_ascii_digit()) {
        return None;
    }
    let d = d.trim_start_matches('0');
    if d.len() > 38 {
        return Some(if neg { i128::MIN } else { i128::MAX });
    }
    let v: i128 = if d.is_empty() { 0 } else { d.parse().ok()? };
    Some(if neg { -v } else { v })
}

/// Ok(value) in range, Err(()) out of range
pub fn int_expect(text: &str) -> Option<Result<i64, ()>> {
    let v = digits_value(text)?;
    Some(if v >= i64::MIN as i128 && v <= i64::MAX as i128 { Ok(v as i64) } else { Err(()) })
}

/// Ok(value) finite, Err(()) magnitude beyond the largest finite binary64 (rounds to infinity)
pub fn float_expect(text: &str) -> Option<Result<f64, ()>> {
    let t = text.replace('_', "");
    let body = t.strip_prefix('-').unwrap_or(&t);
    let (i, f) = body.split_once('.')?;
    if i.is_empty() || f.is_empty() || !i.bytes().all(|b| b.is_ascii_digit()) || !f.bytes().all(|b| b.is_ascii_digit()) {
        return None;
    }
    let v: f64 = t.parse().ok()?;
    Some(if v.is_finite() { Ok(v) } else { Err(()) })
}

fn valid_spelling(text: &str) -> bool {
    // `_` only between two digits; at most one leading `-`
    let b = text.strip_prefix('-').unwrap_or(text).as_bytes();
    !b.is_empty()
        && b[0].is_ascii_digit()
        && (0..b.len()).all(|i| match b[i] {
            b'_' => i > 0 && i + 1 < b.len() && b[i - 1].is_ascii_digit() && b[i + 1].is_ascii_digit(),
            b'.' => i > 0 && i + 1 < b.len() && b[i - 1].is_ascii_digit() && b[i + 1].is_ascii_digit(),
            c => c.is_ascii_digit(),
        })
}

/// insert `_` between digits at the positions chosen by `mask`, add `zeros` leading zeros
fn spell(digits: &str, mask: u64, zeros: u8) -> String {
    let mut s = String::new();
    for _ in 0..zeros {
        s.push('0');
    }
    let b: Vec<char> = digits.chars().collect();
    for (i, c) in b.iter().enumerate() {
        s.push(*c);
        if i + 1 < b.len() && (mask >> (i % 64)) & 1 == 1 {
            s.push('_');
        }
    }
    s
}

fn int_case_strategy() -> BoxedStrategy<Lit> {
    let in_range = (int_strategy(), prop_oneof![3 => Just(0u64), 2 => any::<u64>(), 1 => Just(0x4924_9249_2492_4924u64)], prop_oneof![4 => Just(0u8), 1 => 1u8..4], 0u8..3).prop_map(|(n, mask, zeros, form)| {
        let mag = (n as i128).unsigned_abs().to_string();
        let t = spell(&mag, mask, zeros);
        Lit::Int { text: if n < 0 { format!("-{t}") } else { t }, form }
    });
    let out_of_range = (prop_oneof![
        2 => Just("9223372036854775808".to_string()),
        1 => Just("9223372036854775809".to_string()),
        1 => Just("18446744073709551616".to_string()),
        1 => Just("18446744073709551615".to_string()),
        2 => "[1-9][0-9]{19,45}",
        1 => (9223372036854775808u64..=u64::MAX).prop_map(|v| v.to_string()),
    ], any::<bool>(), prop_oneof![2 => Just(0u64), 1 => any::<u64>()], 0u8..3, 0u8..3)
        .prop_map(|(d, neg, mask, zeros, form)| {
            // -9223372036854775808 is in range: bump it
            let d = if neg && d == "9223372036854775808" { "9223372036854775809".to_string() } else { d };
            let t = spell(&d, mask, zeros);
            Lit::Int { text: if neg { format!("-{t}") } else { t }, form }
        });
    prop_oneof![5 => in_range, 1 => out_of_range].boxed()
}

fn float_case_strategy() -> BoxedStrategy<Lit> {
    let intpart = prop_oneof![
        3 => "[0-9]{1,18}",
        2 => "0{0,3}[0-9]{1,6}",
        2 => "[1-9][0-9]{0,2}(_[0-9]{3}){1,4}",
        1 => "[1-9][0-9]{20,40}",
        1 => "[1-9][0-9]{300,307}",
        1 => "1797693134862315[0-9]{293}",
        1 => "[1-9][0-9]{308,330}",
    ];
    let frac = prop_oneof![3 => "[0-9]{1,17}", 1 => "[0-9]{18,60}", 1 => "0{1,30}[1-9]{1,5}", 1 => "[0-9]{1,3}(_[0-9]{3}){1,2}", 1 => "0{320,340}[1-9]", 1 => "[0-9](_[0-9]){1,8}"];
    let from_value = (float_strategy(), any::<u64>(), 0u8..3).prop_map(|(x, mask, zeros)| {
        let t = float_lit_plain(x.abs());
        let (i, f) = t.split_once('.').unwrap();
        let s = format!("{}.{}", spell(i, mask & (mask >> 7), zeros), spell(f, mask >> 32 & (mask >> 40), 0));
        if x.is_sign_negative() { format!("-{s}") } else { s }
    });
    (prop_oneof![3 => (intpart, frac, any::<bool>()).prop_map(|(i, f, neg)| format!("{}{i}.{f}", if neg { "-" } else { "" })), 2 => from_value], 0u8..3)
        .prop_map(|(text, form)| Lit::Float { text, form })
        .boxed()
}

// ---------------------------------------------------------------------------------------------
// strings

const ALPHABET: [char; 30] = [
    'a', 'b', 'Z', 'n', 't', 'r', 'x', '2', '0', ' ', ' ', '\'', '"', '"', '\\', '\n', '\n', '\t', '\r', '\u{0}', '\u{1}', '\u{b}', '\u{1b}', '\u{7f}', 'é', 'λ', '日', '😀', '\u{80}', '\u{7ff}',
];

fn hex_escape(c: char) -> String {
    format!("\\x{:02x}", c as u32)
}

fn is_ctl(c: char) -> bool {
    (c as u32) < 0x20 || c as u32 == 0x7f
}

/// single- or double-quoted literal of `text`; raw/escaped choices from the tape
pub fn print_quoted(text: &str, q: char, t: &mut Tape) -> String {
    let mut o = String::new();
    o.push(q);
    for c in text.chars() {
        match c {
            '\\' => o.push_str("\\\\"),
            '\n' => o.push_str("\\n"),
            c if c == q => {
                if t.n(4) == 3 {
                    o.push_str(&hex_escape(c))
                } else {
                    o.push('\\');
                    o.push(c)
                }
            }
            '\'' | '"' => {
                if t.n(3) == 2 {
                    o.push('\\');
                }
                o.push(c)
            }
            '\t' => o.push_str(["\\t", "\t", "\\x09"][t.n(3)]),
            '\r' => o.push_str(["\\r", "\r", "\\x0d"][t.n(3)]),
            c if is_ctl(c) => {
                if t.n(2) == 0 {
                    o.push_str(&hex_escape(c))
                } else {
                    o.push(c)
                }
            }
            // any ASCII character may also be written \xNN
            c if c.is_ascii() && t.n(16) == 15 => o.push_str(&hex_escape(c)),
            c => o.push(c),
        }
    }
    o.push(q);
    o
}

#[derive(Clone, Debug, Default)]
pub struct TripleInfo {
    pub source_lines: usize,
    pub residue: bool,
    pub inline_closer: bool,
    pub indent: usize,
    pub blank_lines: usize,
    pub extra_indent_lines: usize,
}

/// Emit one content line of a triple-quoted literal. `last_inline`: the closer follows directly.
/// `after_opener`: the opener precedes directly.
fn emit_line(line: &[char], after_opener: bool, last_inline: bool, t: &mut Tape) -> String {
    let mut o = String::new();
    let n = line.len();
    let mut prev_was_quote = after_opener;
    for (j, &c) in line.iter().enumerate() {
        let next_is_quote = if j + 1 < n { line[j + 1] == '"' } else { last_inline };
        let leading = o.chars().all(|x| x == ' ');
        let mut quote_now = false;
        match c {
            '\\' => o.push_str("\\\\"),
            '\n' => o.push_str("\\n"),
            '"' => {
                // a raw quote must not touch another quote character (the closer scan is not escape-aware)
                if !prev_was_quote && !next_is_quote && t.n(3) != 0 {
                    o.push('"');
                } else if !next_is_quote && t.n(2) == 1 {
                    o.push_str("\\\"");
                } else {
                    o.push_str("\\x22");
                }
                quote_now = true;
            }
            '\t' => {
                if leading || t.n(2) == 0 {
                    o.push_str("\\t")
                } else {
                    o.push('\t')
                }
            }
            '\r' => {
                if t.n(2) == 0 {
                    o.push_str("\\r")
                } else {
                    o.push('\r')
                }
            }
            c if is_ctl(c) => {
                if t.n(2) == 0 {
                    o.push_str(&hex_escape(c))
                } else {
                    o.push(c)
                }
            }
            '\'' if t.n(4) == 3 => o.push_str("\\'"),
            c => o.push(c),
        }
        prev_was_quote = quote_now;
    }
    // a non-empty line must not look blank to the lexer
    if n > 0 && o.chars().all(|x| x.is_whitespace()) {
        let first = line[0];
        let rest: String = o.chars().skip(1).collect();
        o = format!("{}{rest}", match first {
            '\t' => "\\t".to_string(),
            '\r' => "\\r".to_string(),
            c => hex_escape(c),
        });
    }
    o
}

/// Triple-quoted literal of `text` laid out by the tape: which newlines are real line breaks,
/// opener residue or not, inline or own-line closer, common indent 0..8, padding of blank lines.
/// The layout obeys the stripping rule the tests document: the indent common to the non-blank
/// lines after the opener line is removed; at least one of them sits exactly at the closer's indent.
pub fn print_triple(text: &str, t: &mut Tape) -> (String, TripleInfo) {
    let mut info = TripleInfo::default();
    let indent = t.n(9);
    info.indent = indent;
    let pad = " ".repeat(indent);
    if text.is_empty() {
        info.source_lines = 1;
        return (format!("\"\"\"\n{pad}\"\"\""), info);
    }
    // 1. which newlines are real line breaks
    let mut lines: Vec<Vec<char>> = vec![vec![]];
    for c in text.chars() {
        if c == '\n' && t.n(4) != 0 {
            lines.push(vec![]);
        } else {
            lines.last_mut().unwrap().push(c);
        }
    }
    // leading blank lines are dropped by the language: write the first break as an escape instead
    while lines.len() > 1 && lines[0].is_empty() {
        let second = lines.remove(1);
        lines[0].push('\n');
        lines[0].extend(second);
    }
    let mut residue = t.n(2) == 1;
    let mut inline_closer = t.n(2) == 1;
    if lines.last().unwrap().is_empty() {
        inline_closer = false;
    }
    if lines[0].is_empty() {
        residue = false;
    }
    let k = lines.len();
    // 2. emit the lines
    let mut emitted: Vec<String> = vec![];
    for (i, l) in lines.iter().enumerate() {
        emitted.push(emit_line(l, i == 0 && residue, i + 1 == k && inline_closer, t));
    }
    // 3. the common indent must be unambiguous: some counted non-blank line starts at column `indent`
    let first_counted = if residue { 1 } else { 0 };
    let counted_nonblank: Vec<usize> = (first_counted..k).filter(|&i| !lines[i].is_empty()).collect();
    if !counted_nonblank.is_empty() && counted_nonblank.iter().all(|&i| emitted[i].starts_with(' ')) {
        let i = counted_nonblank[t.n(counted_nonblank.len())];
        emitted[i] = format!("\\x20{}", &emitted[i][1..]);
    }
    info.extra_indent_lines = counted_nonblank.iter().filter(|&&i| emitted[i].starts_with(' ')).count();
    // 4. assemble
    let mut o = String::from("\"\"\"");
    for i in 0..k {
        if i == 0 && residue {
            o.push_str(&emitted[0]);
            continue;
        }
        o.push('\n');
        if lines[i].is_empty() {
            info.blank_lines += 1;
            // a blank line may carry up to `indent` spaces
            o.push_str(&" ".repeat(t.n(indent + 1).min(if t.n(2) == 0 { 0 } else { indent })));
        } else {
            o.push_str(&pad);
            o.push_str(&emitted[i]);
        }
    }
    if inline_closer {
        o.push_str("\"\"\"");
    } else {
        o.push('\n');
        o.push_str(&pad);
        o.push_str("\"\"\"");
    }
    info.source_lines = k;
    info.residue = residue;
    info.inline_closer = inline_closer;
    (o, info)
}

pub fn print_str(text: &str, style: u8, knobs: &[u16]) -> (String, Option<TripleInfo>) {
    let mut t = Tape { data: knobs, pos: 0 };
    match style % 3 {
        0 => (print_quoted(text, '\'', &mut t), None),
        1 => (print_quoted(text, '"', &mut t), None),
        _ => {
            let (s, i) = print_triple(text, &mut t);
            (s, Some(i))
        }
    }
}

fn text_strategy() -> BoxedStrategy<String> {
    prop_oneof![
        6 => proptest::collection::vec(proptest::sample::select(ALPHABET.to_vec()), 0..24).prop_map(|v| v.into_iter().collect::<String>()),
        // line-structured text: words, indentation, blank lines
        3 => proptest::collection::vec((0usize..5, prop_oneof![3 => "[a-z\"' ]{0,6}", 1 => Just(String::new()), 1 => "[ ]{1,3}", 1 => "[a-z]{1,3}[\t ]{1,2}"]), 1..6)
            .prop_map(|ls| ls.into_iter().map(|(ind, w)| format!("{}{w}", " ".repeat(ind))).collect::<Vec<_>>().join("\n")),
        1 => string_strategy(10),
    ]
    .boxed()
}

fn str_case_strategy() -> BoxedStrategy<Lit> {
    (text_strategy(), 0u8..3, proptest::collection::vec(any::<u16>(), 0..40)).prop_map(|(text, style, knobs)| Lit::Str { text, style, knobs }).boxed()
}

// ---------------------------------------------------------------------------------------------

#[derive(Clone)]
pub enum Want {
    Out(String),
    /// float: compare bits after print -> parse
    Float(f64),
    Diag,
    /// the case is not a literal the property speaks about (malformed replay file)
    Skip,
}

pub fn want(c: &Lit) -> Want {
    match c {
        Lit::Int { text, form } => {
            if !valid_spelling(text) || text.contains('.') {
                return Want::Skip;
            }
            match int_expect(text) {
                Some(Ok(v)) => Want::Out(if form % 3 == 2 { format!("v={v}\n") } else { format!("{v}\n") }),
                Some(Err(())) => Want::Diag,
                None => Want::Skip,
            }
        }
        Lit::Float { text, .. } => {
            if !valid_spelling(text) {
                return Want::Skip;
            }
            match float_expect(text) {
                Some(Ok(v)) => Want::Float(v),
                Some(Err(())) => Want::Diag,
                None => Want::Skip,
            }
        }
        Lit::Str { text, .. } => Want::Out(text.clone()),
    }
}

pub fn body(c: &Lit) -> String {
    match c {
        Lit::Int { text, form } | Lit::Float { text, form } => match form % 3 {
            0 => format!("  println({text})"),
            1 => format!("  let x = {text}\n  println(x)"),
            _ => {
                if matches!(c, Lit::Int { .. }) {
                    format!("  println(\"v=\" .. {text})")
                } else {
                    format!("  let x = [{text}]\n  println(x[0])")
                }
            }
        },
        Lit::Str { text, style, knobs } => format!("  print({})", print_str(text, *style, knobs).0),
    }
}

fn kind(c: &Lit) -> &'static str {
    match c {
        Lit::Int { .. } => "int",
        Lit::Float { .. } => "float",
        Lit::Str { style, .. } => ["str-single", "str-double", "str-triple"][(*style % 3) as usize],
    }
}

fn nontrivial(c: &Lit, w: &Want) -> bool {
    match c {
        Lit::Int { text, .. } => text.contains('_') || matches!(w, Want::Diag) || int_expect(text).and_then(|r| r.ok()).map(|v| int_boundaries().contains(&v) && v.unsigned_abs() > 1000).unwrap_or(false),
        Lit::Float { text, .. } => text.contains('_') || text.len() > 20 || matches!(w, Want::Diag) || text.trim_start_matches('-').starts_with('0'),
        Lit::Str { text, style, knobs } => {
            let (src, info) = print_str(text, *style, knobs);
            match info {
                Some(i) => i.source_lines >= 2,
                None => src.contains('\\') && !text.is_ascii(),
            }
        }
    }
}

pub struct Literals;

impl Literals {
    /// judge cases that must compile, in one batch; falls back to singletons when the batch is rejected
    fn judge_batch(&self, cases: &[(usize, &Lit, Want)], env: &mut Env, st: &mut CaseStats, fails: &mut Vec<Failure>) -> Result<(), Verdict> {
        if cases.is_empty() {
            return Ok(());
        }
        let bodies: Vec<String> = cases.iter().map(|(_, c, _)| body(c)).collect();
        let (src, outs) = match run_batch(env, "", &bodies, &RunOpts::default()) {
            Exec::Ok(v) => v,
            Exec::Abort(f) => return Err(Verdict::Fail(f)),
            Exec::Inconclusive(s) => return Err(Verdict::Inconclusive(s)),
        };
        if outs.len() != cases.len() {
            if cases.len() > 1 {
                // one literal broke the whole compilation unit: find it
                for c in cases {
                    let one = [(c.0, c.1, c.2.clone())];
                    self.judge_batch(&one, env, st, fails)?;
                }
                return Ok(());
            }
            let r = &outs[0];
            let c = cases[0].1;
            let f = match crash_failure(r) {
                Some(f) => f,
                None => Failure::new("VerdictMismatch", format!("valid {} literal rejected: {}", kind(c), diag_line(&r.compile))),
            };
            fails.push(f.feat(format!("kind:{}", kind(c))).feats(features(c)).detail(json!({"case": c, "src": src})));
            return Ok(());
        }
        for ((_, c, w), r) in cases.iter().zip(outs.iter()) {
            let fail = if let Some(f) = crash_failure(r) {
                Some(f)
            } else if !matches!(r.end, RunEnd::Done) {
                Some(Failure::new("OutcomeMismatch", format!("{} literal program did not finish: {}", kind(c), format!("{:?}", r.end).chars().take(120).collect::<String>())))
            } else {
                match w {
                    Want::Out(exp) => {
                        if &r.stdout == exp {
                            None
                        } else {
                            Some(Failure::new("OutcomeMismatch", format!("{} literal: expected {:?} got {:?}", kind(c), excerpt(exp), excerpt(&r.stdout))))
                        }
                    }
                    Want::Float(v) => match parse_printed_float(r.stdout.trim_end_matches('\n')) {
                        Some(g) if fbits_eq(g, *v) => None,
                        Some(g) => Some(Failure::new("OutcomeMismatch", format!("float literal: expected {v:?} (bits {:#x}) got {g:?} (bits {:#x})", v.to_bits(), g.to_bits()))),
                        None => Some(Failure::new("OutcomeMismatch", format!("float literal: unparseable output {:?}", excerpt(&r.stdout)))),
                    },
                    _ => unreachable!(),
                }
            };
            if let Some(f) = fail {
                fails.push(f.feat(format!("kind:{}", kind(c))).feats(features(c)).detail(json!({"case": c, "body": body(c), "stdout": r.stdout})));
            }
            if st.sample.is_none() && nontrivial(c, w) {
                st.sample = Some(json!({"body": body(c), "stdout": r.stdout}));
            }
        }
        Ok(())
    }
}

fn excerpt(s: &str) -> String {
    s.chars().take(80).collect()
}

fn diag_line(v: &FrontVerdict) -> String {
    match v {
        FrontVerdict::Diag(d) => norm_msg(d.lines().find(|l| !l.trim().is_empty()).unwrap_or("")),
        other => format!("{other:?}").chars().take(120).collect(),
    }
}

fn features(c: &Lit) -> Vec<String> {
    let mut v = vec![];
    match c {
        Lit::Int { text, .. } | Lit::Float { text, .. } => {
            if text.contains('_') {
                v.push("underscore".into());
            }
            if text.starts_with('-') {
                v.push("negative".into());
            }
            if matches!(want(c), Want::Diag) {
                v.push("out-of-range".into());
            }
        }
        Lit::Str { text, style, knobs } => {
            if let (_, Some(i)) = print_str(text, *style, knobs) {
                v.push(format!("residue:{}", i.residue));
                v.push(format!("inline-closer:{}", i.inline_closer));
                v.push(format!("indent:{}", i.indent));
            }
            for (c, name) in [('\r', "cr"), ('\t', "tab"), ('"', "dquote"), ('\'', "squote"), ('\\', "backslash")] {
                if text.contains(c) {
                    v.push(format!("has:{name}"));
                }
            }
        }
    }
    v
}

impl Prop for Literals {
    type Case = Vec<Lit>;
    fn name(&self) -> &'static str {
        "literals"
    }
    fn rule(&self) -> &'static str {
        "one case = a value and a harness-printed literal spelling of it: int (random `_` between digits, leading zeros, optional `-`, three use forms; out-of-range magnitudes expect a diagnostic), float (digits.digits with the same freedom; expected = Rust str::parse::<f64> of the text without `_`, compared by bits after print->parse; magnitudes that round to infinity expect a diagnostic), string (text over letters, quotes, backslash, newline, tab, CR, control bytes, 2/3/4-byte characters, printed single-, double- or triple-quoted with random raw/escaped choices; triple-quoted: random line breaks vs \\n, opener residue or not, inline or own-line closer, common indent 0..8, padded blank lines, extra indent); the program prints the literal and the output must equal the value; non-trivial = number with `_`, at a boundary or out of range; quoted string with >= 1 escape and >= 1 non-ASCII character; triple-quoted string with >= 2 source lines; distinct by (value, spelling)"
    }
    fn n_cases(&self, tier: Tier) -> u32 {
        tier.pick(600, 6000)
    }
    fn strategy(&self, _tier: Tier, _f: &Findings) -> BoxedStrategy<Self::Case> {
        let one = prop_oneof![2 => int_case_strategy(), 2 => float_case_strategy(), 5 => str_case_strategy()];
        proptest::collection::vec(one, 1..60).boxed()
    }
    fn fixed_cases(&self, _tier: Tier, _f: &Findings) -> Vec<Self::Case> {
        let mut all = vec![];
        for (i, n) in int_boundaries().into_iter().enumerate() {
            let mag = (n as i128).unsigned_abs().to_string();
            for (k, mask) in [0u64, u64::MAX, 0x4924_9249_2492_4924].into_iter().enumerate() {
                let t = spell(&mag, mask, if k == 1 { 2 } else { 0 });
                all.push(Lit::Int { text: if n < 0 { format!("-{t}") } else { t }, form: ((i + k) % 3) as u8 });
            }
        }
        for t in ["9223372036854775808", "-9223372036854775809", "18446744073709551616", "1_8446744073709551616", "1234567890123456789012345678901234567890", "-1234567890123456789012345678901234567890", "0009223372036854775808", "00000000000000000000000000000000000000001", "-00", "0_0"] {
            all.push(Lit::Int { text: t.to_string(), form: 0 });
        }
        for (i, x) in float_boundaries().into_iter().enumerate() {
            let t = float_lit_plain(x.abs());
            let t = if x.is_sign_negative() { format!("-{t}") } else { t };
            all.push(Lit::Float { text: t.clone(), form: (i % 3) as u8 });
            let (a, b) = t.trim_start_matches('-').split_once('.').unwrap();
            let u = format!("{}{}.{}", if x.is_sign_negative() { "-" } else { "" }, spell(a, 0x2222_2222_2222_2222, 1), spell(b, 0x4444_4444_4444_4444, 0));
            all.push(Lit::Float { text: u, form: ((i + 1) % 3) as u8 });
        }
        let max = float_lit_plain(f64::MAX);
        let big = format!("1{}.0", "0".repeat(400));
        // the largest decimal that still rounds to MAX, and the smallest that rounds to infinity
        let edge_in = format!("{}.0", "179769313486231580793728971405303415079934132710037826936173778980444968292764750946649017977587207096330286416692887910946555547851940402630657488671505820681908902000708383676273854845817711531764475730270069855571366959622842914819860834936475292719074168444365510704342711559699508093042880177904174497791");
        let edge_out = format!("{}.0", "179769313486231580793728971405303415079934132710037826936173778980444968292764750946649017977587207096330286416692887910946555547851940402630657488671505820681908902000708383676273854845817711531764475730270069855571366959622842914819860834936475292719074168444365510704342711559699508093042880177904174497792");
        for t in [max.clone(), format!("-{max}"), big.clone(), format!("-{big}"), edge_in, edge_out, "1.0".into(), "1.00".into(), "01.0".into(), "001.5".into(), "1_0.5".into(), "1_000.000_1".into(), "0.1".into(), "0.30000000000000004".into(), "9007199254740993.0".into(), format!("0.{}1", "0".repeat(400)), "-0.0".into(), "0.0".into()] {
            all.push(Lit::Float { text: t, form: 1 });
        }
        // strings: interesting texts x styles x a few knob settings
        let mut texts: Vec<String> = interesting_strings();
        for t in ["it's", "say \"hi\"", "a\\nb", "tab\there", "cr\rlf\n", "\u{0}\u{1}\u{7f}", "hello\nworld", "hello\n\nworld", "hello\n    world", "a\n", "\na", "\n", "\n\n", " ", "  x", "x  ", "\"", "\"\"", "\"\"\"", "\"\"\"\"", "a\"", "\"a", "'", "\\", "\\\\", "\\x41", "\\\"", "x\n  \ny", "  a\n b\n   c", "é\nλ\n日\n😀", "end\\", "q\"\"q", "\t\tx", "a\n\t\nb", "  ", "a\n  "] {
            texts.push(t.to_string());
        }
        let knob_sets: Vec<Vec<u16>> = vec![vec![], vec![65535; 40], vec![40000; 40], (0..40).map(|i| (i * 7919 % 65536) as u16).collect(), (0..40).map(|i| (65535 - i * 4099 % 65536) as u16).collect()];
        for t in &texts {
            for style in 0u8..3 {
                for k in &knob_sets {
                    all.push(Lit::Str { text: t.clone(), style, knobs: k.clone() });
                }
            }
        }
        all.chunks(60).map(|c| c.to_vec()).collect()
    }
    fn split(&self, case: &Self::Case) -> Vec<Self::Case> {
        case.iter().map(|c| vec![c.clone()]).collect()
    }
    fn judge(&self, cases: &Self::Case, env: &mut Env) -> Verdict {
        let mut st = CaseStats::default();
        let mut fails: Vec<Failure> = vec![];
        let mut batch = vec![];
        for (i, c) in cases.iter().enumerate() {
            let w = want(c);
            if matches!(w, Want::Skip) {
                continue;
            }
            st.evals += 1;
            st.label(format!("kind:{}", kind(c)));
            if nontrivial(c, &w) {
                st.nt(c);
            }
            if let Lit::Str { text, style, knobs } = c {
                if let (_, Some(info)) = print_str(text, *style, knobs) {
                    st.label(format!("triple:lines:{}", info.source_lines.min(4)));
                    st.label(format!("triple:residue:{}:inline-closer:{}", info.residue, info.inline_closer));
                    if info.blank_lines > 0 {
                        st.label("triple:blank-line");
                    }
                    if info.extra_indent_lines > 0 {
                        st.label("triple:extra-indent");
                    }
                }
            }
            match w {
                Want::Diag => {
                    st.label("expect:diagnostic");
                    let src = format!("{}\n", body(c).trim_start());
                    let (chk, cmp) = try_exec!(env.front(&single(src.clone()), "main.abra", true, true));
                    let mut fail = None;
                    for (which, v) in [("check", &chk), ("compile", &cmp)] {
                        match v {
                            FrontVerdict::Panic(p) => {
                                fail = Some(Failure::new("HostPanic", norm_msg(&p.msg)).feat(format!("file:{}", base(&p.file))).feat(format!("phase:{which}")));
                                break;
                            }
                            FrontVerdict::Diag(_) => {}
                            _ => {
                                fail = Some(Failure::new("VerdictMismatch", format!("out-of-range {} literal accepted by {which}", kind(c))));
                                break;
                            }
                        }
                    }
                    if let Some(f) = fail {
                        fails.push(f.feat(format!("kind:{}", kind(c))).feats(features(c)).detail(json!({"case": c, "src": src})));
                    }
                    if st.sample.is_none() {
                        st.sample = Some(json!({"src": src, "check": diag_line(&chk)}));
                    }
                }
                other => batch.push((i, c, other)),
            }
        }
        if let Err(v) = self.judge_batch(&batch, env, &mut st, &mut fails) {
            return v;
        }
        let mut first_fail = None;
        for f in fails {
            match env.findings.attribute(&f) {
                Some(k) => st.known_hits.push(k),
                None => {
                    if first_fail.is_none() {
                        first_fail = Some(f);
                    }
                }
            }
        }
        match first_fail {
            Some(f) => Verdict::Fail(f),
            None => Verdict::Pass(st),
        }
    }
}

pub fn run(ctx: &mut Ctx) {
    ctx.assume("a numeric literal is digits (with `_` only between digits), for floats digits `.` digits, optionally preceded by `-`; there is no exponent syntax; other placements of `_` are not generated");
    ctx.assume("a float literal is out of range when its nearest binary64 value is infinite; tiny magnitudes round to zero and are in range");
    ctx.assume("triple-quoted strings follow the pinned multiline_string_* tests: the opener line (if not blank) is kept as is; the indent common to the later non-blank lines is removed; a blank first line and a blank closer line are dropped; layouts the tests do not pin down (blank-looking content lines, tabs in indentation, adjacent raw quotes) are never generated: such characters are written as escapes");
    ctx.assume("escapes: \\n \\t \\r \\\" \\' \\\\ \\xNN (NN < 80 hex); raw newlines are only used inside triple-quoted strings");
    ctx.prop(&crate::g::srccase::SrcProp { name: "program" });
    ctx.prop(&Literals);
}
