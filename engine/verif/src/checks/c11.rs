//! C11 — the runtime reports completion, errors and host calls truthfully.
//! Invariants over the history of run_n_steps calls.

use crate::checks::c02::{compare, final_kind, tape_strategy};
use crate::g::prog::*;
use crate::g::progen::*;
use crate::g::values::*;
use crate::harness::*;
use crate::proto::*;
use crate::try_exec;
use proptest::prelude::*;
use serde::{Deserialize, Serialize};
use serde_json::json;

#[derive(Clone, Debug, Serialize, Deserialize)]
pub struct StatusCase {
    pub tape: Vec<u16>,
    pub flags: Flags,
    pub budgets: Vec<Vec<u32>>,
}

fn check_log(r: &RunOut, allow_zero: bool) -> Result<(), String> {
    for (i, c) in r.call_log.iter().enumerate() {
        if c.consumed > c.budget {
            return Err(format!("call {i}: budget {} but steps_consumed {}", c.budget, c.consumed));
        }
        if c.budget == 0 && c.consumed != 0 && !allow_zero {
            return Err(format!("call {i}: budget 0 consumed {}", c.consumed));
        }
        let last = i + 1 == r.call_log.len();
        if (c.status == 'D' || c.status == 'E') && !last {
            return Err(format!("call {i}: terminal status {} reported before the last call", c.status));
        }
    }
    Ok(())
}

pub struct Accounting;

impl Prop for Accounting {
    type Case = StatusCase;
    fn name(&self) -> &'static str {
        "status_accounting"
    }
    fn rule(&self) -> &'static str {
        "one case = a generated task-free program run under several budget sequences (including budget 0 entries) with every run_n_steps call recorded; invariants: steps_consumed <= budget on every call; the total number of steps to completion is the same for every slicing; a terminal status (Done / MainThreadError) is only the last status and persists on 3 further calls; after Done the reported value equals the reference final value; an error is reported with the reference kind and never as Done; non-trivial = >= 3 calls and a status other than OutOfSteps before the end; distinct by program text"
    }
    fn n_cases(&self, tier: Tier) -> u32 {
        tier.pick(6000, 60000)
    }
    fn strategy(&self, tier: Tier, _f: &Findings) -> BoxedStrategy<Self::Case> {
        let fl = Flags::core(tier.pick(10, 20), 3);
        let b = prop_oneof![4 => 1u32..6, 2 => 0u32..2, 2 => 1u32..100, 1 => 1u32..100_000];
        (tape_strategy(tier.pick(350, 800)), proptest::collection::vec(proptest::collection::vec(b, 1..6).prop_filter("some progress", |v| v.iter().any(|x| *x > 0)), 2..5))
            .prop_map(move |(tape, budgets)| StatusCase { tape, flags: fl.clone(), budgets })
            .boxed()
    }
    fn judge(&self, c: &Self::Case, env: &mut Env) -> Verdict {
        let prog = generate(&c.tape, &c.flags);
        let src = print_prog(&prog);
        let reference = run_reference(&prog);
        let opts = RunOpts { want_final: final_kind(&prog), max_steps: 300_000, record_calls: true, extra_calls_after_end: 3, ..RunOpts::default() };
        let mut variants = vec![Variant { budgets: vec![1_000_000], ..Variant::sel(0) }, Variant { budgets: vec![1], ..Variant::sel(0) }];
        for b in &c.budgets {
            variants.push(Variant { budgets: b.clone(), ..Variant::sel(0) });
        }
        let outs = try_exec!(env.run_var(&single(src.clone()), "main.abra", &opts, &variants));
        let mut st = CaseStats::one();
        st.evals = outs.len() as u64;
        let feats = || prog.labels.iter().map(|l| format!("uses:{l}")).collect::<Vec<_>>();
        if !outs[0].compile.is_ok() || outs.iter().any(|r| matches!(r.end, RunEnd::Cap)) || matches!(reference.end, RefEnd::Unspecified(_)) {
            if let Some(f) = crash_failure(&outs[0]) {
                return Verdict::Fail(f.feats(feats()).detail(json!({"src": src})));
            }
            st.discarded = 1;
            return Verdict::Pass(st);
        }
        let total0 = outs[0].steps;
        for (i, r) in outs.iter().enumerate() {
            let sched = format!("{:?}", variants[i].budgets);
            if let Some(f) = crash_failure(r) {
                return Verdict::Fail(f.feats(feats()).feat(format!("sched:{sched}")).detail(json!({"src": src})));
            }
            let fail = |m: String| Verdict::Fail(Failure::new("OutcomeMismatch", m).feats(feats()).feat(format!("sched:{sched}")).detail(json!({"src": src, "call_log_tail": r.call_log.iter().rev().take(6).collect::<Vec<_>>(), "after_end": r.after_end})));
            if let Err(m) = check_log(r, false) {
                return fail(m);
            }
            if r.steps != total0 {
                return fail(format!("total steps to completion differ: {} with one big budget, {} with budgets {sched}", total0, r.steps));
            }
            if let Some(m) = compare(r, &reference) {
                return fail(format!("reported result differs from the reference: {m}"));
            }
            let want = match r.end {
                RunEnd::Done => 'D',
                RunEnd::Error { .. } => 'E',
                _ => '?',
            };
            if r.after_end.iter().any(|s| *s != want) {
                return fail(format!("terminal status {want} does not persist: later calls report {:?}", r.after_end));
            }
            // the runner records at most 4096 calls; only a complete log ends with the terminal status
            if r.calls as usize == r.call_log.len() && r.call_log.last().map(|c| c.status) != Some(want) {
                return fail("last recorded status is not the terminal one".into());
            }
        }
        let r1 = &outs[1];
        if r1.call_log.len() >= 3 && r1.call_log.iter().any(|c| c.status == 'H') {
            st.nt(&src);
            st.sample = Some(json!({"src": src, "total_steps": total0, "calls_with_budget_1": r1.calls, "end": format!("{:?}", reference.end)}));
        }
        st.label(match &reference.end {
            RefEnd::Done => "end:done".to_string(),
            RefEnd::Error(e) => format!("end:{e:?}"),
            _ => "end:?".into(),
        });
        Verdict::Pass(st)
    }
}

/// pending host calls expose exactly the call's arguments and resume with the host's value
#[derive(Clone, Debug, Serialize, Deserialize)]
pub struct HostCase {
    pub sigs: Vec<(Vec<ScalarTy>, ScalarTy)>,
    /// calls: (sig index, arguments, value the host returns)
    pub calls: Vec<(u16, Vec<Scalar>, Scalar)>,
    pub budgets: Vec<u32>,
    pub delays: Vec<u8>,
}

fn sty(t: &ScalarTy) -> &'static str {
    match t {
        ScalarTy::Int => "int",
        ScalarTy::Float => "float",
        ScalarTy::Bool => "bool",
        ScalarTy::Str => "string",
        ScalarTy::Void => "void",
    }
}

fn slit(v: &Scalar) -> String {
    match v {
        Scalar::Int(n) => int_lit(*n),
        Scalar::Float(b) => float_lit_plain(f64::from_bits(*b)),
        Scalar::Bool(b) => b.to_string(),
        Scalar::Str(s) => str_lit(s),
        Scalar::Void => "nil".into(),
    }
}

fn scalar_of(t: &ScalarTy) -> BoxedStrategy<Scalar> {
    match t {
        ScalarTy::Int => int_strategy().prop_map(Scalar::Int).boxed(),
        ScalarTy::Float => float_strategy().prop_map(|x| Scalar::Float(x.to_bits())).boxed(),
        ScalarTy::Bool => any::<bool>().prop_map(Scalar::Bool).boxed(),
        ScalarTy::Str => string_strategy(8).prop_filter("no newline", |s| !s.contains('\n')).prop_map(Scalar::Str).boxed(),
        ScalarTy::Void => Just(Scalar::Void).boxed(),
    }
}

pub struct HostCalls;

impl Prop for HostCalls {
    type Case = HostCase;
    fn name(&self) -> &'static str {
        "host_calls"
    }
    fn rule(&self) -> &'static str {
        "one case = 1..4 declared #host functions with 0..6 scalar parameters (int, float, bool, string) and a scalar or void result, called with known literal arguments; at each PendingHostFunc the runner pops the arguments through the public API: they must equal the call's arguments in order, and the value pushed back must be the value the program then prints; non-trivial = a call with >= 2 arguments of different types; distinct by case"
    }
    fn n_cases(&self, tier: Tier) -> u32 {
        tier.pick(3000, 30000)
    }
    fn strategy(&self, _tier: Tier, _f: &Findings) -> BoxedStrategy<Self::Case> {
        let ty = prop_oneof![3 => Just(ScalarTy::Int), 2 => Just(ScalarTy::Str), 2 => Just(ScalarTy::Bool), 2 => Just(ScalarTy::Float)];
        let ret = prop_oneof![3 => Just(ScalarTy::Int), 2 => Just(ScalarTy::Str), 1 => Just(ScalarTy::Bool), 1 => Just(ScalarTy::Float), 1 => Just(ScalarTy::Void)];
        let sig = (proptest::collection::vec(ty, 0..=6), ret);
        proptest::collection::vec(sig, 1..=4)
            .prop_flat_map(|sigs| {
                let n = sigs.len();
                let sigs2 = sigs.clone();
                let call = (0..n).prop_flat_map(move |i| {
                    let (args, ret) = sigs2[i].clone();
                    let a: Vec<BoxedStrategy<Scalar>> = args.iter().map(scalar_of).collect();
                    (Just(i as u16), a, scalar_of(&ret))
                });
                (Just(sigs), proptest::collection::vec(call, 1..8), proptest::collection::vec(prop_oneof![1u32..5, 1u32..500], 1..4), proptest::collection::vec(0u8..4, 0..3))
            })
            .prop_map(|(sigs, calls, budgets, delays)| HostCase { sigs, calls, budgets, delays })
            .boxed()
    }
    fn judge(&self, c: &Self::Case, env: &mut Env) -> Verdict {
        let mut src = String::new();
        let mut host = vec![];
        for (i, (args, ret)) in c.sigs.iter().enumerate() {
            let ps = args.iter().enumerate().map(|(j, t)| format!("p{j}: {}", sty(t))).collect::<Vec<_>>().join(", ");
            src.push_str(&format!("#host\nfn hostfn_{i}({ps}) -> {}\n\n", sty(ret)));
            let returns: Vec<Scalar> = c.calls.iter().filter(|k| k.0 as usize == i).map(|k| k.2.clone()).collect();
            host.push(HostDecl { name: format!("hostfn_{i}"), args: args.clone(), ret: ret.clone(), returns: if matches!(ret, ScalarTy::Void) { vec![] } else { returns } });
        }
        let mut expected = String::new();
        for (k, (i, args, ret)) in c.calls.iter().enumerate() {
            let a = args.iter().map(slit).collect::<Vec<_>>().join(", ");
            if matches!(c.sigs[*i as usize].1, ScalarTy::Void) {
                src.push_str(&format!("hostfn_{i}({a})\nprintln(\"v{k}\")\n"));
                expected.push_str(&format!("v{k}\n"));
            } else if matches!(ret, Scalar::Float(_)) {
                // float text is not specified: compare through equality with the literal
                src.push_str(&format!("let r{k} = hostfn_{i}({a})\nprintln(r{k} == {})\n", slit(ret)));
                expected.push_str("true\n");
            } else {
                src.push_str(&format!("let r{k} = hostfn_{i}({a})\nprintln(r{k})\n"));
                expected.push_str(&match ret {
                    Scalar::Int(n) => format!("{n}\n"),
                    Scalar::Bool(b) => format!("{b}\n"),
                    Scalar::Str(s) => format!("{s}\n"),
                    _ => "\n".into(),
                });
            }
        }
        let opts = RunOpts { budgets: c.budgets.clone(), delays: c.delays.clone(), host, record_calls: true, ..RunOpts::default() };
        let r = try_exec!(env.run1(&src, &opts));
        let mut st = CaseStats::one();
        st.evals = c.calls.len() as u64;
        if let Some(f) = crash_failure(&r) {
            return Verdict::Fail(f.detail(json!({"src": src})));
        }
        if let FrontVerdict::Diag(d) = &r.compile {
            return Verdict::Fail(Failure::new("VerdictMismatch", format!("host-call program rejected: {}", norm_msg(d.lines().find(|l| !l.trim().is_empty()).unwrap_or("")))).detail(json!({"src": src, "diag": d})));
        }
        let fail = |m: String| Verdict::Fail(Failure::new("OutcomeMismatch", m).detail(json!({"src": src, "host_log": r.host_log, "stdout": r.stdout, "expected_stdout": expected})));
        if !matches!(r.end, RunEnd::Done) {
            return fail(format!("program did not complete: {:?}", r.end).chars().take(200).collect());
        }
        if let Err(m) = check_log(&r, false) {
            return fail(m);
        }
        if r.host_log.len() != c.calls.len() {
            return fail(format!("{} host calls observed, {} made", r.host_log.len(), c.calls.len()));
        }
        for (k, ((i, args, _), seen)) in c.calls.iter().zip(r.host_log.iter()).enumerate() {
            if seen.name != format!("hostfn_{i}") || &seen.args != args {
                return fail(format!("host call {k}: expected hostfn_{i}{args:?}, the host saw {}{:?}", seen.name, seen.args));
            }
        }
        if r.stdout != expected {
            return fail("values returned by the host are not what the program received".into());
        }
        let nt = c.calls.iter().any(|(_, a, _)| a.len() >= 2 && a.iter().any(|x| std::mem::discriminant(x) != std::mem::discriminant(&a[0])));
        if nt {
            st.nt(&src);
            st.sample = Some(json!({"src": src, "host_log": r.host_log.iter().take(2).collect::<Vec<_>>()}));
        }
        Verdict::Pass(st)
    }
}

/// completion is reported as soon as the main program finishes, whatever other tasks do
#[derive(Clone, Debug, Serialize, Deserialize)]
pub struct DoneCase {
    /// per task: 0 = blocked forever on an empty channel, 1 = infinite loop, 2 = finishes, 3 = prints forever
    pub tasks: Vec<u8>,
    pub main_work: u8,
    pub budgets: Vec<u32>,
    pub final_value: i64,
}

pub struct DoneWithTasks;

impl Prop for DoneWithTasks {
    type Case = DoneCase;
    fn name(&self) -> &'static str {
        "done_with_tasks"
    }
    fn rule(&self) -> &'static str {
        "one case = a main program that spawns 1..4 tasks (blocked forever on a channel read / looping forever / finishing / writing forever to a channel nobody reads), does a bounded amount of work and ends in an int expression; under every generated budget sequence the run must report Done, with the final value, never an error, and after at most 10 x (tasks + 1) + 20 more executed instructions than the same program needs at budget 1 (completion is reported as soon as main finishes, not when the slice is used up; the slack covers the shift of the round-robin rotation at slice boundaries); non-trivial = at least one task that never finishes; distinct by case"
    }
    fn n_cases(&self, tier: Tier) -> u32 {
        tier.pick(1500, 15000)
    }
    fn strategy(&self, _tier: Tier, _f: &Findings) -> BoxedStrategy<Self::Case> {
        (proptest::collection::vec(0u8..4, 1..5), 0u8..20, proptest::collection::vec(prop_oneof![1u32..4, 1u32..50, 1u32..2000, 500u32..100_000], 1..4), -1000i64..1000)
            .prop_map(|(tasks, main_work, budgets, final_value)| DoneCase { tasks, main_work, budgets, final_value })
            .boxed()
    }
    fn judge(&self, c: &Self::Case, env: &mut Env) -> Verdict {
        let mut src = String::from("let never: channel<int> = channel()\nlet sink: channel<int> = channel()\n");
        for t in &c.tasks {
            match t {
                0 => src.push_str("task {\n  let x = never.read()\n  println(x)\n}\n"),
                1 => src.push_str("task {\n  var i = 0\n  while true {\n    i = (i + 1) % 1000\n  }\n}\n"),
                2 => src.push_str("task {\n  var s = 0\n  for i in 5 {\n    s += i\n  }\n}\n"),
                _ => src.push_str("task {\n  var i = 0\n  while true {\n    i = (i + 1) % 1000\n    sink.write(i)\n    let y = sink.read()\n  }\n}\n"),
            }
        }
        // main makes no host call: while a host call is pending the other tasks use up the rest of the slice,
        // so the instruction count up to Done would legitimately depend on the budgets
        src.push_str(&format!("var acc = 0\nfor i in {} {{\n  acc += i\n}}\n{} + acc\n", c.main_work, int_lit(c.final_value)));
        let w = c.main_work as i64;
        let expected = String::new();
        let final_expected = c.final_value + w * (w - 1) / 2;
        let opts = RunOpts { budgets: c.budgets.clone(), want_final: FinalKind::Int, max_steps: 2_000_000, max_calls: 2_000_000, extra_calls_after_end: 2, record_calls: true, ..RunOpts::default() };
        // the same program at budget 1 is the reference for "as soon as the main program finishes"
        let outs = try_exec!(env.run_var(&single(src.clone()), "main.abra", &opts, &[Variant::sel(0), Variant { budgets: vec![1], ..Variant::sel(0) }]));
        let (r, base) = (outs[0].clone(), outs[1].clone());
        let mut st = CaseStats::one();
        st.evals = 2;
        if let Some(f) = crash_failure(&r) {
            return Verdict::Fail(f.detail(json!({"src": src})));
        }
        if !r.compile.is_ok() {
            return Verdict::Fail(Failure::new("VerdictMismatch", format!("task program rejected: {:?}", r.compile).chars().take(300).collect::<String>()).detail(json!({"src": src})));
        }
        let fail = |m: String| Verdict::Fail(Failure::new("OutcomeMismatch", m).detail(json!({"src": src, "end": format!("{:?}", r.end).chars().take(200).collect::<String>(), "steps": r.steps, "stdout": r.stdout})));
        if !matches!(r.end, RunEnd::Done) {
            return fail("completion of the main program was not reported although other tasks cannot stop it".into());
        }
        if r.stdout != expected {
            return fail(format!("main task output {:?}, expected {:?}", r.stdout, expected));
        }
        if r.final_value != Some(Scalar::Int(final_expected)) {
            return fail(format!("final value {:?}, expected {}", r.final_value, final_expected));
        }
        if r.after_end.iter().any(|s| *s != 'D') {
            return fail(format!("Done does not persist: {:?}", r.after_end));
        }
        if let Err(m) = check_log(&r, false) {
            return fail(m);
        }
        // where a slice boundary falls shifts the round-robin rotation a little (a few instructions per
        // task on the unchanged tree); running on until the slice is used up costs far more than that
        let slack = 10 * (c.tasks.len() as u64 + 1) + 20;
        if matches!(base.end, RunEnd::Done) && r.steps > base.steps + slack {
            return fail(format!("completion is not reported as soon as the main program finishes: Done after {} instructions at budgets {:?}, after {} at budget 1 (allowed difference {slack})", r.steps, c.budgets, base.steps));
        }
        if c.tasks.iter().any(|t| *t != 2) {
            st.nt(&(c.tasks.clone(), c.main_work, c.budgets.clone()));
            st.sample = Some(json!({"src": src, "steps": r.steps, "calls": r.calls}));
        }
        Verdict::Pass(st)
    }
}

pub fn run(ctx: &mut Ctx) {
    ctx.assume("the total step count is only required to be slicing-independent for task-free programs");
    ctx.assume("host arguments are popped through the public VmType / pop_* API in reverse declaration order, as generated bindings do");
    ctx.prop(&Accounting);
    ctx.prop(&HostCalls);
    ctx.prop(&DoneWithTasks);
}
