//! C07 — unreachable memory is reclaimed and a dropped runtime frees everything.
//! (a) metamorphic bound: a loop with bounded live data and unbounded garbage must not need more heap
//!     when it runs 8x longer; (b) histories of create / run / drop with a counting allocator: live
//!     bytes return exactly to the baseline after every drop; (c) a runtime that has run 8x as many
//!     finished tasks must not hold more memory.

use crate::harness::*;
use crate::proto::*;
use crate::try_exec;
use proptest::prelude::*;
use serde::{Deserialize, Serialize};
use serde_json::{Value, json};

#[derive(Clone, Debug, Serialize, Deserialize)]
pub struct ChurnCase {
    /// garbage shapes used in the loop body (indices into SHAPES)
    pub shapes: Vec<u8>,
    /// number of live cells kept across iterations
    pub live: u8,
    pub n: u32,
}

const SHAPES: [&str; 8] = [
    "  let s = \"x\" .. i .. \"-\" .. i\n  keep[i % keep.len()] = s\n",
    "  let a = [i, i + 1, i + 2, i + 3]\n  total = total + a.len()\n",
    "  let t = (i, \"t\" .. i, [i])\n  match t {\n    (_, _, arr) -> { total = total + arr.len() }\n  }\n",
    "  let r = Rec(i, [i, i])\n  r.arr.push(i)\n  total = total + r.arr.len()\n",
    "  let o = option.some(\"o\" .. i)\n  match o {\n    .some(s) -> { keep[0] = s }\n    .none -> {}\n  }\n",
    "  let f = (q: int) -> q + i\n  total = total + f(1) - i\n",
    "  var acc = \"\"\n  for j in 8 {\n    acc = acc .. j\n  }\n  keep[(i + 1) % keep.len()] = acc\n",
    "  let grid = [[i], [i, i], [i, i, i]]\n  grid[0].push(1)\n  total = total + grid[2].len()\n",
];

fn churn_program(c: &ChurnCase, n: u32) -> String {
    let mut s = String::from("type Rec = {\n  x: int\n  arr: array<int>\n}\n\nlet keep: array<string> = []\n");
    for k in 0..c.live.max(1) {
        s.push_str(&format!("keep.push(\"k{k}\")\n"));
    }
    s.push_str(&format!("var total = 0\nfor i in {n} {{\n"));
    for sh in &c.shapes {
        s.push_str(SHAPES[*sh as usize % SHAPES.len()]);
    }
    s.push_str("}\nprintln(total)\nprintln(keep.len())\n");
    s
}

pub struct BoundedHeap;

impl Prop for BoundedHeap {
    type Case = ChurnCase;
    fn name(&self) -> &'static str {
        "bounded_heap"
    }
    fn rule(&self) -> &'static str {
        "one case = a loop whose body allocates garbage of 1..5 generated shapes (strings, arrays, tuples, structs, options, closures, nested arrays) while keeping a fixed number of live strings; it runs n and 8n iterations under the default collector; peak heap (hook H4) with 8n iterations must be <= 1.5 x peak with n iterations + 64 KiB, both runs must complete >= 2 collection cycles, and the 8n run must free >= 4x as many objects; non-trivial = garbage allocated is >= 20x the live data (objects freed >= 20 x live objects at the end); distinct by case"
    }
    fn n_cases(&self, tier: Tier) -> u32 {
        tier.pick(600, 6000)
    }
    fn strategy(&self, tier: Tier, _f: &Findings) -> BoxedStrategy<Self::Case> {
        (proptest::collection::vec(0u8..8, 1..6), 1u8..8, tier.pick(300u32..800, 500u32..3000)).prop_map(|(shapes, live, n)| ChurnCase { shapes, live, n }).boxed()
    }
    fn judge(&self, c: &Self::Case, env: &mut Env) -> Verdict {
        let opts = RunOpts { max_steps: 200_000_000, ..RunOpts::default() };
        let (p1, p8) = (churn_program(c, c.n), churn_program(c, c.n * 8));
        let r1 = try_exec!(env.run1(&p1, &opts));
        let r8 = try_exec!(env.run1(&p8, &opts));
        let mut st = CaseStats::one();
        st.evals = 2;
        for (r, src) in [(&r1, &p1), (&r8, &p8)] {
            if let Some(f) = crash_failure(r) {
                return Verdict::Fail(f.detail(json!({"src": src})));
            }
            if !r.compile.is_ok() || !matches!(r.end, RunEnd::Done) {
                return Verdict::Fail(Failure::new("VerdictMismatch", format!("churn program did not run to completion: {:?} / {:?}", r.compile, r.end).chars().take(300).collect::<String>()).detail(json!({"src": src})));
            }
        }
        let detail = json!({"src_n": p1, "n": c.n, "peak_n": r1.stats.peak_heap, "peak_8n": r8.stats.peak_heap, "cycles_n": r1.stats.cycles_completed, "cycles_8n": r8.stats.cycles_completed, "freed_n": r1.stats.objects_freed, "freed_8n": r8.stats.objects_freed});
        if r8.stats.peak_heap as f64 > 1.5 * r1.stats.peak_heap as f64 + 65536.0 {
            return Verdict::Fail(Failure::new("MemoryGrowth", format!("peak heap grows with the amount of garbage: {} bytes for n iterations, {} for 8n", r1.stats.peak_heap, r8.stats.peak_heap)).feat("bound:peak").detail(detail));
        }
        if r1.stats.cycles_completed < 2 || r8.stats.cycles_completed < 2 {
            return Verdict::Fail(Failure::new("MemoryGrowth", format!("collector completed {} / {} cycles", r1.stats.cycles_completed, r8.stats.cycles_completed)).feat("bound:cycles").detail(detail));
        }
        if r8.stats.objects_freed < 4 * r1.stats.objects_freed {
            return Verdict::Fail(Failure::new("MemoryGrowth", format!("8x the garbage but only {} vs {} objects reclaimed", r8.stats.objects_freed, r1.stats.objects_freed)).feat("bound:freed").detail(detail));
        }
        if r8.stats.objects_freed >= 20 * r8.stats.main_live_objects.max(1) {
            st.nt(&p1);
            st.sample = Some(detail);
        }
        Verdict::Pass(st)
    }
}


#[derive(Clone, Debug, Serialize, Deserialize)]
pub struct TaskCase {
    /// payload kind captured by every task: 0 array<int> | 1 array<string> | 2 struct with array | 3 nested arrays | 4 tuple
    pub kind: u8,
    /// elements per payload
    pub size: u16,
    /// tasks spawned (one after the other; each finishes before the next is spawned)
    pub n: u16,
    /// 0 = the task only reports; 1 = it spawns a nested task that reports; 2 = it also sends its copy back
    pub style: u8,
    pub budget: u32,
}

fn task_program(c: &TaskCase, n: u32) -> String {
    let s = c.size.max(1);
    let (decl, make, touch, len) = match c.kind % 5 {
        0 => ("", format!("array.filled(i, {s})"), "p.push(1)", "p.len()"),
        1 => ("", format!("array.filled(\"s\" .. i, {s})"), "p.push(\"t\")", "p.len()"),
        2 => ("type Rec = {\n  x: int\n  arr: array<int>\n}\n\n", format!("Rec(i, array.filled(i, {s}))"), "p.arr.push(1)", "p.arr.len()"),
        3 => ("", format!("[array.filled(i, {s}), [i]]"), "p[0].push(1)", "p[0].len()"),
        _ => ("", format!("(array.filled(i, {s}), \"t\" .. i)"), "match p {\n      (a, _) -> a.push(1)\n    }", "match p {\n      (a, _) -> a.len()\n    }"),
    };
    let mut src = String::from(decl);
    src.push_str("let done: channel<int> = channel()\n");
    if c.style % 3 == 2 {
        src.push_str("let back: channel<array<int>> = channel()\n");
    }
    src.push_str(&format!("var total = 0\nfor i in {n} {{\n  let p = {make}\n  task {{\n    {touch}\n"));
    match c.style % 3 {
        0 => src.push_str(&format!("    done.write({len})\n")),
        1 => src.push_str(&format!("    task {{\n      {touch}\n      done.write({len})\n    }}\n")),
        _ => src.push_str(&format!("    back.write(array.filled(i, {s}))\n    done.write({len})\n")),
    }
    src.push_str("  }\n  total = total + done.read()\n");
    if c.style % 3 == 2 {
        src.push_str("  total = total + back.read().len()\n");
    }
    src.push_str("}\nprintln(total)\n");
    src
}

pub struct TaskGarbage;

impl Prop for TaskGarbage {
    type Case = TaskCase;
    fn name(&self) -> &'static str {
        "finished_tasks_release_memory"
    }
    fn rule(&self) -> &'static str {
        "one case = a loop that spawns n tasks one after the other; each task captures (and so receives a deep copy of) a payload of `size` elements (array<int>, array<string>, struct with an array, nested arrays, tuple), touches it, optionally spawns a nested task or sends an array back, reports through a channel and finishes before the next one is spawned; run with n and 8n tasks under the default collector at a generated step budget; the bytes the process allocated for the runtime that are still live at the end of the run (counting global allocator, runtime not yet dropped) with 8n tasks must be <= 1.5 x the figure with n tasks + 256 KiB; both runs must print the same total a model computes; non-trivial = n x size x 8 bytes >= 256 KiB (retaining every finished task's copy would then exceed the bound); distinct by case"
    }
    fn n_cases(&self, tier: Tier) -> u32 {
        tier.pick(120, 3000)
    }
    fn strategy(&self, tier: Tier, _f: &Findings) -> BoxedStrategy<Self::Case> {
        (0u8..5, tier.pick(500u16..6000, 200u16..8000), tier.pick(10u16..40, 10u16..120), 0u8..3, prop_oneof![Just(1000u32), Just(1u32), 2u32..50, Just(100_000u32)]).prop_map(|(kind, size, n, style, budget)| TaskCase { kind, size, n, style, budget }).boxed()
    }
    fn judge(&self, c: &Self::Case, env: &mut Env) -> Verdict {
        let opts = RunOpts { max_steps: 400_000_000, max_calls: 400_000_000, budgets: vec![c.budget.max(1)], ..RunOpts::default() };
        let (p1, p8) = (task_program(c, c.n as u32), task_program(c, c.n as u32 * 8));
        let r1 = try_exec!(env.run1(&p1, &opts));
        let r8 = try_exec!(env.run1(&p8, &opts));
        let mut st = CaseStats::one();
        st.evals = 2;
        let s = c.size.max(1) as u64;
        for (r, src, n) in [(&r1, &p1, c.n as u64), (&r8, &p8, c.n as u64 * 8)] {
            if let Some(f) = crash_failure(r) {
                return Verdict::Fail(f.detail(json!({"src": src})));
            }
            if !r.compile.is_ok() || !matches!(r.end, RunEnd::Done) {
                return Verdict::Fail(Failure::new("VerdictMismatch", format!("task program did not run to completion: {:?} / {:?}", r.compile, r.end).chars().take(300).collect::<String>()).detail(json!({"src": src})));
            }
            let per = match c.style % 3 {
                0 => s + 1,
                1 => s + 2,
                _ => s + 1 + s,
            };
            let want = format!("{}\n", n * per);
            if r.stdout != want {
                return Verdict::Fail(Failure::new("OutcomeMismatch", format!("task program printed {:?}, the model says {:?}", r.stdout.chars().take(60).collect::<String>(), want)).detail(json!({"src": src})));
            }
        }
        let detail = json!({"src_n": p1, "n": c.n, "live_bytes_n": r1.stats.runtime_live_bytes, "live_bytes_8n": r8.stats.runtime_live_bytes, "budget": c.budget});
        if r8.stats.runtime_live_bytes as f64 > 1.5 * (r1.stats.runtime_live_bytes.max(0) as f64) + 262144.0 {
            return Verdict::Fail(
                Failure::new("MemoryGrowth", format!("memory held by the runtime grows with the number of finished tasks: {} bytes live after {} tasks, {} after {}", r1.stats.runtime_live_bytes, c.n, r8.stats.runtime_live_bytes, c.n as u32 * 8))
                    .feat("bound:finished-tasks")
                    .detail(detail),
            );
        }
        st.label(format!("style:{}", c.style % 3));
        if c.n as u64 * s * 8 >= 1 << 18 {
            st.nt(&p1);
            st.sample = Some(detail);
        }
        Verdict::Pass(st)
    }
}

#[derive(Clone, Debug, Serialize, Deserialize)]
pub struct DropCase {
    /// programs: (number of distinct string constants, loop iterations, ends with runtime error?)
    pub programs: Vec<(u8, u16, bool)>,
    /// history: (program index, step cap: 0 = run to the end)
    pub history: Vec<(u8, u32)>,
}

fn drop_program(k: u8, iters: u16, err: bool, salt: usize) -> String {
    let mut s = String::from("let names: array<string> = []\n");
    for i in 0..k {
        s.push_str(&format!("names.push(\"constant-{salt}-{i}\")\n"));
    }
    s.push_str(&format!("var acc = \"\"\nfor i in {iters} {{\n  acc = acc .. names[i % names.len()] .. i\n  let tmp = [acc, \"t\" .. i]\n}}\nprintln(string_count_bytes(acc))\n"));
    if err {
        s.push_str("let z = 0\nprintln(1 / z)\n");
    }
    s
}

/// worker side: compile each program once, then replay the history measuring live bytes
pub fn worker(payload: Value) -> Value {
    let case: DropCase = match serde_json::from_value(payload) {
        Ok(c) => c,
        Err(e) => return json!({"error": format!("bad payload: {e}")}),
    };
    abra_core::verif::reset();
    let mut programs = vec![];
    for (i, (k, iters, err)) in case.programs.iter().enumerate() {
        let src = drop_program((*k).max(1), *iters, *err, i);
        match crate::worker::compile_for_run(&single(src), "main.abra", &RunOpts::default()) {
            Ok(p) => programs.push(p),
            Err(v) => return json!({"error": format!("compile failed: {v:?}")}),
        }
    }
    if programs.is_empty() {
        return json!({"error": "no programs"});
    }
    let run = |p: &abra_core::verif::CompiledProgram, cap: u32| {
        let opts = RunOpts { max_steps: if cap == 0 { 50_000_000 } else { cap as u64 }, budgets: vec![997], ..RunOpts::default() };
        let out = crate::worker::run_program(p.clone(), &opts);
        let tag: &'static str = match &out.end {
            RunEnd::Done => "done",
            RunEnd::Error { kind, .. } => kind.tag(),
            RunEnd::Cap => "cap",
            RunEnd::HostPanic(_) => "host-panic",
            RunEnd::NotRun => "not-run",
        };
        drop(out);
        tag
    };
    // warm-up: every program once to completion and once capped (lazy one-time allocations)
    for p in &programs {
        run(p, 0);
        run(p, 50);
    }
    let mut steps = vec![];
    let mut leak = None;
    for (k, (pi, cap)) in case.history.iter().enumerate() {
        let p = &programs[*pi as usize % programs.len()];
        let before = crate::alloc_count::live();
        let tag = run(p, *cap);
        let after = crate::alloc_count::live();
        steps.push(json!({"program": pi, "cap": cap, "end": tag, "live_bytes_delta": after.0 - before.0, "live_blocks_delta": after.1 - before.1}));
        if (after.0 != before.0 || after.1 != before.1) && leak.is_none() {
            leak = Some(json!({"step": k, "bytes": after.0 - before.0, "blocks": after.1 - before.1, "end": tag}));
        }
    }
    json!({"steps": steps, "leak": leak})
}

pub struct DropFrees;

impl Prop for DropFrees {
    type Case = DropCase;
    fn name(&self) -> &'static str {
        "drop_frees_everything"
    }
    fn rule(&self) -> &'static str {
        "one case = 1..3 programs (with 1..40 distinct string constants each, a string-building loop, optionally ending in a runtime error) and a history of 5..40 operations 'create a runtime from program p, run it to completion / for k steps / to the error, drop it'; the worker counts live bytes and live blocks with a counting global allocator; after a warm-up every create-run-drop must return both counts exactly to their value before the create; non-trivial = the history contains >= 3 drops of a runtime whose program has >= 10 distinct string constants; distinct by case"
    }
    fn n_cases(&self, tier: Tier) -> u32 {
        tier.pick(600, 6000)
    }
    fn strategy(&self, _tier: Tier, _f: &Findings) -> BoxedStrategy<Self::Case> {
        (proptest::collection::vec((1u8..40, 1u16..60, proptest::bool::weighted(0.25)), 1..4), proptest::collection::vec((0u8..3, prop_oneof![2 => Just(0u32), 1 => 1u32..400, 1 => 400u32..5000]), 5..40)).prop_map(|(programs, history)| DropCase { programs, history }).boxed()
    }
    fn judge(&self, c: &Self::Case, env: &mut Env) -> Verdict {
        let v = try_exec!(env.custom("C07", serde_json::to_value(c).unwrap()));
        let mut st = CaseStats::one();
        st.evals = c.history.len() as u64;
        if let Some(e) = v.get("error").and_then(|e| e.as_str()) {
            return Verdict::Fail(Failure::new("VerdictMismatch", format!("drop history could not run: {e}")));
        }
        if let Some(l) = v.get("leak") {
            if !l.is_null() {
                return Verdict::Fail(
                    Failure::new("MemoryGrowth", format!("dropping a runtime does not release everything: {} bytes in {} blocks stay allocated (run ended: {})", l["bytes"], l["blocks"], l["end"].as_str().unwrap_or("?")))
                        .feat("bound:drop")
                        .detail(json!({"case": c, "first_leak": l, "steps": v.get("steps")})),
                );
            }
        }
        let big = c.history.iter().filter(|(pi, _)| c.programs[*pi as usize % c.programs.len()].0 >= 10).count();
        if big >= 3 {
            st.nt(&(c.programs.clone(), c.history.clone()));
            st.sample = Some(json!({"programs": c.programs, "history_len": c.history.len(), "first_steps": v["steps"].as_array().map(|a| a.iter().take(3).cloned().collect::<Vec<_>>())}));
        }
        Verdict::Pass(st)
    }
}

pub fn run(ctx: &mut Ctx) {
    ctx.assume("'eventually reclaimed' is decided as the safety property 'peak heap does not grow with the amount of garbage' (liveness cannot be observed by testing)");
    ctx.assume("live bytes are counted by a #[global_allocator] wrapper in the worker process; compilation happens before the measured window");
    ctx.prop(&BoundedHeap);
    ctx.prop(&DropFrees);
    ctx.prop(&TaskGarbage);
}
