//! Check registry.
use crate::harness::Ctx;
use serde_json::Value;

pub mod c15;
pub mod c37;
pub mod c38;
pub mod utilsan;

pub fn ids() -> Vec<&'static str> {
    vec!["C15", "C37", "C38"]
}

pub fn run(id: &str, ctx: &mut Ctx) -> bool {
    match id {
        "C15" => c15::run(ctx),
        "C37" => c37::run(ctx),
        "C38" => c38::run(ctx),
        _ => return false,
    }
    true
}

/// Worker-side execution of check-specific requests.
pub fn worker_custom(check: &str, _payload: Value) -> Value {
    match check {
        _ => Value::Null,
    }
}
