//! Check registry.
use crate::harness::Ctx;
use serde_json::Value;

pub mod c15;
pub mod c25;
pub mod c26;
pub mod c27;
pub mod c28;

pub fn ids() -> Vec<&'static str> {
    vec!["C15", "C25", "C26", "C27", "C28"]
}

pub fn run(id: &str, ctx: &mut Ctx) -> bool {
    match id {
        "C15" => c15::run(ctx),
        "C25" => c25::run(ctx),
        "C26" => c26::run(ctx),
        "C27" => c27::run(ctx),
        "C28" => c28::run(ctx),
        _ => return false,
    }
    true
}

/// Worker-side execution of check-specific requests.
pub fn worker_custom(check: &str, _payload: Value) -> Value {
    match check {
        _ => Value::Null,
    }
}
