//! Check registry.
use crate::harness::Ctx;
use serde_json::Value;

macro_rules! registry {
    ($( $id:literal => $m:ident ),* $(,)?) => {
        $( pub mod $m; )*
        pub fn ids() -> Vec<&'static str> { vec![ $( $id ),* ] }
        pub fn run(id: &str, ctx: &mut Ctx) -> bool {
            match id {
                $( $id => $m::run(ctx), )*
                _ => return false,
            }
            true
        }
    };
}

registry! {
    "C01" => c01,
    "C02" => c02,
    "C03" => c03,
    "C04" => c04,
    "C05" => c05,
    "C06" => c06,
    "C07" => c07,
    "C08" => c08,
    "C09" => c09,
    "C10" => c10,
    "C11" => c11,
    "C12" => c12,
    "C13" => c13,
    "C14" => c14,
    "C15" => c15,
    "C16" => c16,
    "C17" => c17,
    "C18" => c18,
    "C19" => c19,
    "C20" => c20,
    "C21" => c21,
    "C22" => c22,
    "C23" => c23,
    "C24" => c24,
    "C25" => c25,
    "C26" => c26,
    "C27" => c27,
    "C28" => c28,
    "C29" => c29,
    "C30" => c30,
    "C31" => c31,
    "C32" => c32,
    "C33" => c33,
    "C34" => c34,
    "C35" => c35,
    "C36" => c36,
    "C37" => c37,
    "C38" => c38,
}

pub mod utilsan;

/// Worker-side execution of check-specific requests.
pub fn worker_custom(check: &str, payload: Value) -> Value {
    match check {
        "C07" => c07::worker(payload),
        _ => Value::Null,
    }
}
