//! Check registry.
use crate::harness::Ctx;
use serde_json::Value;

pub mod c15;
pub mod c36;

pub fn ids() -> Vec<&'static str> {
    vec!["C15", "C36"]
}

pub fn run(id: &str, ctx: &mut Ctx) -> bool {
    match id {
        "C15" => c15::run(ctx),
        "C36" => c36::run(ctx),
        _ => return false,
    }
    true
}

/// Worker-side execution of check-specific requests.
pub fn worker_custom(check: &str, _payload: Value) -> Value {
    match check {
        _ => Value::Null,
    }
}
