//! C08 — a task works on its own copies of the values it captures (channels stay shared).

use crate::g::kpn::*;
use crate::harness::*;
use crate::proto::*;
use crate::try_exec;
use proptest::prelude::*;
use serde::{Deserialize, Serialize};
use serde_json::json;

#[derive(Clone, Debug, Serialize, Deserialize)]
pub struct CopyCase {
    pub kind: Kind,
    pub init: Vec<i64>,
    pub x: i64,
    pub s: String,
    /// mutations by the spawner before the task starts
    pub pre: Vec<i64>,
    pub task_muts: Vec<i64>,
    pub main_muts: Vec<i64>,
    /// true: the spawner mutates first, then the task
    pub main_first: bool,
    /// capture through a closure that pushes into its captured array
    pub via_closure: bool,
    pub budgets: Vec<Vec<u32>>,
}

/// (source, expected stdout)
pub fn program(c: &CopyCase) -> (String, String) {
    let mut m_main = Mv::new(c.kind, &c.init, c.x, &c.s);
    let mut src = decls_for(c.kind);
    let mut exp = String::new();
    src.push_str(&format!("let data: {} = {}\n", m_main.ty(), m_main.lit()));
    for n in &c.pre {
        src.push_str(&m_main.mutate("data", *n, ""));
    }
    src.push_str("let rep: channel<string> = channel()\nlet go: channel<int> = channel()\nlet ack: channel<int> = channel()\nlet echo: channel<array<int>> = channel()\n");
    let mut m_task = m_main.clone();
    let obs = m_main.observe("data");
    src.push_str("task {\n");
    // T1: the task's view at start = the spawner's value at spawn
    src.push_str(&format!("  rep.write({obs})\n"));
    let t1 = m_task.rendered();
    if c.main_first {
        src.push_str("  let g0 = go.read()\n");
    }
    let mut task_mut_src = String::new();
    for n in &c.task_muts {
        task_mut_src.push_str(&m_task.mutate("data", *n, "  "));
    }
    src.push_str(&task_mut_src);
    src.push_str(&format!("  rep.write({obs})\n"));
    let t2 = m_task.rendered();
    if !c.main_first {
        src.push_str("  let g1 = go.read()\n");
    }
    src.push_str(&format!("  rep.write({obs})\n"));
    let t3 = m_task.rendered();
    // a captured channel is the same channel: what the task writes through its copy arrives here
    src.push_str("  echo.write([1, 2, 3])\n  ack.write(1)\n  let fin = go.read()\n}\n");
    src.push_str("println(rep.read())\n");
    exp.push_str(&format!("{t1}\n"));
    let mut main_mut_src = String::new();
    for n in &c.main_muts {
        main_mut_src.push_str(&m_main.mutate("data", *n, ""));
    }
    if c.main_first {
        src.push_str(&main_mut_src);
        src.push_str(&format!("println({obs})\n"));
        exp.push_str(&format!("{}\n", m_main.rendered()));
        src.push_str("go.write(1)\nprintln(rep.read())\nprintln(rep.read())\n");
        exp.push_str(&format!("{t2}\n{t3}\n"));
    } else {
        src.push_str("println(rep.read())\n");
        exp.push_str(&format!("{t2}\n"));
        src.push_str(&main_mut_src);
        src.push_str(&format!("println({obs})\n"));
        exp.push_str(&format!("{}\n", m_main.rendered()));
        src.push_str("go.write(1)\nprintln(rep.read())\n");
        exp.push_str(&format!("{t3}\n"));
    }
    src.push_str("println(echo.read())\nlet a1 = ack.read()\n");
    exp.push_str("[ 1, 2, 3 ]\n");
    src.push_str(&format!("println({obs})\ngo.write(2)\n"));
    exp.push_str(&format!("{}\n", m_main.rendered()));
    (src, exp)
}

/// closure variant: a lambda that pushes into its captured array is captured by the task
pub fn closure_program(c: &CopyCase) -> (String, String) {
    let init = Mv::new(Kind::ArrInt, &c.init, 0, "");
    let mut src = String::new();
    src.push_str(&format!("let arr: array<int> = {}\n", init.lit()));
    src.push_str("let f = (n: int) -> {\n  arr.push(n)\n  arr.len()\n}\nlet rep: channel<int> = channel()\nlet go: channel<int> = channel()\n");
    let l0 = c.init.len() as i64;
    let mut exp = String::new();
    let mut main_len = l0;
    for n in &c.pre {
        src.push_str(&format!("println(f({}))\n", if *n < 0 { format!("({n})") } else { n.to_string() }));
        main_len += 1;
        exp.push_str(&format!("{main_len}\n"));
    }
    let mut task_len = main_len;
    src.push_str("task {\n");
    for n in &c.task_muts {
        src.push_str(&format!("  rep.write(f({}))\n", if *n < 0 { format!("({n})") } else { n.to_string() }));
    }
    src.push_str("  let fin = go.read()\n}\n");
    for _ in &c.task_muts {
        task_len += 1;
        src.push_str("println(rep.read())\n");
        exp.push_str(&format!("{task_len}\n"));
    }
    for n in &c.main_muts {
        src.push_str(&format!("println(f({}))\n", if *n < 0 { format!("({n})") } else { n.to_string() }));
        main_len += 1;
        exp.push_str(&format!("{main_len}\n"));
    }
    src.push_str("println(arr.len())\ngo.write(1)\n");
    exp.push_str(&format!("{main_len}\n"));
    (src, exp)
}

pub struct TaskCopies;

impl Prop for TaskCopies {
    type Case = CopyCase;
    fn name(&self) -> &'static str {
        "task_copies"
    }
    fn rule(&self) -> &'static str {
        "one case = a heap value of one of 12 kinds (array, nested array, struct with an array field, tuple holding an array, enum payload, string, option<array>, array<string>, option<int>, payload-less variant, variant of a 300-variant enum, struct holding scalar-payload enum objects) or a closure over an array, mutated by the spawner before the spawn, captured by a task, then mutated on both sides in a generated order; both sides report what they see through shared channels (the channel itself must stay shared); expected output from a harness-side model in which the task owns a deep copy taken at spawn; run at budgets 1000, 1, 2, 5 and generated sequences; non-trivial = a mutation on each side after the spawn; distinct by case"
    }
    fn n_cases(&self, tier: Tier) -> u32 {
        tier.pick(1500, 25000)
    }
    fn strategy(&self, _tier: Tier, _f: &Findings) -> BoxedStrategy<Self::Case> {
        let small = || proptest::collection::vec(-5i64..100, 0..4);
        (
            (0usize..KINDS.len(), small(), -9i64..9, "[a-z]{0,4}", small(), small(), small()),
            (any::<bool>(), proptest::bool::weighted(0.15), proptest::collection::vec(proptest::collection::vec(prop_oneof![1u32..6, 1u32..300], 1..4), 0..3)),
        )
            .prop_map(|((k, init, x, s, pre, task_muts, main_muts), (main_first, via_closure, budgets))| CopyCase { kind: KINDS[k], init, x, s, pre, task_muts, main_muts, main_first, via_closure, budgets })
            .boxed()
    }
    fn fixed_cases(&self, _tier: Tier, _f: &Findings) -> Vec<Self::Case> {
        let mut v = vec![];
        for k in KINDS {
            for main_first in [false, true] {
                v.push(CopyCase { kind: k, init: vec![1, 2], x: 3, s: "ab".into(), pre: vec![5], task_muts: vec![9, 10], main_muts: vec![7], main_first, via_closure: false, budgets: vec![vec![1, 3, 2]] });
                v.push(CopyCase { kind: k, init: vec![], x: 0, s: "".into(), pre: vec![], task_muts: vec![1], main_muts: vec![2], main_first, via_closure: false, budgets: vec![] });
            }
        }
        v.push(CopyCase { kind: Kind::ArrInt, init: vec![1], x: 0, s: "".into(), pre: vec![4], task_muts: vec![1, 2], main_muts: vec![3], main_first: false, via_closure: true, budgets: vec![] });
        v
    }
    fn judge(&self, c: &Self::Case, env: &mut Env) -> Verdict {
        let (src, exp) = if c.via_closure { closure_program(c) } else { program(c) };
        let mut variants: Vec<Variant> = [1000u32, 1, 2, 5].iter().map(|b| Variant { budgets: vec![*b], ..Variant::sel(0) }).collect();
        for b in &c.budgets {
            variants.push(Variant { budgets: b.clone(), ..Variant::sel(0) });
        }
        let opts = RunOpts { max_steps: 3_000_000, ..RunOpts::default() };
        let outs = try_exec!(env.run_var(&single(src.clone()), "main.abra", &opts, &variants));
        let mut st = CaseStats::one();
        st.evals = outs.len() as u64;
        st.label(format!("kind:{:?}", c.kind));
        if c.via_closure {
            st.label("via-closure");
        }
        for (r, v) in outs.iter().zip(variants.iter()) {
            let feat = format!("budgets:{:?}", v.budgets);
            if let Some(f) = crash_failure(r) {
                return Verdict::Fail(f.feat(format!("kind:{:?}", c.kind)).feat(feat).detail(json!({"src": src})));
            }
            if let FrontVerdict::Diag(d) = &r.compile {
                return Verdict::Fail(Failure::new("VerdictMismatch", format!("task program rejected: {}", norm_msg(d.lines().find(|l| !l.trim().is_empty()).unwrap_or("")))).detail(json!({"src": src, "diag": d})));
            }
            if !matches!(r.end, RunEnd::Done) || r.stdout != exp {
                let (a, b): (Vec<&str>, Vec<&str>) = (exp.lines().collect(), r.stdout.lines().collect());
                let i = a.iter().zip(b.iter()).position(|(x, y)| x != y).unwrap_or(a.len().min(b.len()));
                return Verdict::Fail(
                    Failure::new("ModelMismatch", format!("task copy semantics: observation {i} expected {:?} got {:?} (end {})", a.get(i), b.get(i), format!("{:?}", r.end).chars().take(60).collect::<String>()))
                        .feat(format!("kind:{:?}", c.kind))
                        .feat(feat)
                        .detail(json!({"src": src, "expected": exp, "got": r.stdout})),
                );
            }
        }
        let mutable = Mv::new(c.kind, &[], 0, "").mutable() || c.via_closure;
        if mutable && !c.task_muts.is_empty() && !c.main_muts.is_empty() {
            st.nt(&src);
            st.sample = Some(json!({"src": src, "expected": exp}));
        }
        Verdict::Pass(st)
    }
}

pub fn run(ctx: &mut Ctx) {
    ctx.assume("programs synchronise every observation through channels, so the expected output is schedule independent");
    ctx.assume("aliasing between two separately captured values is not specified and is never generated");
    ctx.prop(&crate::g::srccase::SrcProp { name: "program" });
    ctx.prop(&TaskCopies);
}
