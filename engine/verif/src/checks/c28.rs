//! C28 — converting a value to text.
//! Domain: values of nested built-in types (depth <= 4) rendered through `..`, `print`, `println`,
//! `.str()`, `ToString.str(x)`. Oracle: `V::render`, a recursive renderer written from the
//! property statement. The whole output of a case is compared.

use crate::g::abv::*;
use crate::g::batch::run_batch;
use crate::harness::*;
use crate::proto::*;
use crate::try_exec;
use proptest::prelude::*;
use serde::{Deserialize, Serialize};
use serde_json::json;

#[derive(Clone, Debug, Serialize, Deserialize, PartialEq, Eq, Hash)]
pub struct RenderCase {
    pub ty: Ty,
    pub v: V,
    /// 0 `"<" .. v .. ">"` | 1 print | 2 println | 3 `.str()` | 4 `ToString.str(v)` | 5 `v .. ""`
    /// | 6 `v .. v` | 7 the literal written in place (only when it needs no annotation)
    pub via: u8,
}

pub const VIAS: [&str; 8] = ["concat-right", "print", "println", "method-str", "ToString.str", "concat-left", "concat-both", "inline-literal"];

fn normalise(mut c: RenderCase) -> RenderCase {
    c.via %= 8;
    if c.via == 7 && !c.v.self_typed() {
        c.via = 2;
    }
    c
}

pub fn body(c: &RenderCase) -> String {
    let bind = format!("  let v: {} = {}\n", c.ty.text(), c.v.lit());
    match c.via {
        0 => format!("{bind}  println(\"<\" .. v .. \">\")"),
        1 => format!("{bind}  print(v)"),
        2 => format!("{bind}  println(v)"),
        3 => format!("{bind}  println(v.str())"),
        4 => format!("{bind}  println(ToString.str(v))"),
        5 => format!("{bind}  println(v .. \"\")"),
        6 => format!("{bind}  println(v .. v)"),
        _ => format!("  println({})", c.v.lit()),
    }
}

pub fn expected(c: &RenderCase) -> String {
    let r = c.v.render();
    match c.via {
        0 => format!("<{r}>\n"),
        1 => r,
        6 => format!("{r}{r}\n"),
        _ => format!("{r}\n"),
    }
}

fn nontrivial(c: &RenderCase) -> bool {
    c.v.depth() >= 2 && c.v.kinds().count_ones() >= 2
}

fn kind_names(k: u8) -> String {
    let mut v = vec![];
    for (bit, n) in [(1, "array"), (2, "tuple"), (4, "option"), (8, "result")] {
        if k & bit != 0 {
            v.push(n);
        }
    }
    if v.is_empty() { "scalar".into() } else { v.join("+") }
}

fn features(v: &V, out: &mut Vec<String>) {
    let mut push = |s: &str| {
        if !out.iter().any(|x| x == s) {
            out.push(s.to_string());
        }
    };
    match v {
        V::Int(n) => push(if *n < 0 { "has:negative-int" } else { "has:int" }),
        V::Bool(_) => push("has:bool"),
        V::Nil => push("has:nil"),
        V::Str(s) => push(if s.is_empty() { "has:empty-string" } else { "has:string" }),
        V::Arr(xs) => {
            push(if xs.is_empty() { "has:empty-array" } else { "has:array" });
            if xs.len() == 1 {
                push("has:singleton-array");
            }
            for x in xs {
                features(x, out);
            }
        }
        V::Tup(xs) => {
            push(&format!("has:tuple{}", xs.len()));
            for x in xs {
                features(x, out);
            }
        }
        V::Som(x) => {
            push("has:some");
            features(x, out);
        }
        V::Non => push("has:none"),
        V::Okk(x) => {
            push("has:ok");
            features(x, out);
        }
        V::Er(x) => {
            push("has:err");
            features(x, out);
        }
    }
}

pub struct Render;

impl Prop for Render {
    type Case = Vec<RenderCase>;
    fn name(&self) -> &'static str {
        "render"
    }
    fn rule(&self) -> &'static str {
        "one case = (type of nesting depth <= 4 over int/bool/void/string/array/tuple2-4/option/result, a value of it, one of 8 conversion spellings); the printed text must equal the recursive reference renderer; non-trivial = value depth >= 2 with >= 2 different container kinds; distinct by (type, value, spelling)"
    }
    fn n_cases(&self, tier: Tier) -> u32 {
        tier.pick(6000, 60000)
    }
    fn strategy(&self, _tier: Tier, _f: &Findings) -> BoxedStrategy<Self::Case> {
        let one = (prop_oneof![1 => ty_strategy(1), 2 => ty_strategy(2), 3 => ty_strategy(3), 3 => ty_strategy(4)], 0u8..8)
            .prop_flat_map(|(ty, via)| (val_strategy(&ty), Just(ty), Just(via)))
            .prop_map(|(v, ty, via)| normalise(RenderCase { ty, v, via }));
        proptest::collection::vec(one, 1..32).boxed()
    }
    fn fixed_cases(&self, _tier: Tier, _f: &Findings) -> Vec<Self::Case> {
        // every scalar, every container kind around every scalar, through every spelling
        let scalars: Vec<(Ty, V)> = vec![
            (Ty::Int, V::Int(0)),
            (Ty::Int, V::Int(-1)),
            (Ty::Int, V::Int(i64::MIN)),
            (Ty::Int, V::Int(i64::MAX)),
            (Ty::Bool, V::Bool(true)),
            (Ty::Bool, V::Bool(false)),
            (Ty::Void, V::Nil),
            (Ty::Str, V::Str(String::new())),
            (Ty::Str, V::Str("a, b".into())),
            (Ty::Str, V::Str("[ \"q\" ]\n".into())),
            (Ty::Str, V::Str("日本😀".into())),
        ];
        let mut vals: Vec<(Ty, V)> = scalars.clone();
        for (t, v) in &scalars {
            let b = |t: &Ty| Box::new(t.clone());
            vals.push((Ty::Arr(b(t)), V::Arr(vec![])));
            vals.push((Ty::Arr(b(t)), V::Arr(vec![v.clone()])));
            vals.push((Ty::Arr(b(t)), V::Arr(vec![v.clone(), v.clone()])));
            vals.push((Ty::Arr(b(t)), V::Arr(vec![v.clone(), v.clone(), v.clone()])));
            vals.push((Ty::Tup(vec![t.clone(), Ty::Int]), V::Tup(vec![v.clone(), V::Int(7)])));
            vals.push((Ty::Tup(vec![Ty::Bool, t.clone(), t.clone()]), V::Tup(vec![V::Bool(true), v.clone(), v.clone()])));
            vals.push((Ty::Tup(vec![t.clone(), Ty::Void, Ty::Str, t.clone()]), V::Tup(vec![v.clone(), V::Nil, V::Str("s".into()), v.clone()])));
            vals.push((Ty::Opt(b(t)), V::Som(Box::new(v.clone()))));
            vals.push((Ty::Opt(b(t)), V::Non));
            vals.push((Ty::Res(b(t), b(&Ty::Str)), V::Okk(Box::new(v.clone()))));
            vals.push((Ty::Res(b(&Ty::Int), b(t)), V::Er(Box::new(v.clone()))));
            vals.push((Ty::Arr(Box::new(Ty::Opt(b(t)))), V::Arr(vec![V::Som(Box::new(v.clone())), V::Non])));
            vals.push((Ty::Opt(Box::new(Ty::Arr(b(t)))), V::Som(Box::new(V::Arr(vec![])))));
        }
        let mut all = vec![];
        for (ty, v) in vals {
            for via in 0..8u8 {
                let c = normalise(RenderCase { ty: ty.clone(), v: v.clone(), via });
                if c.via == via {
                    all.push(c);
                }
            }
        }
        all.chunks(40).map(|c| c.to_vec()).collect()
    }
    fn split(&self, case: &Self::Case) -> Vec<Self::Case> {
        case.iter().map(|c| vec![c.clone()]).collect()
    }
    fn judge(&self, cases: &Self::Case, env: &mut Env) -> Verdict {
        let mut st = CaseStats::default();
        let cases: Vec<RenderCase> = cases
            .iter()
            .cloned()
            .map(normalise)
            .filter(|c| {
                let ok = c.v.conforms(&c.ty) && c.ty.depth() <= 4;
                if !ok {
                    st.discarded += 1;
                }
                ok
            })
            .collect();
        if cases.is_empty() {
            return Verdict::Pass(st);
        }
        let bodies: Vec<String> = cases.iter().map(body).collect();
        let (src, outs) = try_exec!(run_batch(env, "", &bodies, &RunOpts::default()));
        if outs.len() != cases.len() {
            let r = &outs[0];
            if let Some(f) = crash_failure(r) {
                return Verdict::Fail(f);
            }
            return Verdict::Fail(
                Failure::new("VerdictMismatch", format!("rendering batch rejected by the compiler: {:?}", r.compile))
                    .feat("compile-rejected")
                    .detail(json!({"src": src})),
            );
        }
        let mut first_fail = None;
        for (c, r) in cases.iter().zip(outs.iter()) {
            st.evals += 1;
            let exp = expected(c);
            let nt = nontrivial(c);
            if nt {
                st.nt(c);
            }
            st.label(format!("via:{}", VIAS[c.via as usize]));
            st.label(format!("depth:{}", c.v.depth()));
            st.label(format!("kinds:{}", kind_names(c.v.kinds())));
            let mut fs = vec![];
            features(&c.v, &mut fs);
            for f in &fs {
                st.label(f.clone());
            }
            let fail = if let Some(f) = crash_failure(r) {
                Some(f.feat(format!("via:{}", VIAS[c.via as usize])).feats(fs.clone()))
            } else if r.end != RunEnd::Done {
                Some(
                    Failure::new("OutcomeMismatch", format!("rendering ended with {:?} instead of finishing", r.end))
                        .feat(format!("via:{}", VIAS[c.via as usize]))
                        .feats(fs.clone())
                        .detail(json!({"case": c, "body": body(c), "stdout": r.stdout})),
                )
            } else if r.stdout != exp {
                let at = first_diff(&r.stdout, &exp).unwrap_or(0);
                Some(
                    Failure::new("ModelMismatch", format!("rendered text differs at byte {at}: expected {:?} got {:?}", excerpt(&exp, at), excerpt(&r.stdout, at)))
                        .feat(format!("via:{}", VIAS[c.via as usize]))
                        .feats(fs.clone())
                        .detail(json!({"case": c, "body": body(c), "expected": exp, "got": r.stdout})),
                )
            } else {
                None
            };
            if let Some(f) = fail {
                match env.findings.attribute(&f) {
                    Some(k) => st.known_hits.push(k),
                    None => {
                        if first_fail.is_none() {
                            first_fail = Some(f);
                        }
                    }
                }
            }
            if st.sample.is_none() && nt {
                st.sample = Some(json!({"src": body(c), "expected": exp, "got": r.stdout}));
            }
        }
        match first_fail {
            Some(f) => Verdict::Fail(f),
            None => Verdict::Pass(st),
        }
    }
}

pub fn run(ctx: &mut Ctx) {
    ctx.assume("the reference renderer is the property statement read literally: `[ a, b ]` with one space inside the brackets (so an empty array is `[  ]`), `(a, b)`, some(x)/none, ok(x)/err(e), strings verbatim at every depth");
    ctx.assume("floats are excluded: their text form is not documented");
    ctx.assume("empty arrays, none, ok and err take their type from an annotated binding; variants are written qualified (option.some(..))");
    ctx.prop(&Render);
}
