//! C31 — binary and unary operators group according to the documented precedence table, with
//! left associativity, whether an operand is a variable, a literal or a negative literal.
//! Oracle: a reference evaluator evaluates the TREE (so the grouping is the table's); the tree is
//! printed with minimal parentheses per the book's table and, metamorphically, fully parenthesised.

use crate::checks::c15::{reference as int_reference, Expect, IntCase};
use crate::g::batch::run_batch;
use crate::harness::*;
use crate::proto::*;
use crate::try_exec;
use proptest::prelude::*;
use serde::{Deserialize, Serialize};
use serde_json::json;

/// operator table: (symbol, documented precedence level)
pub const BIN: [(&str, u8); 15] = [
    ("and", 1),
    ("or", 1),
    ("==", 2),
    ("!=", 2),
    ("..", 3),
    ("<", 5),
    ("<=", 5),
    (">", 5),
    (">=", 5),
    ("+", 6),
    ("-", 6),
    ("*", 7),
    ("/", 7),
    ("%", 8),
    ("^", 9),
];
const P_NEG: u8 = 6;
const P_NOT: u8 = 10;
const P_ATOM: u8 = 100;
const STRS: [&str; 4] = ["a", "b", "ab", ""];

#[derive(Clone, Copy, Debug, PartialEq, Eq)]
pub enum Ty {
    I,
    B,
    S,
}

#[derive(Clone, Debug, Serialize, Deserialize, PartialEq, Eq, Hash)]
pub enum X {
    IVar(u8),
    ILit(u8),
    BVar(u8),
    BLit(bool),
    SVar(u8),
    SLit(u8),
    Neg(Box<X>),
    Not(Box<X>),
    Bin(u8, Box<X>, Box<X>),
}

#[derive(Clone, Debug, Serialize, Deserialize, PartialEq, Eq, Hash)]
pub struct Tree {
    pub ints: [i64; 3],
    pub bools: [bool; 2],
    pub strs: [u8; 2],
    pub x: X,
}

#[derive(Clone, Debug, PartialEq)]
pub enum Val {
    I(i64),
    B(bool),
    S(String),
}

#[derive(Clone, Debug, PartialEq)]
pub enum Out {
    Val(Val),
    Overflow,
    Div0,
    /// negative exponent: not specified
    Unspec,
}

impl X {
    pub fn prec(&self) -> u8 {
        match self {
            X::Neg(_) => P_NEG,
            X::Not(_) => P_NOT,
            X::Bin(op, ..) => BIN[*op as usize].1,
            _ => P_ATOM,
        }
    }
    pub fn ty(&self) -> Ty {
        match self {
            X::IVar(_) | X::ILit(_) | X::Neg(_) => Ty::I,
            X::BVar(_) | X::BLit(_) | X::Not(_) => Ty::B,
            X::SVar(_) | X::SLit(_) => Ty::S,
            X::Bin(op, ..) => match BIN[*op as usize].0 {
                "+" | "-" | "*" | "/" | "%" | "^" => Ty::I,
                ".." => Ty::S,
                _ => Ty::B,
            },
        }
    }
    fn n_ops(&self) -> usize {
        match self {
            X::Neg(a) | X::Not(a) => 1 + a.n_ops(),
            X::Bin(_, a, b) => 1 + a.n_ops() + b.n_ops(),
            _ => 0,
        }
    }
    fn precs(&self, out: &mut Vec<u8>) {
        match self {
            X::Neg(a) | X::Not(a) => {
                out.push(self.prec());
                a.precs(out)
            }
            X::Bin(_, a, b) => {
                out.push(self.prec());
                a.precs(out);
                b.precs(out)
            }
            _ => {}
        }
    }
    pub fn depth(&self) -> usize {
        match self {
            X::Neg(a) | X::Not(a) => 1 + a.depth(),
            X::Bin(_, a, b) => 1 + a.depth().max(b.depth()),
            _ => 0,
        }
    }
    /// is the tree well-typed (replay files are checked, generated trees are by construction)
    pub fn well_typed(&self) -> bool {
        match self {
            X::IVar(i) => *i < 3,
            X::BVar(i) | X::SVar(i) => *i < 2,
            X::ILit(n) => *n < 10,
            X::SLit(i) => (*i as usize) < STRS.len(),
            X::BLit(_) => true,
            X::Neg(a) => a.ty() == Ty::I && a.well_typed(),
            X::Not(a) => a.ty() == Ty::B && a.well_typed(),
            X::Bin(op, a, b) => {
                if *op as usize >= BIN.len() || !a.well_typed() || !b.well_typed() {
                    return false;
                }
                let (ta, tb) = (a.ty(), b.ty());
                match BIN[*op as usize].0 {
                    "and" | "or" => ta == Ty::B && tb == Ty::B,
                    "==" | "!=" => ta == tb,
                    ".." => true,
                    "<" | "<=" | ">" | ">=" => ta == tb && ta != Ty::B,
                    _ => ta == Ty::I && tb == Ty::I,
                }
            }
        }
    }
}

/// Minimal parentheses per the documented table: every binary operator is left-associative; a
/// prefix operator's operand extends over every tighter-binding operator.
pub fn print_min(x: &X, n_dropped: &mut usize) -> String {
    match x {
        X::IVar(i) => format!("i{i}"),
        X::ILit(n) => format!("{n}"),
        X::BVar(i) => format!("b{i}"),
        X::BLit(b) => format!("{b}"),
        X::SVar(i) => format!("s{i}"),
        X::SLit(i) => format!("\"{}\"", STRS[*i as usize]),
        X::Neg(a) | X::Not(a) => {
            let sym = if matches!(x, X::Neg(_)) { "-" } else { "not " };
            let inner = print_min(a, n_dropped);
            // a nested prefix operator needs no parentheses; `--x` is written `- -x`
            let nested_prefix = matches!(**a, X::Neg(_) | X::Not(_));
            if a.prec() > x.prec() || nested_prefix {
                if a.prec() != P_ATOM {
                    *n_dropped += 1;
                }
                if matches!(x, X::Neg(_)) && matches!(**a, X::Neg(_)) { format!("- {inner}") } else { format!("{sym}{inner}") }
            } else {
                format!("{sym}({inner})")
            }
        }
        X::Bin(op, a, b) => {
            let p = x.prec();
            let mut l = print_min(a, n_dropped);
            let mut r = print_min(b, n_dropped);
            if a.prec() < p {
                l = format!("({l})");
            } else if a.prec() != P_ATOM {
                *n_dropped += 1;
            }
            if b.prec() <= p {
                r = format!("({r})");
            } else if b.prec() != P_ATOM {
                *n_dropped += 1;
            }
            format!("{l} {} {r}", BIN[*op as usize].0)
        }
    }
}

pub fn print_full(x: &X) -> String {
    match x {
        X::Neg(a) => format!("(-{})", print_full(a)),
        X::Not(a) => format!("(not {})", print_full(a)),
        X::Bin(op, a, b) => format!("({} {} {})", print_full(a), BIN[*op as usize].0, print_full(b)),
        leaf => print_min(leaf, &mut 0),
    }
}

fn int_op(op: u8, a: i64, b: i64) -> Out {
    if op == 5 && b < 0 {
        return Out::Unspec;
    }
    match int_reference(&IntCase { op, a, b, form: 0, via: 0 }) {
        Expect::Val(v) => Out::Val(Val::I(v)),
        Expect::Overflow => Out::Overflow,
        Expect::Div0 => Out::Div0,
    }
}

fn show(v: &Val) -> String {
    match v {
        Val::I(n) => n.to_string(),
        Val::B(b) => b.to_string(),
        Val::S(s) => s.clone(),
    }
}

pub fn eval(t: &Tree, x: &X) -> Out {
    macro_rules! v {
        ($e:expr) => {
            match eval(t, $e) {
                Out::Val(v) => v,
                other => return other,
            }
        };
    }
    Out::Val(match x {
        X::IVar(i) => Val::I(t.ints[*i as usize]),
        X::ILit(n) => Val::I(*n as i64),
        X::BVar(i) => Val::B(t.bools[*i as usize]),
        X::BLit(b) => Val::B(*b),
        X::SVar(i) => Val::S(STRS[t.strs[*i as usize] as usize % STRS.len()].to_string()),
        X::SLit(i) => Val::S(STRS[*i as usize].to_string()),
        X::Neg(a) => match v!(a) {
            Val::I(n) => return int_op(6, n, 0),
            _ => unreachable!(),
        },
        X::Not(a) => match v!(a) {
            Val::B(b) => Val::B(!b),
            _ => unreachable!(),
        },
        X::Bin(op, a, b) => {
            let sym = BIN[*op as usize].0;
            let l = v!(a);
            // short circuit: the right operand is not evaluated when the left one decides
            if let (Val::B(lb), "and" | "or") = (&l, sym) {
                if (sym == "and" && !*lb) || (sym == "or" && *lb) {
                    return Out::Val(Val::B(*lb));
                }
                return eval(t, b);
            }
            let r = v!(b);
            match (sym, &l, &r) {
                ("..", _, _) => Val::S(format!("{}{}", show(&l), show(&r))),
                ("==", _, _) => Val::B(l == r),
                ("!=", _, _) => Val::B(l != r),
                (_, Val::I(p), Val::I(q)) => match sym {
                    "<" => Val::B(p < q),
                    "<=" => Val::B(p <= q),
                    ">" => Val::B(p > q),
                    ">=" => Val::B(p >= q),
                    "+" => return int_op(0, *p, *q),
                    "-" => return int_op(1, *p, *q),
                    "*" => return int_op(2, *p, *q),
                    "/" => return int_op(3, *p, *q),
                    "%" => return int_op(4, *p, *q),
                    "^" => return int_op(5, *p, *q),
                    _ => unreachable!(),
                },
                (_, Val::S(p), Val::S(q)) => {
                    let (p, q) = (p.as_bytes(), q.as_bytes());
                    match sym {
                        "<" => Val::B(p < q),
                        "<=" => Val::B(p <= q),
                        ">" => Val::B(p > q),
                        ">=" => Val::B(p >= q),
                        _ => unreachable!(),
                    }
                }
                _ => unreachable!("ill-typed tree"),
            }
        }
    })
}

/// Does the minimal print contain `-<literal> op` with op one of `* / % ^`, i.e. a negated
/// product/modulo/power whose leftmost atom is a literal (finding `neg-literal-binds-tighter`)?
pub fn has_neglit_left(x: &X) -> bool {
    fn leftmost_is_lit(x: &X, top: bool) -> bool {
        match x {
            X::ILit(_) => !top,
            // the left operand is printed without parentheses only when it binds at least as tightly
            X::Bin(_, a, _) if x.prec() > P_NEG => a.prec() >= x.prec() && leftmost_is_lit(a, false),
            _ => false,
        }
    }
    match x {
        X::Neg(a) => leftmost_is_lit(a, true) || has_neglit_left(a),
        X::Not(a) => has_neglit_left(a),
        X::Bin(_, a, b) => has_neglit_left(a) || has_neglit_left(b),
        _ => false,
    }
}

/// exclusion by construction: replace the literal behind the minus by a variable of value `lit`
fn strip_neglit_left(x: &X) -> X {
    fn relit(x: &X) -> X {
        match x {
            X::ILit(n) => X::IVar(*n % 3),
            X::Bin(op, a, b) => X::Bin(*op, Box::new(relit(a)), b.clone()),
            other => other.clone(),
        }
    }
    match x {
        X::Neg(a) => {
            let a2 = strip_neglit_left(a);
            if has_neglit_left(&X::Neg(Box::new(a2.clone()))) { X::Neg(Box::new(relit(&a2))) } else { X::Neg(Box::new(a2)) }
        }
        X::Not(a) => X::Not(Box::new(strip_neglit_left(a))),
        X::Bin(op, a, b) => X::Bin(*op, Box::new(strip_neglit_left(a)), Box::new(strip_neglit_left(b))),
        other => other.clone(),
    }
}

fn decls(t: &Tree) -> String {
    let mut s = String::new();
    for (i, v) in t.ints.iter().enumerate() {
        s.push_str(&format!("  let i{i} = {v}\n"));
    }
    for (i, v) in t.bools.iter().enumerate() {
        s.push_str(&format!("  let b{i} = {v}\n"));
    }
    for (i, v) in t.strs.iter().enumerate() {
        s.push_str(&format!("  let s{i} = \"{}\"\n", STRS[*v as usize % STRS.len()]));
    }
    s
}

// ---------------------------------------------------------------------------------------------
// generation

fn leaf(ty: Ty) -> BoxedStrategy<X> {
    match ty {
        Ty::I => prop_oneof![(0u8..3).prop_map(X::IVar), (0u8..10).prop_map(X::ILit), (1u8..10).prop_map(|n| X::Neg(Box::new(X::ILit(n))))].boxed(),
        Ty::B => prop_oneof![(0u8..2).prop_map(X::BVar), any::<bool>().prop_map(X::BLit)].boxed(),
        Ty::S => prop_oneof![(0u8..2).prop_map(X::SVar), (0u8..STRS.len() as u8).prop_map(X::SLit)].boxed(),
    }
}

fn op_idx(sym: &str) -> u8 {
    BIN.iter().position(|(s, _)| *s == sym).unwrap() as u8
}

fn bin(sym: &'static str, a: BoxedStrategy<X>, b: BoxedStrategy<X>) -> BoxedStrategy<X> {
    (a, b).prop_map(move |(a, b)| X::Bin(op_idx(sym), Box::new(a), Box::new(b))).boxed()
}

/// strategies for trees of depth <= d, per type, built level by level (clones share the level below)
pub struct Levels {
    pub i: Vec<BoxedStrategy<X>>,
    pub b: Vec<BoxedStrategy<X>>,
    pub s: Vec<BoxedStrategy<X>>,
}

pub fn levels(depth: usize) -> Levels {
    let mut lv = Levels { i: vec![leaf(Ty::I)], b: vec![leaf(Ty::B)], s: vec![leaf(Ty::S)] };
    for d in 1..=depth {
        let (si, sb, ss) = (lv.i[d - 1].clone(), lv.b[d - 1].clone(), lv.s[d - 1].clone());
        let any_ty = prop_oneof![2 => si.clone(), 1 => sb.clone(), 1 => ss.clone()].boxed();
        // int
        let mut alts: Vec<(u32, BoxedStrategy<X>)> = vec![(2, leaf(Ty::I)), (2, si.clone().prop_map(|a| X::Neg(Box::new(a))).boxed())];
        for sym in ["+", "-", "*", "/", "%"] {
            alts.push((2, bin(sym, si.clone(), si.clone())));
        }
        // exponents: mostly small non-negative atoms so that negative exponents (unspecified) stay rare
        alts.push((2, bin("^", si.clone(), prop_oneof![3 => (0u8..4).prop_map(X::ILit), 1 => si.clone()].boxed())));
        lv.i.push(proptest::strategy::Union::new_weighted(alts).boxed());
        // bool
        let mut alts: Vec<(u32, BoxedStrategy<X>)> = vec![(2, leaf(Ty::B)), (2, sb.clone().prop_map(|a| X::Not(Box::new(a))).boxed())];
        for sym in ["and", "or"] {
            alts.push((2, bin(sym, sb.clone(), sb.clone())));
        }
        for sym in ["==", "!="] {
            alts.push((1, bin(sym, si.clone(), si.clone())));
            alts.push((1, bin(sym, sb.clone(), sb.clone())));
            alts.push((1, bin(sym, ss.clone(), ss.clone())));
        }
        for sym in ["<", "<=", ">", ">="] {
            alts.push((2, bin(sym, si.clone(), si.clone())));
            alts.push((1, bin(sym, ss.clone(), ss.clone())));
        }
        lv.b.push(proptest::strategy::Union::new_weighted(alts).boxed());
        // string
        lv.s.push(prop_oneof![1 => leaf(Ty::S), 4 => bin("..", any_ty.clone(), any_ty)].boxed());
    }
    lv
}

fn env_strategy() -> impl Strategy<Value = ([i64; 3], [bool; 2], [u8; 2])> {
    ([-9i64..10, -9i64..10, -9i64..10], [any::<bool>(), any::<bool>()], [0u8..4, 0u8..4])
}

/// all operators as (symbol or prefix name, operand types, result type)
fn all_forms() -> Vec<(&'static str, Vec<Ty>, Ty)> {
    let mut v: Vec<(&'static str, Vec<Ty>, Ty)> = vec![("neg", vec![Ty::I], Ty::I), ("not", vec![Ty::B], Ty::B)];
    for sym in ["+", "-", "*", "/", "%", "^"] {
        v.push((sym, vec![Ty::I, Ty::I], Ty::I));
    }
    for sym in ["and", "or"] {
        v.push((sym, vec![Ty::B, Ty::B], Ty::B));
    }
    for sym in ["==", "!="] {
        for t in [Ty::I, Ty::B, Ty::S] {
            v.push((sym, vec![t, t], Ty::B));
        }
    }
    for sym in ["<", "<=", ">", ">="] {
        for t in [Ty::I, Ty::S] {
            v.push((sym, vec![t, t], Ty::B));
        }
    }
    for a in [Ty::I, Ty::B, Ty::S] {
        for b in [Ty::I, Ty::B, Ty::S] {
            v.push(("..", vec![a, b], Ty::S));
        }
    }
    v
}

fn mk(form: &(&'static str, Vec<Ty>, Ty), args: Vec<X>) -> X {
    let mut it = args.into_iter();
    match form.0 {
        "neg" => X::Neg(Box::new(it.next().unwrap())),
        "not" => X::Not(Box::new(it.next().unwrap())),
        sym => X::Bin(op_idx(sym), Box::new(it.next().unwrap()), Box::new(it.next().unwrap())),
    }
}

/// leaf of type `t`, in form f: 0 variable, 1 literal, 2 negative literal (ints only; else literal)
fn fixed_leaf(t: Ty, k: usize, f: u8) -> X {
    match (t, f) {
        (Ty::I, 0) => X::IVar((k % 3) as u8),
        (Ty::I, 1) => X::ILit([7, 3, 2][k % 3]),
        (Ty::I, _) => X::Neg(Box::new(X::ILit([7, 3, 2][k % 3]))),
        (Ty::B, 0) => X::BVar((k % 2) as u8),
        (Ty::B, _) => X::BLit(k % 2 == 0),
        (Ty::S, 0) => X::SVar((k % 2) as u8),
        (Ty::S, _) => X::SLit((k % 3) as u8),
    }
}

/// The exhaustive layer: every well-typed tree with exactly two operators (every operator under
/// every operand position of every operator), leaves in the three forms, two variable environments.
pub fn two_operator_trees() -> Vec<Tree> {
    let forms = all_forms();
    let envs: [([i64; 3], [bool; 2], [u8; 2]); 2] = [([7, 3, 2], [true, false], [0, 1]), ([-7, 3, -2], [false, true], [2, 0])];
    let mut out = vec![];
    for outer in &forms {
        for pos in 0..outer.1.len() {
            for inner in forms.iter().filter(|f| f.2 == outer.1[pos]) {
                for lf in 0u8..3 {
                    let mut k = 0usize;
                    let mut next_leaf = |t: Ty| {
                        k += 1;
                        fixed_leaf(t, k - 1, lf)
                    };
                    let inner_x = mk(inner, inner.1.iter().map(|t| next_leaf(*t)).collect());
                    let args: Vec<X> = (0..outer.1.len()).map(|i| if i == pos { inner_x.clone() } else { next_leaf(outer.1[i]) }).collect();
                    let x = mk(outer, args);
                    for e in &envs {
                        out.push(Tree { ints: e.0, bools: e.1, strs: e.2, x: x.clone() });
                    }
                }
            }
        }
    }
    let mut seen = std::collections::HashSet::new();
    out.retain(|t| seen.insert(t.clone()));
    out
}

pub struct Precedence;

const OPEN_KEY: &str = "neg-literal-binds-tighter";

fn nontrivial(x: &X, dropped: usize) -> bool {
    let mut ps = vec![];
    x.precs(&mut ps);
    ps.sort();
    ps.dedup();
    ps.len() >= 2 && dropped >= 1
}

impl Prop for Precedence {
    type Case = Vec<Tree>;
    fn name(&self) -> &'static str {
        "precedence"
    }
    fn rule(&self) -> &'static str {
        "one case = a well-typed expression tree over `and or == != .. < <= > >= + - * / % ^`, unary `-` and `not`, leaves = int/bool/string variables, literals and negative literals, with small operand values; printed with minimal parentheses per the book's table (left-associative) and fully parenthesised; both must print what the reference evaluator computes for the tree (value, or overflow / division by zero); fixed layer = every tree with exactly two operators x 3 leaf forms x 2 environments; non-trivial = >= 2 operators of different precedence and >= 1 parenthesis pair dropped by the minimal print; distinct by (tree, environment)"
    }
    fn n_cases(&self, tier: Tier) -> u32 {
        tier.pick(600, 6000)
    }
    fn exhaustive(&self, _tier: Tier) -> bool {
        false
    }
    fn strategy(&self, tier: Tier, f: &Findings) -> BoxedStrategy<Self::Case> {
        let depth = tier.pick(3, 4);
        let open = f.is_open(OPEN_KEY);
        let lv = levels(depth);
        let mut alts: Vec<(u32, BoxedStrategy<X>)> = vec![];
        for d in 1..=depth {
            let w = if d == depth { 3 } else { 1 };
            alts.push((3 * w, lv.i[d].clone()));
            alts.push((2 * w, lv.b[d].clone()));
            alts.push((w, lv.s[d].clone()));
        }
        let one = (proptest::strategy::Union::new_weighted(alts), env_strategy())
            .prop_map(move |(x, (ints, bools, strs))| Tree { ints, bools, strs, x: if open { strip_neglit_left(&x) } else { x } });
        proptest::collection::vec(one, 1..80).boxed()
    }
    fn fixed_cases(&self, _tier: Tier, f: &Findings) -> Vec<Self::Case> {
        let open = f.is_open(OPEN_KEY);
        let all: Vec<Tree> = two_operator_trees().into_iter().filter(|t| !(open && has_neglit_left(&t.x))).collect();
        all.chunks(60).map(|c| c.to_vec()).collect()
    }
    fn split(&self, case: &Self::Case) -> Vec<Self::Case> {
        case.iter().map(|c| vec![c.clone()]).collect()
    }
    fn judge(&self, cases: &Self::Case, env: &mut Env) -> Verdict {
        let mut st = CaseStats::default();
        let open = env.findings.is_open(OPEN_KEY);
        let cases: Vec<&Tree> = cases.iter().filter(|t| t.x.well_typed()).collect();
        if cases.is_empty() {
            return Verdict::Pass(st);
        }
        let mut bodies = vec![];
        let mut prints = vec![];
        for t in &cases {
            let mut dropped = 0;
            let m = print_min(&t.x, &mut dropped);
            let f = print_full(&t.x);
            let d = decls(t);
            bodies.push(format!("{d}  println({m})"));
            bodies.push(format!("{d}  println({f})"));
            prints.push((m, f, dropped));
        }
        let (src, outs) = try_exec!(run_batch(env, "", &bodies, &RunOpts::default()));
        if outs.len() != bodies.len() {
            let r = &outs[0];
            if let Some(f) = crash_failure(r) {
                return Verdict::Fail(f.detail(json!({"src": src})));
            }
            let mut f = Failure::new("VerdictMismatch", format!("well-typed expression batch rejected by the compiler: {}", first_diag_line(&r.compile))).detail(json!({"src": src, "compile": format!("{:?}", r.compile)}));
            if cases.len() == 1 {
                f = f.feats(features(&cases[0].x));
            }
            return Verdict::Fail(f);
        }
        let mut first_fail = None;
        for (i, t) in cases.iter().enumerate() {
            let (m, f, dropped) = &prints[i];
            st.evals += 1;
            let exp = eval(t, &t.x);
            if exp == Out::Unspec {
                st.discarded += 1;
                st.label("discard:negative-exponent");
                continue;
            }
            let nt = nontrivial(&t.x, *dropped);
            if nt {
                st.nt(*t);
            }
            st.label(format!("ops:{}", t.x.n_ops().min(6)));
            st.label(format!("depth:{}", t.x.depth()));
            st.label(match &exp {
                Out::Val(Val::I(_)) => "expect:int",
                Out::Val(Val::B(_)) => "expect:bool",
                Out::Val(Val::S(_)) => "expect:string",
                Out::Overflow => "expect:overflow",
                Out::Div0 => "expect:div0",
                Out::Unspec => unreachable!(),
            });
            if has_neglit_left(&t.x) {
                st.label("neg-literal-left-of-tighter-op");
                if open {
                    st.excluded.push((OPEN_KEY.into(), 1));
                }
            }
            for (which, text, r) in [("minimal", m, &outs[2 * i]), ("full", f, &outs[2 * i + 1])] {
                let fail = if let Some(fl) = crash_failure(r) {
                    Some(fl)
                } else {
                    let got = observe(r);
                    // the observation carries no type: compare on the printed text
                    let exp_obs = match &exp {
                        Out::Val(v) => Out::Val(Val::S(show(v))),
                        other => other.clone(),
                    };
                    if got == Ok(exp_obs) {
                        None
                    } else {
                        Some(Failure::new("OutcomeMismatch", format!("{which} print `{text}`: expected {} got {}", show_out(&exp), got.map(|o| show_out(&o)).unwrap_or_else(|e| e))))
                    }
                };
                if let Some(fl) = fail {
                    let fl = fl.feat(format!("print:{which}")).feats(features(&t.x)).detail(json!({"tree": t, "minimal": m, "full": f, "decls": decls(t), "expected": show_out(&exp)}));
                    match env.findings.attribute(&fl) {
                        Some(k) => st.known_hits.push(k),
                        None => {
                            if first_fail.is_none() {
                                first_fail = Some(fl);
                            }
                        }
                    }
                    break;
                }
            }
            if st.sample.is_none() && nt {
                st.sample = Some(json!({"minimal": m, "full": f, "ints": t.ints, "bools": t.bools, "expected": show_out(&exp), "stdout": outs[2 * i].stdout}));
            }
        }
        match first_fail {
            Some(f) => Verdict::Fail(f),
            None => Verdict::Pass(st),
        }
    }
}

fn first_diag_line(v: &FrontVerdict) -> String {
    match v {
        FrontVerdict::Diag(d) => norm_msg(d.lines().find(|l| !l.trim().is_empty()).unwrap_or("")),
        other => format!("{other:?}").chars().take(120).collect(),
    }
}

fn features(x: &X) -> Vec<String> {
    let mut v = vec![];
    if has_neglit_left(x) {
        v.push("neg-literal-left-of-tighter-op".to_string());
    }
    let mut ps = vec![];
    x.precs(&mut ps);
    ps.sort();
    ps.dedup();
    v.push(format!("levels:{}", ps.iter().map(|p| p.to_string()).collect::<Vec<_>>().join("-")));
    v
}

fn show_out(o: &Out) -> String {
    match o {
        Out::Val(v) => format!("{:?}", show(v)),
        Out::Overflow => "overflow error".into(),
        Out::Div0 => "division-by-zero error".into(),
        Out::Unspec => "unspecified".into(),
    }
}

/// the observation carries no type: compare on the printed text
fn observe(r: &RunOut) -> Result<Out, String> {
    match &r.end {
        RunEnd::Done => {
            let t = r.stdout.strip_suffix('\n').ok_or_else(|| format!("output {:?} lacks the newline", r.stdout))?;
            Ok(Out::Val(Val::S(t.to_string())))
        }
        RunEnd::Error { kind: ErrKind::IntegerOverflow, .. } => Ok(Out::Overflow),
        RunEnd::Error { kind: ErrKind::DivisionByZero, .. } => Ok(Out::Div0),
        other => Err(format!("{other:?}").chars().take(200).collect()),
    }
}

pub fn run(ctx: &mut Ctx) {
    ctx.assume("precedence levels are the book's operator table (and/or 1, ==/!= 2, .. 3, comparisons 5, + - and unary - 6, * / 7, % 8, ^ 9, not 10); every binary operator is left-associative");
    ctx.assume("a negative literal is unary minus applied to a literal (the property's `-2 % 3` groups like `-x % 3`)");
    ctx.assume("operand values are in -9..9 so that overflow is rare; integer ^ with a negative exponent is unspecified and discarded; bool operands are never ordered with < <= > >=");
    ctx.prop(&crate::g::srccase::SrcProp { name: "program" });
    ctx.prop(&Precedence);
}
