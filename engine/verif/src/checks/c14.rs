//! C14 — a match runs the first matching arm and binds the corresponding parts of the scrutinee;
//! `let` / `var` / `for` destructuring binds the same way.
//! Oracle: the reference matcher of `g::matchgen`: arm index = first match in source order, every
//! bound variable (printed by the arm body) = the sub-value at the binder's position.

use crate::checks::c12::parse_arm_line;
use crate::g::batch::run_batch;
use crate::g::matchgen::*;
use crate::harness::*;
use crate::proto::*;
use crate::try_exec;
use proptest::prelude::*;
use serde::{Deserialize, Serialize};
use serde_json::json;

// ---------------------------------------------------------------------------------------------
// first match + bindings

/// did the attempt to match fail after a leading component of some product had already matched?
fn partial_fail(p: &Pat, v: &Val) -> (bool, bool) {
    match (p, v) {
        (Pat::Tuple(ps), Val::Tuple(vs)) | (Pat::Struct { fields: ps, .. }, Val::Struct(vs)) => comps(ps, vs),
        (Pat::Variant { vi, form, fields, .. }, Val::Variant(vj, vs)) => {
            if vi != vj {
                (false, false)
            } else if matches!(form, VForm::Bare) {
                (true, false)
            } else {
                comps(fields, vs)
            }
        }
        (Pat::Or(l, r), _) => {
            let (m1, p1) = partial_fail(l, v);
            if m1 {
                return (true, false);
            }
            let (m2, p2) = partial_fail(r, v);
            (m2, !m2 && (p1 || p2))
        }
        _ => (matches(p, v), false),
    }
}

fn comps(ps: &[Pat], vs: &[Val]) -> (bool, bool) {
    let mut any_ok = false;
    for (p, v) in ps.iter().zip(vs) {
        let (m, pf) = partial_fail(p, v);
        if !m {
            return (false, pf || any_ok);
        }
        any_ok = true;
    }
    (true, false)
}

fn binds_any(p: &Pat, ty: &Ty) -> bool {
    let mut b = vec![];
    binders(p, ty, &mut b);
    !b.is_empty()
}

/// make a random arm list total and irredundant (by the reference): drop unreachable arms, add a
/// catch-all binder when a value is unmatched
pub fn repair(mut c: MCase) -> MCase {
    loop {
        let ra = analyse_ref(&c);
        if let Some(i) = ra.reachable.iter().position(|r| !*r) {
            c.arms.remove(i);
            if c.arms.is_empty() {
                c.arms.push(Pat::Bind("v".into()));
            }
            continue;
        }
        if !ra.exhaustive() {
            c.arms.push(if c.arms.len() % 2 == 0 { Pat::Bind("v".into()) } else { Pat::Wild });
            continue;
        }
        return c;
    }
}

pub struct FirstMatch;

impl Prop for FirstMatch {
    type Case = MBatch;
    fn name(&self) -> &'static str {
        "first_match"
    }
    fn rule(&self) -> &'static str {
        "one evaluation = (scrutinee type, total and irredundant arm list, value); arm lists = the C12 enumeration filtered by the reference matcher plus random lists repaired to be total (unreachable arms dropped, catch-all appended); every arm prints its index and all variables it binds; scrutinee is a function parameter or a local let; non-trivial = the taken arm is not the first and binds a variable, or an earlier arm failed after a leading component of a product had matched; distinct by (type, arm list, value)"
    }
    fn n_cases(&self, tier: Tier) -> u32 {
        tier.pick(500, 5000)
    }
    fn strategy(&self, _tier: Tier, _f: &Findings) -> BoxedStrategy<Self::Case> {
        proptest::collection::vec(rand_case(1, 4).prop_map(repair), 1..=24).prop_map(MBatch::Lists).boxed()
    }
    fn fixed_cases(&self, tier: Tier, _f: &Findings) -> Vec<Self::Case> {
        let tys = universe();
        let small = smallest_types();
        let span = 480;
        let mut out = vec![];
        match tier {
            Tier::Quick => {
                out.extend(enumerate_spans(1, crate::checks::c12::quick_cap, span, &tys));
                out.extend(enumerate_spans(2, crate::checks::c12::quick_cap, span, &tys));
                out.extend(enumerate_spans(3, |_| 8, span, &small));
            }
            Tier::Thorough => {
                out.extend(enumerate_spans(1, |_| 60, span, &tys));
                out.extend(enumerate_spans(2, |_| 60, span, &tys));
                out.extend(enumerate_spans(3, |_| 22, span, &tys));
                out.extend(enumerate_spans(4, |_| 8, span, &small));
            }
        }
        out
    }
    fn exhaustive(&self, _tier: Tier) -> bool {
        true
    }
    fn split(&self, case: &Self::Case) -> Vec<Self::Case> {
        // only the lists that are actually run
        case.expand().into_iter().filter(|c| !c.arms.is_empty() && c.arms.iter().all(|p| well_formed(p, &c.ty))).filter(|c| {
            let ra = analyse_ref(c);
            ra.exhaustive() && ra.irredundant()
        }).map(|c| MBatch::Lists(vec![c])).collect()
    }
    fn judge(&self, batch: &Self::Case, env: &mut Env) -> Verdict {
        let all = batch.expand();
        if let Some(bad) = all.iter().find(|c| c.arms.is_empty() || !c.arms.iter().all(|p| well_formed(p, &c.ty))) {
            return Verdict::Inconclusive(format!("ill-formed case {:?}", bad).chars().take(300).collect());
        }
        let mut st = CaseStats::default();
        let mut cases: Vec<MCase> = vec![];
        let mut refs: Vec<RefAnalysis> = vec![];
        for c in all {
            let ra = analyse_ref(&c);
            if ra.exhaustive() && ra.irredundant() {
                cases.push(c);
                refs.push(ra);
            } else {
                st.label("skipped:not-total-or-redundant");
            }
        }
        if cases.is_empty() {
            return Verdict::Pass(st);
        }
        let dynamic: Vec<(usize, &MCase, &Vec<Val>)> = cases.iter().enumerate().map(|(i, c)| (i, c, &refs[i].values)).collect();
        let (items, bodies, index) = dynamic_program(&dynamic);
        let (src, outs) = try_exec!(run_batch(env, &items, &bodies, &RunOpts::default()));
        if outs.len() != bodies.len() {
            let r = &outs[0];
            if let Some(f) = crash_failure(r) {
                return Verdict::Fail(f.feats(cases.iter().flat_map(case_feats).collect::<std::collections::BTreeSet<_>>()).detail(json!({"src": src})));
            }
            return Verdict::Fail(
                Failure::new("VerdictMismatch", format!("a total, irredundant match is rejected: {}", strip_ansi(&format!("{:?}", r.compile)).chars().take(300).collect::<String>()))
                    .feat("what:total-match-rejected")
                    .feats(cases.iter().flat_map(case_feats).collect::<std::collections::BTreeSet<_>>())
                    .detail(json!({"src": src})),
            );
        }
        let mut first_fail: Option<Failure> = None;
        for ((ci, vi), r) in index.iter().zip(outs.iter()) {
            let c = &cases[*ci];
            let v = &refs[*ci].values[*vi];
            st.evals += 1;
            let (k, bound) = first_match(&c.arms, v).expect("total by construction");
            let expect = expected_line(c, k, &bound);
            let nt = (k > 0 && binds_any(&c.arms[k], &c.ty)) || c.arms[..k].iter().any(|p| partial_fail(p, v).1);
            if nt {
                st.nt(&(c, v));
            }
            if *vi == 0 {
                case_labels(c, &mut st);
                st.label(if c.form == 0 { "scrutinee:parameter" } else { "scrutinee:local" });
            }
            st.label(if k == 0 { "taken:first-arm" } else { "taken:later-arm" });
            let feats = || {
                let mut f = case_feats(c);
                let mut kinds = vec![];
                pat_kinds(&c.arms[k], &mut kinds);
                kinds.sort();
                kinds.dedup();
                f.extend(kinds.into_iter().map(|k| format!("taken:{k}")));
                f
            };
            let fail = if let Some(f) = crash_failure(r) {
                Some(f.feat("what:run-fault").feats(feats()))
            } else if !matches!(r.end, RunEnd::Done) {
                Some(Failure::new("OutcomeMismatch", format!("a total match ends with {:?}", r.end)).feat("what:run-error").feats(feats()))
            } else {
                let got = r.stdout.lines().next().unwrap_or("");
                if got == expect && r.stdout.lines().count() == 1 {
                    None
                } else {
                    let what = match parse_arm_line(&r.stdout) {
                        Some((g, _)) if g != k => "wrong-arm",
                        Some(_) => "wrong-binding",
                        None => "no-arm",
                    };
                    Some(Failure::new("OutcomeMismatch", format!("{what}: expected `{expect}`, got `{}`", r.stdout.trim_end().chars().take(120).collect::<String>())).feat(format!("what:{what}")).feats(feats()))
                }
            };
            if let Some(f) = fail {
                let f = f.detail(json!({"match": case_text(c), "case": c, "value": val_expr(v, &c.ty), "expected": expect, "stdout": r.stdout, "end": format!("{:?}", r.end)}));
                match env.findings.attribute(&f) {
                    Some(key) => st.known_hits.push(key),
                    None => {
                        if first_fail.is_none() {
                            first_fail = Some(f);
                        }
                    }
                }
            }
            if st.sample.is_none() && nt {
                st.sample = Some(json!({"match": case_text(c), "value": val_expr(v, &c.ty), "expected": expect, "got": r.stdout.trim_end()}));
            }
        }
        match first_fail {
            Some(f) => Verdict::Fail(f),
            None => Verdict::Pass(st),
        }
    }
}

// ---------------------------------------------------------------------------------------------
// let / var / for destructuring

#[derive(Clone, Debug, Serialize, Deserialize, PartialEq, Eq, Hash)]
pub struct DCase {
    pub ty: Ty,
    pub pat: Pat,
    /// 0 `let p: T = s` | 1 `var p: T = s` | 2 `for p in arr`
    pub kind: u8,
}

fn qualify(p: &mut Pat) {
    match p {
        Pat::Variant { qual, fields, .. } => {
            *qual = true;
            fields.iter_mut().for_each(qualify);
        }
        Pat::Tuple(ps) | Pat::Struct { fields: ps, .. } => ps.iter_mut().for_each(qualify),
        Pat::Or(a, b) => {
            qualify(a);
            qualify(b);
        }
        _ => {}
    }
}

fn or_chain(mut alts: Vec<Pat>) -> Pat {
    let mut acc = alts.pop().unwrap();
    while let Some(p) = alts.pop() {
        acc = Pat::Or(Box::new(p), Box::new(acc));
    }
    acc
}

/// irrefutable patterns of a type: wildcard, binder, `nil`, products of irrefutable patterns,
/// a single-variant pattern, or an or-pattern that lists every variant
fn irref_pat(ty: &Ty, depth: u32) -> BoxedStrategy<Pat> {
    let leaf = prop_oneof![1 => Just(Pat::Wild), 3 => Just(Pat::Bind(String::new()))].boxed();
    if depth == 0 {
        return leaf;
    }
    let ctor: BoxedStrategy<Pat> = match ty {
        Ty::Void => Just(Pat::Nil).boxed(),
        Ty::Bool => proptest::sample::select(vec![
            Pat::Or(Box::new(Pat::Bool(true)), Box::new(Pat::Bool(false))),
            Pat::Or(Box::new(Pat::Bool(false)), Box::new(Pat::Wild)),
            Pat::Or(Box::new(Pat::Bind(String::new())), Box::new(Pat::Bind(String::new()))),
        ])
        .boxed(),
        Ty::Int | Ty::Float | Ty::Str | Ty::Param(_) => return leaf,
        Ty::Tuple(ts) => ts.iter().map(|t| irref_pat(t, depth - 1)).collect::<Vec<_>>().prop_map(Pat::Tuple).boxed(),
        Ty::Nom(..) => {
            if let Some(fs) = struct_fields_of(ty) {
                let n = fs.len();
                (fs.iter().map(|(_, t)| irref_pat(t, depth - 1)).collect::<Vec<_>>(), proptest::option::of(any::<u16>()))
                    .prop_map(move |(fields, o)| Pat::Struct { order: o.map(|s| perm(s, n)), fields })
                    .boxed()
            } else {
                let vs = variants_of(ty).unwrap();
                let alts: Vec<BoxedStrategy<Pat>> = vs
                    .iter()
                    .enumerate()
                    .map(|(vi, (_, fs))| {
                        let n = fs.len();
                        let named_ok = n > 0 && fs.iter().all(|f| f.0.is_some());
                        (fs.iter().map(|(_, t)| irref_pat(t, depth - 1)).collect::<Vec<_>>(), any::<bool>(), any::<u16>())
                            .prop_map(move |(fields, named, s)| {
                                let form = if n == 0 {
                                    VForm::Bare
                                } else if named_ok && named {
                                    VForm::Named(perm(s, n))
                                } else {
                                    VForm::Pos
                                };
                                Pat::Variant { vi: vi as u8, form, qual: true, fields }
                            })
                            .boxed()
                    })
                    .collect();
                (alts, any::<bool>())
                    .prop_map(|(mut alts, rev)| {
                        if rev {
                            alts.reverse();
                        }
                        or_chain(alts)
                    })
                    .boxed()
            }
        }
    };
    prop_oneof![1 => leaf, 4 => ctor].boxed()
}

fn perm(seed: u16, n: usize) -> Vec<u8> {
    let mut items: Vec<u8> = (0..n as u8).collect();
    let mut s = seed as usize;
    let mut out = vec![];
    while !items.is_empty() {
        let k = s % items.len();
        s /= items.len();
        out.push(items.remove(k));
    }
    out
}

/// scrutinee types of the destructuring cases: tuples and structs (the only shapes `let` accepts
/// at the top); other universe types are wrapped in a pair
pub fn dtypes() -> Vec<Ty> {
    let nom0 = |n: &str| Ty::Nom(n.to_string(), vec![]);
    let mut out: Vec<Ty> = universe()
        .into_iter()
        .map(|t| match &t {
            Ty::Tuple(_) => t,
            Ty::Nom(..) if struct_fields_of(&t).is_some() => t,
            _ => Ty::Tuple(vec![t, Ty::Bool]),
        })
        .collect();
    out.push(Ty::Tuple(vec![nom0("Wr"), nom0("Tw")]));
    out.push(Ty::Tuple(vec![nom0("On"), Ty::Tuple(vec![Ty::Void, nom0("Tw")])]));
    out.push(Ty::Nom("Rf".into(), vec![Ty::Tuple(vec![nom0("Wr"), Ty::Void])]));
    out.push(Ty::Tuple(vec![Ty::Nom("option".into(), vec![nom0("Pt")]), nom0("Nv"), Ty::Void]));
    out.sort();
    out.dedup();
    out
}

/// the systematic layer: every leaf bound / every leaf ignored, named fields in shuffled order
fn full_pat(ty: &Ty, bind: bool, k: usize) -> Pat {
    let leaf = || if bind { Pat::Bind(String::new()) } else { Pat::Wild };
    match ty {
        Ty::Void => {
            if k % 2 == 0 { Pat::Nil } else { leaf() }
        }
        Ty::Tuple(ts) => Pat::Tuple(ts.iter().enumerate().map(|(i, t)| full_pat(t, bind, k + i)).collect()),
        Ty::Nom(..) => {
            if let Some(fs) = struct_fields_of(ty) {
                let n = fs.len();
                Pat::Struct { order: if k % 2 == 0 { Some(perm((k + 1) as u16, n)) } else { None }, fields: fs.iter().enumerate().map(|(i, (_, t))| full_pat(t, bind, k + i + 1)).collect() }
            } else {
                let vs = variants_of(ty).unwrap();
                let alts: Vec<Pat> = vs
                    .iter()
                    .enumerate()
                    .map(|(vi, (_, fs))| {
                        let n = fs.len();
                        let named_ok = n > 0 && fs.iter().all(|f| f.0.is_some());
                        let form = if n == 0 {
                            VForm::Bare
                        } else if named_ok && k % 2 == 0 {
                            VForm::Named(perm((k + 2) as u16, n))
                        } else {
                            VForm::Pos
                        };
                        Pat::Variant { vi: vi as u8, form, qual: true, fields: fs.iter().enumerate().map(|(i, (_, t))| full_pat(t, bind, k + i)).collect() }
                    })
                    .collect();
                or_chain(alts)
            }
        }
        _ => leaf(),
    }
}

fn dcase_values(c: &DCase) -> Vec<Val> {
    let lits = lits_of(std::slice::from_ref(&c.pat));
    let all = all_values(&c.ty, &lits);
    // at most 24 values, evenly spread (deterministic)
    if all.len() <= 24 {
        all
    } else {
        (0..24).map(|i| all[i * all.len() / 24].clone()).collect()
    }
}

fn dcase_text(c: &DCase) -> String {
    let kw = ["let", "var", "for"][c.kind as usize % 3];
    format!("{kw} {} : {}", pat_text(&c.pat, &c.ty), ty_text(&c.ty))
}

fn top_ok(p: &Pat) -> bool {
    matches!(p, Pat::Wild | Pat::Bind(_) | Pat::Tuple(_) | Pat::Struct { .. })
}

pub struct Destructure;

impl Prop for Destructure {
    type Case = Vec<DCase>;
    fn name(&self) -> &'static str {
        "destructure"
    }
    fn rule(&self) -> &'static str {
        "one case = (tuple or struct type, irrefutable pattern, let | var | for): nested tuples / structs / variants, void components, named fields in shuffled order, or-patterns that list every variant and bind the same names on both sides; the bound variables are printed for up to 24 values of the type and compared with the reference matcher; non-trivial = the pattern binds at least two variables or contains an or-pattern; distinct by (type, pattern, statement kind)"
    }
    fn n_cases(&self, tier: Tier) -> u32 {
        tier.pick(300, 3000)
    }
    fn strategy(&self, _tier: Tier, _f: &Findings) -> BoxedStrategy<Self::Case> {
        let one = proptest::sample::select(dtypes())
            .prop_flat_map(|ty| {
                let p = irref_pat(&ty, 4);
                (Just(ty), p, 0u8..3)
            })
            .prop_map(|(ty, pat, kind)| {
                let mut pat = name_pat(&pat, &ty);
                qualify(&mut pat);
                DCase { ty, pat, kind }
            });
        proptest::collection::vec(one, 1..=16).boxed()
    }
    fn fixed_cases(&self, _tier: Tier, _f: &Findings) -> Vec<Self::Case> {
        let mut all = vec![];
        for (i, ty) in dtypes().into_iter().enumerate() {
            for kind in 0..3u8 {
                for (j, bind) in [true, false, true].into_iter().enumerate() {
                    let mut pat = name_pat(&full_pat(&ty, bind, i + j + kind as usize), &ty);
                    qualify(&mut pat);
                    all.push(DCase { ty: ty.clone(), pat, kind });
                }
            }
        }
        all.sort_by_key(|c| format!("{:?}", c));
        all.dedup();
        all.chunks(16).map(|c| c.to_vec()).collect()
    }
    fn split(&self, case: &Self::Case) -> Vec<Self::Case> {
        case.iter().map(|c| vec![c.clone()]).collect()
    }
    fn judge(&self, cases: &Self::Case, env: &mut Env) -> Verdict {
        if let Some(bad) = cases.iter().find(|c| !well_formed(&c.pat, &c.ty) || !top_ok(&c.pat) || c.kind > 2) {
            return Verdict::Inconclusive(format!("ill-formed case {:?}", bad).chars().take(300).collect());
        }
        let mut items = String::from(preamble());
        let mut bodies = vec![];
        let mut expected: Vec<Vec<String>> = vec![];
        for (k, c) in cases.iter().enumerate() {
            let values = dcase_values(c);
            let mut bs = vec![];
            binders(&c.pat, &c.ty, &mut bs);
            bs.sort();
            let mut print = String::from("println(\"d\"");
            for (n, _) in &bs {
                print.push_str(&format!(" .. \";{n}=\" .. {n}"));
            }
            print.push(')');
            let (tt, pt) = (ty_text(&c.ty), pat_text(&c.pat, &c.ty));
            let mut exp = vec![];
            for v in &values {
                let mut bound = vec![];
                if !pmatch(&c.pat, v, &mut bound) {
                    return Verdict::Inconclusive(format!("generated pattern is refutable: {}", dcase_text(c)));
                }
                let mut line = String::from("d");
                for (n, t) in &bs {
                    let bv = bound.iter().find(|(m, _)| m == n).map(|(_, v)| val_show(v, t)).unwrap_or_else(|| "<unbound>".into());
                    line.push_str(&format!(";{n}={bv}"));
                }
                exp.push(line);
            }
            expected.push(exp);
            match c.kind {
                0 | 1 => {
                    let kw = if c.kind == 0 { "let" } else { "var" };
                    items.push_str(&format!("fn d{k}(s: {tt}) {{\n  {kw} {pt}: {tt} = s\n  {print}\n}}\n\n"));
                    bodies.push(values.iter().map(|v| format!("  d{k}({})", val_expr(v, &c.ty))).collect::<Vec<_>>().join("\n"));
                }
                _ => {
                    items.push_str(&format!("fn d{k}(arr: array<{tt}>) {{\n  for {pt} in arr {{\n    {print}\n  }}\n}}\n\n"));
                    bodies.push(format!("  d{k}([{}])", values.iter().map(|v| val_expr(v, &c.ty)).collect::<Vec<_>>().join(", ")));
                }
            }
        }
        let (src, outs) = try_exec!(run_batch(env, &items, &bodies, &RunOpts::default()));
        let feats_of = |c: &DCase| {
            let mut f = vec![format!("stmt:{}", ["let", "var", "for"][c.kind as usize])];
            let mut kinds = vec![];
            pat_kinds(&c.pat, &mut kinds);
            kinds.sort();
            kinds.dedup();
            f.extend(kinds.into_iter().map(|k| format!("pat:{k}")));
            f
        };
        if outs.len() != bodies.len() {
            let r = &outs[0];
            if let Some(f) = crash_failure(r) {
                return Verdict::Fail(f.feats(cases.iter().flat_map(feats_of).collect::<std::collections::BTreeSet<_>>()).detail(json!({"src": src})));
            }
            return Verdict::Fail(
                Failure::new("VerdictMismatch", format!("an irrefutable destructuring is rejected: {}", strip_ansi(&format!("{:?}", r.compile)).chars().take(300).collect::<String>()))
                    .feat("what:destructuring-rejected")
                    .feats(cases.iter().flat_map(feats_of).collect::<std::collections::BTreeSet<_>>())
                    .detail(json!({"src": src, "cases": cases.iter().map(dcase_text).collect::<Vec<_>>()})),
            );
        }
        let mut st = CaseStats::default();
        let mut first_fail: Option<Failure> = None;
        for ((c, r), exp) in cases.iter().zip(outs.iter()).zip(expected.iter()) {
            st.evals += exp.len() as u64;
            let mut bs = vec![];
            binders(&c.pat, &c.ty, &mut bs);
            let nt = bs.len() >= 2 || has_or(&c.pat);
            if nt {
                st.nt(c);
            }
            for f in feats_of(c) {
                st.label(f);
            }
            st.label(format!("ty:{}", ty_kind(&c.ty)));
            let fail = if let Some(f) = crash_failure(r) {
                Some(f.feat("what:run-fault").feats(feats_of(c)))
            } else if !matches!(r.end, RunEnd::Done) {
                Some(Failure::new("OutcomeMismatch", format!("a destructuring ends with {:?}", r.end)).feat("what:run-error").feats(feats_of(c)))
            } else {
                let got: Vec<&str> = r.stdout.lines().collect();
                match (0..exp.len().max(got.len())).find(|i| got.get(*i).copied() != exp.get(*i).map(|s| s.as_str())) {
                    None => None,
                    Some(i) => Some(
                        Failure::new("OutcomeMismatch", format!("wrong-binding: value #{i}: expected `{}`, got `{}`", exp.get(i).cloned().unwrap_or_default(), got.get(i).copied().unwrap_or("<nothing>")))
                            .feat("what:wrong-binding")
                            .feats(feats_of(c)),
                    ),
                }
            };
            if let Some(f) = fail {
                let f = f.detail(json!({"stmt": dcase_text(c), "case": c, "expected": exp, "stdout": r.stdout, "end": format!("{:?}", r.end)}));
                match env.findings.attribute(&f) {
                    Some(key) => st.known_hits.push(key),
                    None => {
                        if first_fail.is_none() {
                            first_fail = Some(f);
                        }
                    }
                }
            }
            if st.sample.is_none() && nt {
                st.sample = Some(json!({"stmt": dcase_text(c), "first_expected_line": exp.first(), "first_output_line": r.stdout.lines().next()}));
            }
        }
        match first_fail {
            Some(f) => Verdict::Fail(f),
            None => Verdict::Pass(st),
        }
    }
}

pub fn run(ctx: &mut Ctx) {
    ctx.assume("a match with a missing case or a redundant arm is a compile error, so only arm lists that the reference matcher finds total and irredundant are run (the compiler's own verdicts are C12's and C13's subject)");
    ctx.assume("bound values are compared through their printed form: built-in rendering for bool/int/float/string/void/tuples/option/result, generated ToString implementations for the declared types");
    ctx.assume("`let` patterns carry a type annotation and name variants with their enum (leading-dot variants and generic enums are not inferred from the right-hand side of a let)");
    ctx.prop(&FirstMatch);
    ctx.prop(&Destructure);
}
