//! C26 — array operations behave like a reference list model.
//! A case is an operation sequence over 1–3 array variables (aliases included) of one element
//! type (int, string, nested array<int>, void). The program prints an observation after every
//! operation; the oracle is a heap-of-Vec model that predicts the exact output and how the
//! program ends (Done, or the runtime error "index out of bounds" for an out-of-range index or a
//! pop on an empty array).

use crate::g::abv::{excerpt, first_diff};
use crate::g::batch::run_batch;
use crate::g::values::*;
use crate::harness::*;
use crate::proto::*;
use crate::try_exec;
use proptest::prelude::*;
use serde::{Deserialize, Serialize};
use serde_json::json;

#[derive(Clone, Debug, Serialize, Deserialize, PartialEq, Eq, Hash)]
pub enum El {
    Int(i64),
    Str(String),
    Arr(Vec<i64>),
    Nil,
}

/// An index resolved against the length of the array at the time the operation runs.
#[derive(Clone, Debug, Serialize, Deserialize, PartialEq, Eq, Hash)]
pub enum Idx {
    /// in range when the array is non-empty (monotone `pick_idx`); 0 on an empty array
    In(u16),
    /// exactly len
    Len,
    /// len + 1 + k
    Past(u8),
    /// -1 - k
    Neg(u8),
    Min,
    Max,
}

/// The needle of find/contains: an element currently in the array, or a fresh value.
#[derive(Clone, Debug, Serialize, Deserialize, PartialEq, Eq, Hash)]
pub enum Pick {
    Present(u16),
    Fresh(El),
}

#[derive(Clone, Debug, Serialize, Deserialize, PartialEq, Eq, Hash)]
pub enum Op {
    Lit { dst: u8, elems: Vec<El> },
    Alias { dst: u8, src: u8 },
    CloneOf { dst: u8, src: u8 },
    Filled { dst: u8, x: El, n: u8 },
    Get { v: u8, idx: Idx },
    Set { v: u8, idx: Idx, x: El },
    Push { v: u8, x: El },
    Pop { v: u8 },
    Len { v: u8 },
    IsEmpty { v: u8 },
    Swap { v: u8, i: Idx, j: Idx },
    Remove { v: u8, idx: Idx },
    Clear { v: u8 },
    Find { v: u8, x: Pick },
    Contains { v: u8, x: Pick },
    Iter { v: u8 },
    Eq { a: u8, b: u8 },
    /// nested element type only: `v[i].push(x)`
    InnerPush { v: u8, idx: Idx, x: i64 },
    /// nested: `println(v[i].pop())`
    InnerPop { v: u8, idx: Idx },
    /// nested: `v[i][j] = x`
    InnerSet { v: u8, idx: Idx, j: Idx, x: i64 },
    /// nested: `dst.push(src[i])` — the same inner array becomes reachable from two places
    Share { dst: u8, src: u8, idx: Idx },
}

impl Op {
    pub fn name(&self) -> &'static str {
        match self {
            Op::Lit { .. } => "literal",
            Op::Alias { .. } => "alias",
            Op::CloneOf { .. } => "clone",
            Op::Filled { .. } => "filled",
            Op::Get { .. } => "get",
            Op::Set { .. } => "set",
            Op::Push { .. } => "push",
            Op::Pop { .. } => "pop",
            Op::Len { .. } => "len",
            Op::IsEmpty { .. } => "is_empty",
            Op::Swap { .. } => "swap",
            Op::Remove { .. } => "remove",
            Op::Clear { .. } => "clear",
            Op::Find { .. } => "find",
            Op::Contains { .. } => "contains",
            Op::Iter { .. } => "iter",
            Op::Eq { .. } => "eq",
            Op::InnerPush { .. } => "inner-push",
            Op::InnerPop { .. } => "inner-pop",
            Op::InnerSet { .. } => "inner-set",
            Op::Share { .. } => "share-inner",
        }
    }
}

pub const ETYS: [&str; 4] = ["int", "string", "nested", "void"];

#[derive(Clone, Debug, Serialize, Deserialize, PartialEq, Eq, Hash)]
pub struct ArrCase {
    /// 0 int | 1 string | 2 array<int> | 3 void
    pub ety: u8,
    pub nvars: u8,
    pub ops: Vec<Op>,
    /// triggers of open findings the generator excludes (bit set; none at present). `build`
    /// would emit `len` in place of an operation that hits one; a probe replay file has 0 here.
    #[serde(default)]
    pub skip: u8,
}

// ---------------------------------------------------------------------------------------------
// the reference model

#[derive(Clone, Debug, PartialEq)]
enum MV {
    Int(i64),
    Str(String),
    Nil,
    Ref(usize),
}

struct Model {
    heap: Vec<Vec<MV>>,
    vars: Vec<usize>,
}

struct Oob;

impl Model {
    fn alloc(&mut self, v: Vec<MV>) -> usize {
        self.heap.push(v);
        self.heap.len() - 1
    }
    fn mv(&mut self, e: &El) -> MV {
        match e {
            El::Int(n) => MV::Int(*n),
            El::Str(s) => MV::Str(s.clone()),
            El::Nil => MV::Nil,
            El::Arr(xs) => {
                let id = self.alloc(xs.iter().map(|n| MV::Int(*n)).collect());
                MV::Ref(id)
            }
        }
    }
    fn render(&self, v: &MV) -> String {
        match v {
            MV::Int(n) => n.to_string(),
            MV::Str(s) => s.clone(),
            MV::Nil => "nil".into(),
            MV::Ref(id) => self.render_arr(*id),
        }
    }
    fn render_arr(&self, id: usize) -> String {
        format!("[ {} ]", self.heap[id].iter().map(|x| self.render(x)).collect::<Vec<_>>().join(", "))
    }
    fn equal(&self, a: &MV, b: &MV) -> bool {
        match (a, b) {
            (MV::Ref(x), MV::Ref(y)) => {
                let (p, q) = (&self.heap[*x], &self.heap[*y]);
                p.len() == q.len() && p.iter().zip(q.iter()).all(|(u, v)| self.equal(u, v))
            }
            _ => a == b,
        }
    }
    /// the deep copy `clone` is documented to make
    fn deep(&mut self, v: &MV) -> MV {
        match v {
            MV::Ref(id) => {
                let items = self.heap[*id].clone();
                let copied: Vec<MV> = items.iter().map(|x| self.deep(x)).collect();
                MV::Ref(self.alloc(copied))
            }
            other => other.clone(),
        }
    }
    fn resolve(&self, idx: &Idx, len: usize) -> i64 {
        match idx {
            Idx::In(i) => pick_idx(*i, len) as i64,
            Idx::Len => len as i64,
            Idx::Past(k) => len as i64 + 1 + *k as i64,
            Idx::Neg(k) => -1 - *k as i64,
            Idx::Min => i64::MIN,
            Idx::Max => i64::MAX,
        }
    }
    fn check(&self, i: i64, len: usize) -> Result<usize, Oob> {
        if i >= 0 && (i as u64) < len as u64 { Ok(i as usize) } else { Err(Oob) }
    }
    /// how many variables refer to array `id`
    fn var_refs(&self, id: usize) -> usize {
        self.vars.iter().filter(|v| **v == id).count()
    }
    /// is the inner array `id` reachable from more than one slot of the live outer arrays?
    fn inner_shared(&self, id: usize) -> bool {
        let mut outers: Vec<usize> = self.vars.clone();
        outers.sort();
        outers.dedup();
        let mut n = 0;
        for o in outers {
            n += self.heap[o].iter().filter(|x| matches!(x, MV::Ref(r) if *r == id)).count();
        }
        n > 1
    }
}

pub fn el_lit(e: &El) -> String {
    match e {
        El::Int(n) => int_lit(*n),
        El::Str(s) => str_lit(s),
        El::Nil => "nil".into(),
        El::Arr(xs) => format!("[{}]", xs.iter().map(|n| int_lit(*n)).collect::<Vec<_>>().join(", ")),
    }
}

fn coerce(e: &El, ety: u8) -> El {
    match (ety, e) {
        (0, El::Int(_)) | (1, El::Str(_)) | (2, El::Arr(_)) | (3, El::Nil) => e.clone(),
        (0, _) => El::Int(0),
        (1, _) => El::Str(String::new()),
        (2, _) => El::Arr(vec![]),
        _ => El::Nil,
    }
}

fn ety_text(ety: u8) -> &'static str {
    ["int", "string", "array<int>", "void"][ety as usize & 3]
}

#[derive(Default, Debug, Clone)]
pub struct Facts {
    /// a mutation went through an array that two variables (or two slots) refer to
    pub alias_mutation: bool,
    /// a pop/remove/clear left an array empty
    pub reached_empty: bool,
    pub oob_index: bool,
    pub pop_empty: bool,
    /// a clone (or one of its originals) was mutated after the clone was made
    pub clone_mutated: bool,
    pub max_len: usize,
    pub executed: usize,
}

pub struct Built {
    pub body: String,
    /// expected output of each executed operation (operation text + the observation line)
    pub chunks: Vec<String>,
    /// index of the operation expected to stop the program with the out-of-bounds error
    pub stops_at: Option<usize>,
    pub facts: Facts,
    /// program text of each operation (for reports)
    pub op_src: Vec<String>,
    /// effective name of each operation that was emitted
    pub names: Vec<&'static str>,
    /// operations replaced because the case excludes the trigger of an open finding
    pub excluded: Vec<(String, u64)>,
}

/// Run the model over the sequence; produce the program and the predicted output.
pub fn build(c: &ArrCase) -> Built {
    let ety = c.ety & 3;
    let nv = c.nvars.clamp(1, 3) as usize;
    let mut m = Model { heap: vec![], vars: vec![] };
    let mut body = String::new();
    for k in 0..nv {
        let id = m.alloc(vec![]);
        m.vars.push(id);
        body.push_str(&format!("  var v{k}: array<{}> = []\n", ety_text(ety)));
    }
    let obs_src = format!("  println({})\n", (0..nv).map(|k| format!("v{k}")).collect::<Vec<_>>().join(" .. \"|\" .. "));
    let mut chunks = vec![];
    let mut op_src = vec![];
    let mut names: Vec<&'static str> = vec![];
    let excluded: Vec<(String, u64)> = vec![];
    let mut stops_at = None;
    let mut facts = Facts::default();
    // arrays that are one side of a clone pair
    let mut clone_ids: Vec<usize> = vec![];
    let var = |v: u8| (v as usize) % nv;
    for (k, op) in c.ops.iter().enumerate() {
        let mut out = String::new();
        let mut src = String::new();
        let mut name;
        // Err(Oob) = the operation stops the program
        let mut touched: Option<usize> = None;
        let mut op = op.clone();
        // an in-range selector has nothing to select in an empty array: the operation is emitted
        // as a push of the default element instead (errors come from the explicit out-of-range
        // selectors and from pop on empty, so that sequences are not cut short all the time)
        {
            let len_of = |v: u8| m.heap[m.vars[var(v)]].len();
            let target = match &op {
                Op::Get { v, idx: Idx::In(_) } | Op::Set { v, idx: Idx::In(_), .. } | Op::Remove { v, idx: Idx::In(_) } => Some(*v),
                Op::InnerPush { v, idx: Idx::In(_), .. } | Op::InnerPop { v, idx: Idx::In(_) } | Op::InnerSet { v, idx: Idx::In(_), .. } => Some(*v),
                Op::Swap { v, i, j } if matches!(i, Idx::In(_)) || matches!(j, Idx::In(_)) => Some(*v),
                Op::Share { src, idx: Idx::In(_), .. } => Some(*src),
                _ => None,
            };
            if let Some(v) = target {
                if len_of(v) == 0 {
                    op = Op::Push { v, x: coerce(&El::Nil, ety) };
                }
            }
        }
        let op = &op;
        name = op.name();
        let r: Result<(), Oob> = (|| {
            match op {
                Op::Lit { dst, elems } => {
                    let es: Vec<El> = elems.iter().map(|e| coerce(e, ety)).collect();
                    src = format!("  v{} = [{}]\n", var(*dst), es.iter().map(el_lit).collect::<Vec<_>>().join(", "));
                    let items: Vec<MV> = es.iter().map(|e| m.mv(e)).collect();
                    let id = m.alloc(items);
                    m.vars[var(*dst)] = id;
                }
                Op::Alias { dst, src: s } => {
                    src = format!("  v{} = v{}\n", var(*dst), var(*s));
                    m.vars[var(*dst)] = m.vars[var(*s)];
                }
                Op::CloneOf { dst, src: s } => {
                    src = format!("  v{} = v{}.clone()\n", var(*dst), var(*s));
                    let from = m.vars[var(*s)];
                    let MV::Ref(id) = m.deep(&MV::Ref(from)) else { unreachable!() };
                    m.vars[var(*dst)] = id;
                    clone_ids.push(from);
                    clone_ids.push(id);
                }
                Op::Filled { dst, x, n } => {
                    let x = coerce(x, ety);
                    let n = (*n % 18) as usize;
                    src = format!("  v{} = array.filled({}, {})\n", var(*dst), el_lit(&x), n);
                    // the prelude pushes a clone of x n times: n independent copies
                    let items: Vec<MV> = (0..n).map(|_| m.mv(&x)).collect();
                    let id = m.alloc(items);
                    m.vars[var(*dst)] = id;
                }
                Op::Get { v, idx } => {
                    let a = m.vars[var(*v)];
                    let i = m.resolve(idx, m.heap[a].len());
                    src = format!("  println(v{}[{}])\n", var(*v), int_lit(i));
                    let i = m.check(i, m.heap[a].len()).inspect_err(|_| facts.oob_index = true)?;
                    out.push_str(&m.render(&m.heap[a][i]));
                    out.push('\n');
                }
                Op::Set { v, idx, x } => {
                    let x = coerce(x, ety);
                    let a = m.vars[var(*v)];
                    let i = m.resolve(idx, m.heap[a].len());
                    src = format!("  v{}[{}] = {}\n", var(*v), int_lit(i), el_lit(&x));
                    let i = m.check(i, m.heap[a].len()).inspect_err(|_| facts.oob_index = true)?;
                    let val = m.mv(&x);
                    m.heap[a][i] = val;
                    touched = Some(a);
                }
                Op::Push { v, x } => {
                    let x = coerce(x, ety);
                    src = format!("  v{}.push({})\n", var(*v), el_lit(&x));
                    let a = m.vars[var(*v)];
                    let val = m.mv(&x);
                    m.heap[a].push(val);
                    touched = Some(a);
                }
                Op::Pop { v } => {
                    src = format!("  println(v{}.pop())\n", var(*v));
                    let a = m.vars[var(*v)];
                    match m.heap[a].pop() {
                        Some(x) => {
                            out.push_str(&m.render(&x));
                            out.push('\n');
                            touched = Some(a);
                            if m.heap[a].is_empty() {
                                facts.reached_empty = true;
                            }
                        }
                        None => {
                            facts.pop_empty = true;
                            return Err(Oob);
                        }
                    }
                }
                Op::Len { v } => {
                    src = format!("  println(v{}.len())\n", var(*v));
                    out.push_str(&format!("{}\n", m.heap[m.vars[var(*v)]].len()));
                }
                Op::IsEmpty { v } => {
                    src = format!("  println(v{}.is_empty())\n", var(*v));
                    out.push_str(&format!("{}\n", m.heap[m.vars[var(*v)]].is_empty()));
                }
                Op::Swap { v, i, j } => {
                    let a = m.vars[var(*v)];
                    let len = m.heap[a].len();
                    let (i, j) = (m.resolve(i, len), m.resolve(j, len));
                    src = format!("  v{}.swap({}, {})\n", var(*v), int_lit(i), int_lit(j));
                    let i = m.check(i, len).inspect_err(|_| facts.oob_index = true)?;
                    let j = m.check(j, len).inspect_err(|_| facts.oob_index = true)?;
                    m.heap[a].swap(i, j);
                    touched = Some(a);
                }
                Op::Remove { v, idx } => {
                    let a = m.vars[var(*v)];
                    let len = m.heap[a].len();
                    let i = m.resolve(idx, len);
                    src = format!("  v{}.remove({})\n", var(*v), int_lit(i));
                    let i = m.check(i, len).inspect_err(|_| facts.oob_index = true)?;
                    // the prelude defines remove as: swap with the last element, then pop
                    m.heap[a].swap_remove(i);
                    touched = Some(a);
                    if m.heap[a].is_empty() {
                        facts.reached_empty = true;
                    }
                }
                Op::Clear { v } => {
                    src = format!("  v{}.clear()\n", var(*v));
                    let a = m.vars[var(*v)];
                    if !m.heap[a].is_empty() {
                        facts.reached_empty = true;
                    }
                    m.heap[a].clear();
                    touched = Some(a);
                }
                Op::Find { v, x } | Op::Contains { v, x } => {
                    let a = m.vars[var(*v)];
                    let (needle, text): (MV, String) = match x {
                        Pick::Present(p) if !m.heap[a].is_empty() => {
                            let e = m.heap[a][pick_idx(*p, m.heap[a].len())].clone();
                            let t = model_lit(&m, &e);
                            (e, t)
                        }
                        Pick::Present(_) => {
                            let e = coerce(&El::Nil, ety);
                            let t = el_lit(&e);
                            (m.mv(&e), t)
                        }
                        Pick::Fresh(e) => {
                            let e = coerce(e, ety);
                            let t = el_lit(&e);
                            (m.mv(&e), t)
                        }
                    };
                    let pos = m.heap[a].iter().position(|y| m.equal(y, &needle));
                    if matches!(op, Op::Find { .. }) {
                        src = format!("  println(v{}.find({}))\n", var(*v), text);
                        out.push_str(&match pos {
                            Some(p) => format!("some({p})\n"),
                            None => "none\n".to_string(),
                        });
                    } else {
                        src = format!("  println(v{}.contains({}))\n", var(*v), text);
                        out.push_str(&format!("{}\n", pos.is_some()));
                    }
                }
                Op::Iter { v } => {
                    src = format!("  for x in v{} {{\n    print(x)\n    print(\";\")\n  }}\n  println(\"\")\n", var(*v));
                    let a = m.vars[var(*v)];
                    for x in &m.heap[a] {
                        out.push_str(&m.render(x));
                        out.push(';');
                    }
                    out.push('\n');
                }
                Op::Eq { a, b } => {
                    src = format!("  println(v{} == v{})\n", var(*a), var(*b));
                    let e = m.equal(&MV::Ref(m.vars[var(*a)]), &MV::Ref(m.vars[var(*b)]));
                    out.push_str(&format!("{e}\n"));
                }
                Op::InnerPush { v, idx, x } => {
                    let a = m.vars[var(*v)];
                    let i = m.resolve(idx, m.heap[a].len());
                    src = format!("  v{}[{}].push({})\n", var(*v), int_lit(i), int_lit(*x));
                    let i = m.check(i, m.heap[a].len()).inspect_err(|_| facts.oob_index = true)?;
                    let MV::Ref(inner) = m.heap[a][i].clone() else { unreachable!() };
                    m.heap[inner].push(MV::Int(*x));
                    touched = Some(inner);
                }
                Op::InnerPop { v, idx } => {
                    let a = m.vars[var(*v)];
                    let i = m.resolve(idx, m.heap[a].len());
                    src = format!("  println(v{}[{}].pop())\n", var(*v), int_lit(i));
                    let i = m.check(i, m.heap[a].len()).inspect_err(|_| facts.oob_index = true)?;
                    let MV::Ref(inner) = m.heap[a][i].clone() else { unreachable!() };
                    match m.heap[inner].pop() {
                        Some(x) => {
                            out.push_str(&m.render(&x));
                            out.push('\n');
                            touched = Some(inner);
                        }
                        None => {
                            facts.pop_empty = true;
                            return Err(Oob);
                        }
                    }
                }
                Op::InnerSet { v, idx, j, x } => {
                    let a = m.vars[var(*v)];
                    let i = m.resolve(idx, m.heap[a].len());
                    // the inner index is resolved against the inner array when the outer index is valid
                    let jv = match m.check(i, m.heap[a].len()) {
                        Ok(iu) => {
                            let MV::Ref(inner) = m.heap[a][iu].clone() else { unreachable!() };
                            m.resolve(j, m.heap[inner].len())
                        }
                        Err(_) => 0,
                    };
                    src = format!("  v{}[{}][{}] = {}\n", var(*v), int_lit(i), int_lit(jv), int_lit(*x));
                    let i = m.check(i, m.heap[a].len()).inspect_err(|_| facts.oob_index = true)?;
                    let MV::Ref(inner) = m.heap[a][i].clone() else { unreachable!() };
                    let ju = m.check(jv, m.heap[inner].len()).inspect_err(|_| facts.oob_index = true)?;
                    m.heap[inner][ju] = MV::Int(*x);
                    touched = Some(inner);
                }
                Op::Share { dst, src: s, idx } => {
                    let a = m.vars[var(*s)];
                    let d = m.vars[var(*dst)];
                    let i = m.resolve(idx, m.heap[a].len());
                    if let Ok(iu) = m.check(i, m.heap[a].len()) {
                        if m.heap[d].contains(&m.heap[a][iu]) {
                            // the target already holds this inner array: what clone does with
                            // sharing inside one array is not specified, so this is not generated
                            name = "len";
                            src = format!("  println(v{}.len())\n", var(*dst));
                            out.push_str(&format!("{}\n", m.heap[d].len()));
                            return Ok(());
                        }
                    }
                    src = format!("  v{}.push(v{}[{}])\n", var(*dst), var(*s), int_lit(i));
                    let i = m.check(i, m.heap[a].len()).inspect_err(|_| facts.oob_index = true)?;
                    let e = m.heap[a][i].clone();
                    m.heap[d].push(e);
                    touched = Some(d);
                }
            }
            Ok(())
        })();
        op_src.push(src.clone());
        names.push(name);
        body.push_str(&src);
        match r {
            Err(Oob) => {
                stops_at = Some(k);
                facts.executed = k;
                break;
            }
            Ok(()) => {
                if let Some(t) = touched {
                    if m.var_refs(t) >= 2 || m.inner_shared(t) {
                        facts.alias_mutation = true;
                    }
                    // a mutation of an array of a clone pair, or of an inner array below one
                    if clone_ids.contains(&t) || clone_ids.iter().any(|c| m.heap[*c].iter().any(|x| matches!(x, MV::Ref(r) if *r == t))) {
                        facts.clone_mutated = true;
                    }
                }
                body.push_str(&obs_src);
                let line = (0..nv).map(|k| m.render_arr(m.vars[k])).collect::<Vec<_>>().join("|");
                out.push_str(&line);
                out.push('\n');
                chunks.push(out);
                for k in 0..nv {
                    facts.max_len = facts.max_len.max(m.heap[m.vars[k]].len());
                }
                facts.executed = k + 1;
            }
        }
    }
    Built { body, chunks, stops_at, facts, op_src, names, excluded }
}

/// literal text of a model value (used when the needle is an element taken from the array)
fn model_lit(m: &Model, v: &MV) -> String {
    match v {
        MV::Int(n) => int_lit(*n),
        MV::Str(s) => str_lit(s),
        MV::Nil => "nil".into(),
        MV::Ref(id) => format!("[{}]", m.heap[*id].iter().map(|x| model_lit(m, x)).collect::<Vec<_>>().join(", ")),
    }
}

/// Make a case expressible: nested-only operations on other element types become their flat
/// counterparts. (A Share that would put the same inner array twice into one outer array is
/// emitted as `len` by `build`: what `clone` does with internal sharing is not specified.)
pub fn normalise(mut c: ArrCase) -> ArrCase {
    c.ety &= 3;
    c.nvars = c.nvars.clamp(1, 3);
    c.ops.truncate(40);
    let ety = c.ety;
    for op in c.ops.iter_mut() {
        if ety != 2 {
            *op = match op.clone() {
                Op::InnerPush { v, x, .. } => Op::Push { v, x: coerce(&El::Int(x), ety) },
                Op::InnerPop { v, .. } => Op::Pop { v },
                Op::InnerSet { v, idx, x, .. } => Op::Set { v, idx, x: coerce(&El::Int(x), ety) },
                Op::Share { dst, src, .. } => Op::Alias { dst, src },
                o => o,
            };
        }
    }
    c
}

// ---------------------------------------------------------------------------------------------
// generators

fn el_strategy(ety: u8) -> BoxedStrategy<El> {
    match ety {
        0 => prop_oneof![6 => (-2i64..5).prop_map(El::Int), 1 => int_strategy().prop_map(El::Int)].boxed(),
        1 => prop_oneof![
            5 => proptest::sample::select(vec!["", "a", "b", "ab", "a, b", "[ x ]", "é", "nil", "0"]).prop_map(|s| El::Str(s.to_string())),
            1 => string_strategy(3).prop_map(El::Str),
        ]
        .boxed(),
        2 => proptest::collection::vec(-1i64..3, 0..=3).prop_map(El::Arr).boxed(),
        _ => Just(El::Nil).boxed(),
    }
}

fn idx_strategy() -> BoxedStrategy<Idx> {
    prop_oneof![
        90 => any::<u16>().prop_map(Idx::In),
        2 => Just(Idx::Len),
        1 => (0u8..3).prop_map(Idx::Past),
        2 => (0u8..3).prop_map(Idx::Neg),
        1 => prop_oneof![Just(Idx::Min), Just(Idx::Max)],
    ]
    .boxed()
}

fn pick_strategy(ety: u8) -> BoxedStrategy<Pick> {
    prop_oneof![3 => any::<u16>().prop_map(Pick::Present), 2 => el_strategy(ety).prop_map(Pick::Fresh)].boxed()
}

fn op_strategy(ety: u8, nvars: u8) -> BoxedStrategy<Op> {
    let v = || 0u8..nvars;
    let el = || el_strategy(ety);
    let mut alts: Vec<(u32, BoxedStrategy<Op>)> = vec![
        (3, (v(), prop_oneof![5 => proptest::collection::vec(el(), 0..=5), 1 => proptest::collection::vec(el(), 6..=17)]).prop_map(|(dst, elems)| Op::Lit { dst, elems }).boxed()),
        (6, (v(), v()).prop_map(|(dst, src)| Op::Alias { dst, src }).boxed()),
        (3, (v(), v()).prop_map(|(dst, src)| Op::CloneOf { dst, src }).boxed()),
        (1, (v(), el(), prop_oneof![3 => 0u8..5, 1 => 5u8..18]).prop_map(|(dst, x, n)| Op::Filled { dst, x, n }).boxed()),
        (3, (v(), idx_strategy()).prop_map(|(v, idx)| Op::Get { v, idx }).boxed()),
        (3, (v(), idx_strategy(), el()).prop_map(|(v, idx, x)| Op::Set { v, idx, x }).boxed()),
        (7, (v(), el()).prop_map(|(v, x)| Op::Push { v, x }).boxed()),
        (3, v().prop_map(|v| Op::Pop { v }).boxed()),
        (1, v().prop_map(|v| Op::Len { v }).boxed()),
        (1, v().prop_map(|v| Op::IsEmpty { v }).boxed()),
        (2, (v(), idx_strategy(), idx_strategy()).prop_map(|(v, i, j)| Op::Swap { v, i, j }).boxed()),
        (3, (v(), idx_strategy()).prop_map(|(v, idx)| Op::Remove { v, idx }).boxed()),
        (1, v().prop_map(|v| Op::Clear { v }).boxed()),
        (2, (v(), pick_strategy(ety)).prop_map(|(v, x)| Op::Find { v, x }).boxed()),
        (1, (v(), pick_strategy(ety)).prop_map(|(v, x)| Op::Contains { v, x }).boxed()),
        (2, v().prop_map(|v| Op::Iter { v }).boxed()),
        (2, (v(), v()).prop_map(|(a, b)| Op::Eq { a, b }).boxed()),
    ];
    if ety == 2 {
        alts.push((4, (v(), idx_strategy(), -1i64..9).prop_map(|(v, idx, x)| Op::InnerPush { v, idx, x }).boxed()));
        alts.push((1, (v(), idx_strategy()).prop_map(|(v, idx)| Op::InnerPop { v, idx }).boxed()));
        alts.push((1, (v(), idx_strategy(), idx_strategy(), -1i64..9).prop_map(|(v, idx, j, x)| Op::InnerSet { v, idx, j, x }).boxed()));
        alts.push((3, (v(), v(), idx_strategy()).prop_map(|(dst, src, idx)| Op::Share { dst, src, idx }).boxed()));
    }
    proptest::strategy::Union::new_weighted(alts).boxed()
}

pub fn case_strategy(skip: u8) -> BoxedStrategy<ArrCase> {
    (prop_oneof![4 => Just(0u8), 2 => Just(1u8), 4 => Just(2u8), 2 => Just(3u8)], prop_oneof![1 => Just(1u8), 3 => Just(2u8), 3 => Just(3u8)])
        .prop_flat_map(|(ety, nvars)| {
            // most variables start from a literal (as the first operations of the sequence)
            let init = proptest::collection::vec(proptest::option::weighted(0.8, proptest::collection::vec(el_strategy(ety), 1..=5)), nvars as usize);
            (Just(ety), Just(nvars), init, proptest::collection::vec(op_strategy(ety, nvars), 1..=40))
        })
        .prop_map(move |(ety, nvars, init, rest)| {
            let mut ops: Vec<Op> = init.into_iter().enumerate().filter_map(|(k, e)| e.map(|elems| Op::Lit { dst: k as u8, elems })).collect();
            ops.extend(rest);
            normalise(ArrCase { ety, nvars, ops, skip })
        })
        .boxed()
}

// ---------------------------------------------------------------------------------------------
// the property

/// index of the first operation whose expected output is not where it should be in `stdout`
fn first_diverging_op(chunks: &[String], stdout: &str) -> Option<usize> {
    let mut off = 0;
    for (k, ch) in chunks.iter().enumerate() {
        if stdout.len() < off + ch.len() || &stdout.as_bytes()[off..off + ch.len()] != ch.as_bytes() {
            return Some(k);
        }
        off += ch.len();
    }
    if stdout.len() > off { Some(chunks.len()) } else { None }
}

fn len_bucket(n: usize) -> &'static str {
    match n {
        0 => "0",
        1..=2 => "1-2",
        3..=5 => "3-5",
        6..=10 => "6-10",
        _ => "11+",
    }
}

pub fn judge_one(c: &ArrCase, b: &Built, r: &RunOut) -> Option<Failure> {
    let ety = ETYS[c.ety as usize & 3];
    let op_name = |k: usize| b.names.get(k).copied().unwrap_or("end");
    let expected: String = b.chunks.concat();
    let div = first_diverging_op(&b.chunks, &r.stdout);
    let at_op = div.or(b.stops_at).unwrap_or(c.ops.len());
    let detail = |extra: serde_json::Value| json!({"case": c, "body": b.body, "expected_stdout": expected, "got_stdout": r.stdout, "end": format!("{:?}", r.end), "expected_stop_at_op": b.stops_at, "more": extra});
    if let Some(f) = crash_failure(r) {
        return Some(f.feat(format!("ety:{ety}")).feat(format!("op:{}", op_name(at_op))).detail(detail(json!({"op_src": b.op_src.get(at_op)}))));
    }
    // the output diverged before the point where the program is expected to end: report that
    // operation (the way the program ends is then a consequence)
    // (a truncated output is a question of how the program ended, not of a wrong observation)
    let early_divergence = matches!(div, Some(k) if k < b.stops_at.unwrap_or(b.chunks.len())) && !expected.starts_with(r.stdout.as_str());
    let end_ok = early_divergence
        || match (&b.stops_at, &r.end) {
            (None, RunEnd::Done) => true,
            (Some(_), RunEnd::Error { kind: ErrKind::ArrayOutOfBounds, .. }) => true,
            _ => false,
        };
    if !end_ok {
        let exp = if b.stops_at.is_some() { "index-out-of-bounds error" } else { "normal completion" };
        let got = match &r.end {
            RunEnd::Error { kind, .. } => format!("runtime error {}", kind.tag()),
            other => format!("{other:?}"),
        };
        return Some(
            Failure::new("OutcomeMismatch", format!("operation #{at_op} ({}) on array<{ety}>: expected {exp}, got {got}", op_name(at_op)))
                .feat(format!("ety:{ety}"))
                .feat(format!("op:{}", op_name(at_op)))
                .feat(format!("expect:{}", if b.stops_at.is_some() { "oob" } else { "done" }))
                .detail(detail(json!({"op_src": b.op_src.get(at_op)}))),
        );
    }
    if let Some(k) = div {
        let off = first_diff(&r.stdout, &expected).unwrap_or(0);
        return Some(
            Failure::new(
                "ModelMismatch",
                format!("first diverging operation #{k} ({}) on array<{ety}>: model {:?} program {:?}", op_name(k), excerpt(&expected, off), excerpt(&r.stdout, off)),
            )
            .feat(format!("ety:{ety}"))
            .feat(format!("op:{}", op_name(k)))
            .detail(detail(json!({"op_src": b.op_src.get(k), "model_chunk": b.chunks.get(k)}))),
        );
    }
    None
}

pub struct ArrayModel;

impl Prop for ArrayModel {
    type Case = Vec<ArrCase>;
    fn name(&self) -> &'static str {
        "array_model"
    }
    fn rule(&self) -> &'static str {
        "one case = an operation sequence (<= 40 ops: literal, alias, clone, filled, get, set, push, pop, len, is_empty, swap, remove, clear, find, contains, for-iteration, ==, and for nested arrays inner push/pop/set and sharing an inner array) over 1-3 variables of array<int|string|array<int>|void>; every operation prints its result and all arrays; the whole output and the way the program ends are compared with a Vec model; non-trivial = the sequence reaches an empty array by pop/remove/clear or stops with an out-of-range index / pop on empty, and mutates an array reachable through two names; distinct by the sequence"
    }
    fn n_cases(&self, tier: Tier) -> u32 {
        tier.pick(4500, 45000)
    }
    fn strategy(&self, _tier: Tier, _f: &Findings) -> BoxedStrategy<Self::Case> {
        proptest::collection::vec(case_strategy(0), 1..=24).boxed()
    }
    fn split(&self, case: &Self::Case) -> Vec<Self::Case> {
        case.iter().map(|c| vec![c.clone()]).collect()
    }
    fn judge(&self, cases: &Self::Case, env: &mut Env) -> Verdict {
        let cases: Vec<ArrCase> = cases.iter().cloned().map(normalise).collect();
        let built: Vec<Built> = cases.iter().map(build).collect();
        let bodies: Vec<String> = built.iter().map(|b| b.body.clone()).collect();
        let (src, outs) = try_exec!(run_batch(env, "", &bodies, &RunOpts::default()));
        let mut st = CaseStats::default();
        if outs.len() != cases.len() {
            let r = &outs[0];
            if let Some(f) = crash_failure(r) {
                return Verdict::Fail(f);
            }
            return Verdict::Fail(Failure::new("VerdictMismatch", format!("array program rejected by the compiler: {:?}", r.compile)).feat("compile-rejected").detail(json!({"src": src})));
        }
        let mut first_fail = None;
        for ((c, b), r) in cases.iter().zip(built.iter()).zip(outs.iter()) {
            st.evals += 1;
            for (k, n) in &b.excluded {
                match st.excluded.iter_mut().find(|e| &e.0 == k) {
                    Some(e) => e.1 += n,
                    None => st.excluded.push((k.clone(), *n)),
                }
            }
            let f = &b.facts;
            let nt = (f.reached_empty || f.oob_index || f.pop_empty) && f.alias_mutation;
            if nt {
                st.nt(c);
            }
            st.label(format!("ety:{}", ETYS[c.ety as usize & 3]));
            st.label(format!("vars:{}", c.nvars));
            st.label(format!("max-len:{}", len_bucket(f.max_len)));
            st.label(format!("ops-executed:{}", len_bucket(f.executed)));
            st.label(if b.stops_at.is_some() { "ends:oob-error" } else { "ends:done" });
            for (flag, name) in [(f.alias_mutation, "alias-mutation"), (f.reached_empty, "reached-empty"), (f.oob_index, "oob-index"), (f.pop_empty, "pop-on-empty"), (f.clone_mutated, "clone-then-mutate")] {
                if flag {
                    st.label(format!("fact:{name}"));
                }
            }
            for n in &b.names {
                st.label(format!("op:{n}"));
            }
            if let Some(fl) = judge_one(c, b, r) {
                match env.findings.attribute(&fl) {
                    Some(k) => st.known_hits.push(k),
                    None => {
                        if first_fail.is_none() {
                            first_fail = Some(fl);
                        }
                    }
                }
            }
            if st.sample.is_none() && nt {
                st.sample = Some(json!({"src": b.body, "expected_stdout": b.chunks.concat(), "expected_end": if b.stops_at.is_some() { "index out of bounds" } else { "done" }, "got_end": format!("{:?}", r.end)}));
            }
        }
        match first_fail {
            Some(f) => Verdict::Fail(f),
            None => Verdict::Pass(st),
        }
    }
}

pub fn run(ctx: &mut Ctx) {
    ctx.assume("the reference is a Vec per array object with reference semantics for variables and nested arrays; remove(i) = swap with last + pop, filled(x, n) = n independent copies of x, clone = deep copy (prelude source, presented by the book as the definition of the array methods)");
    ctx.assume("out-of-range or negative index, and pop on an empty array, must stop the program with the runtime error 'indexed past the end of an array'; output printed before it is kept");
    ctx.assume("an array is never structurally modified while it is being iterated; no outer array holds the same inner array twice when it is cloned (neither is specified)");
    ctx.prop(&ArrayModel);
}
