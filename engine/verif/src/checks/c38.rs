//! C38 — `utils::arena::Arena` allocation is memory-safe for values of any size and alignment.
//!
//! A case is a constructor (new / default / with_capacity(0|1|7|64)) and a sequence (<= 300) of
//! allocations of `#[repr(align(A))] struct([u8; S])` values filled with a recognisable byte
//! pattern, S in {0,1,2,3,8,24,100,4096,70000}, A in {1,2,4,8,16,32,64}. The `utilsan` worker
//! (ASan build) performs them on the real arena and checks after every allocation: address % A
//! == 0, the range is disjoint from every earlier allocation, every earlier allocation (and its
//! `Ar` copy) still reads back its pattern. A worker killed by AddressSanitizer (write outside
//! the arena's buffers) or by a debug assertion on a misaligned write is a failure (HostAbort).

use super::utilsan::{self, Outcome};
use crate::harness::*;
use proptest::prelude::*;
use serde::{Deserialize, Serialize};
use serde_json::json;

pub const SIZES: [u32; 9] = [0, 1, 2, 3, 8, 24, 100, 4096, 70000];
pub const ALIGNS: [u32; 7] = [1, 2, 4, 8, 16, 32, 64];
pub const CTORS: [&str; 6] = ["new()", "default()", "with_capacity(0)", "with_capacity(1)", "with_capacity(7)", "with_capacity(64)"];
pub const CTOR_CAP: [u64; 6] = [0, 0, 0, 1, 7, 64];
pub const MAX_ALLOCS: usize = 300;
/// bound on the bytes one sequence may request (keeps 12 ASan workers small)
pub const MAX_BYTES: u64 = 3_000_000;

#[derive(Clone, Copy, Debug, Serialize, Deserialize, PartialEq, Eq, Hash)]
pub struct Al {
    /// payload bytes (size_of is this rounded up to the alignment)
    pub size: u32,
    pub align: u32,
}

#[derive(Clone, Debug, Serialize, Deserialize, PartialEq, Eq, Hash)]
pub struct ArenaCase {
    /// index into CTORS
    pub ctor: u8,
    pub allocs: Vec<Al>,
}

pub fn layout_size(a: &Al) -> u64 {
    let (s, al) = (a.size as u64, a.align.max(1) as u64);
    s.div_ceil(al) * al
}

#[derive(Default, Debug)]
pub struct Shape {
    /// allocations whose size exceeds the capacity of the buffer that is current at that time
    /// (documented policy: capacity doubles, or becomes the value's size if that is larger),
    /// with at least one smaller non-empty allocation before them
    pub big_after_small: u32,
    pub switches: u32,
    pub align32: u32,
    pub zst: u32,
    pub bytes: u64,
    pub kept: usize,
}

/// Classification under the growth policy stated in the source comments. Padding is taken from
/// the offset (an approximation: the real padding depends on the buffer address).
pub fn shape(case: &ArenaCase) -> Shape {
    let mut sh = Shape::default();
    let mut cap = CTOR_CAP[(case.ctor as usize).min(5)];
    let mut off = 0u64;
    let mut smallest_nonzero: Option<u64> = None;
    for a in case.allocs.iter().take(MAX_ALLOCS) {
        let size = layout_size(a);
        if sh.bytes + size > MAX_BYTES {
            break;
        }
        sh.kept += 1;
        sh.bytes += size;
        let al = a.align.max(1) as u64;
        let pad = (al - off % al) % al;
        if off + pad + size > cap {
            sh.switches += 1;
            if size > cap && smallest_nonzero.map(|m| m < size).unwrap_or(false) {
                sh.big_after_small += 1;
            }
            cap = (cap * 2).max(size);
            off = size;
        } else {
            off += pad + size;
        }
        if a.align >= 32 {
            sh.align32 += 1;
        }
        if size == 0 {
            sh.zst += 1;
        } else {
            smallest_nonzero = Some(smallest_nonzero.map(|m| m.min(size)).unwrap_or(size));
        }
    }
    sh
}

fn size_idx() -> impl Strategy<Value = usize> {
    // small values dominate; a page-sized and a 70 000-byte value appear in most long sequences
    prop_oneof![4 => 0usize..4, 6 => 4usize..7, 2 => Just(7usize), 1 => Just(8usize)]
}

fn align_idx() -> impl Strategy<Value = usize> {
    prop_oneof![5 => 0usize..4, 2 => Just(4usize), 2 => 5usize..7]
}

/// addresses differ from run to run: `0x7bd1e0` -> `0x#` (the full text stays in the detail)
fn scrub_addresses(m: &str) -> String {
    let mut out = String::new();
    let mut rest = m;
    while let Some(i) = rest.find("0x") {
        out.push_str(&rest[..i]);
        out.push_str("0x#");
        rest = rest[i + 2..].trim_start_matches(|c: char| c.is_ascii_hexdigit());
    }
    out.push_str(rest);
    out
}

pub struct ArenaSeq;

impl Prop for ArenaSeq {
    type Case = ArenaCase;
    fn name(&self) -> &'static str {
        "arena_seq"
    }
    fn rule(&self) -> &'static str {
        "one case = constructor (new | default | with_capacity(0|1|7|64)) + a sequence of <= 300 allocations (<= 3 MB in total) of #[repr(align(A))] byte-pattern values, payload S in {0,1,2,3,8,24,100,4096,70000} x A in {1,2,4,8,16,32,64}; after every allocation the AddressSanitizer-instrumented worker checks alignment of the returned reference, disjointness from all earlier allocations and that every earlier allocation still reads back its pattern; the fixed layer is every (constructor, S, A) alone and after one 1-byte allocation; non-trivial = under the documented growth policy (capacity doubles or becomes the value's size) at least one allocation is larger than the whole buffer current at that time and follows a smaller non-empty allocation, and at least one allocation has alignment >= 32; distinct by the whole (constructor, sequence)"
    }
    fn n_cases(&self, tier: Tier) -> u32 {
        tier.pick(3000, 30000)
    }
    fn strategy(&self, _tier: Tier, _f: &Findings) -> BoxedStrategy<ArenaCase> {
        let one = (size_idx(), align_idx()).prop_map(|(s, a)| Al { size: SIZES[s], align: ALIGNS[a] }).boxed();
        // length classes without prop_flat_map (which shrinks badly): the vector is cut to <= 12,
        // <= 80 or <= 300 elements; the class shrinks towards the short one
        (0u8..6, 0u8..7, proptest::collection::vec(one, 1..=MAX_ALLOCS))
            .prop_map(|(ctor, class, mut allocs)| {
                allocs.truncate(match class {
                    0..=2 => 12,
                    3..=5 => 80,
                    _ => MAX_ALLOCS,
                });
                ArenaCase { ctor, allocs }
            })
            .boxed()
    }
    fn fixed_cases(&self, _tier: Tier, _f: &Findings) -> Vec<ArenaCase> {
        let mut all = vec![];
        for ctor in 0..6u8 {
            for &size in &SIZES {
                for &align in &ALIGNS {
                    all.push(ArenaCase { ctor, allocs: vec![Al { size, align }] });
                    all.push(ArenaCase { ctor, allocs: vec![Al { size: 1, align: 1 }, Al { size, align }, Al { size: 8, align: 8 }] });
                }
            }
        }
        all
    }
    /// a failing fixed case is narrowed to its shortest failing prefix
    fn split(&self, case: &ArenaCase) -> Vec<ArenaCase> {
        (1..case.allocs.len()).map(|n| ArenaCase { ctor: case.ctor, allocs: case.allocs[..n].to_vec() }).collect()
    }
    fn exhaustive(&self, _tier: Tier) -> bool {
        false
    }
    fn judge(&self, case: &ArenaCase, env: &mut Env) -> Verdict {
        if case.ctor > 5 || case.allocs.iter().any(|a| !SIZES.contains(&a.size) || !ALIGNS.contains(&a.align)) {
            return Verdict::Inconclusive("case outside the domain (constructor / size / alignment)".into());
        }
        let sh = shape(case);
        let allocs = &case.allocs[..sh.kept];
        let req = json!({"kind": "arena", "ctor": case.ctor, "allocs": allocs});
        let feats = |f: Failure| -> Failure {
            let mut f = f.feat(format!("ctor:{}", CTORS[case.ctor as usize]));
            if sh.big_after_small > 0 {
                f = f.feat("shape:big-after-small");
            }
            if sh.align32 > 0 {
                f = f.feat("shape:align>=32");
            }
            f
        };
        let resp = match utilsan::call(env, &req) {
            Exec::Ok(v) => v,
            Exec::Abort(mut f) => {
                let d = f.detail.take();
                return Verdict::Fail(feats(f).detail(json!({"worker": d, "request": req})));
            }
            Exec::Inconclusive(s) => return Verdict::Inconclusive(s),
        };
        let stats = match utilsan::outcome(&resp) {
            Err(e) => return Verdict::Inconclusive(e),
            Ok(Outcome::Bad { step, what }) => {
                let (class, check) = if what.starts_with("unexpected panic") {
                    ("HostPanic", "panic")
                } else if what.contains("which is") {
                    ("ModelMismatch", "misaligned")
                } else if what.contains("overlaps") {
                    ("ModelMismatch", "overlap")
                } else {
                    ("ModelMismatch", "pattern")
                };
                let a = allocs.get(step.max(0) as usize);
                let mut f = Failure::new(class, norm_msg(&scrub_addresses(&what))).feat(format!("check:{check}"));
                if let Some(a) = a {
                    f = f.feat(format!("size:{}", a.size)).feat(format!("align:{}", a.align));
                }
                return Verdict::Fail(feats(f).detail(json!({"step": step, "what": what, "alloc": a, "request": req})));
            }
            Ok(Outcome::Ok(s)) => s,
        };
        let mut st = CaseStats::one();
        let nt = sh.big_after_small > 0 && sh.align32 > 0;
        if nt {
            st.nt(&(case.ctor, allocs));
        }
        st.label(format!("ctor:{}", CTORS[case.ctor as usize]));
        st.label(match (sh.big_after_small > 0, sh.align32 > 0) {
            (true, true) => "class:big-after-small + align>=32 (non-trivial)",
            (true, false) => "class:big-after-small only",
            (false, true) => "class:align>=32 only",
            (false, false) => "class:plain",
        });
        st.label(match allocs.len() {
            0..=1 => "allocs:1",
            2..=9 => "allocs:2-9",
            10..=79 => "allocs:10-79",
            _ => "allocs:80-300",
        });
        st.label(format!("model-buffer-switches:{}", sh.switches.min(12)));
        if let Some(j) = stats.get("address_jumps").and_then(|v| v.as_u64()) {
            st.label(format!("observed-address-jumps:{}", j.min(12)));
        }
        if sh.zst > 0 {
            st.label("has:zero-sized");
        }
        if allocs.len() < case.allocs.len() {
            st.label("truncated:byte-budget");
        }
        for a in allocs {
            st.label(format!("size:{}", a.size));
            st.label(format!("align:{}", a.align));
        }
        st.sample = Some(json!({"ctor": CTORS[case.ctor as usize], "allocs": allocs.iter().map(|a| json!([a.size, a.align])).collect::<Vec<_>>(), "worker_stats": stats}));
        Verdict::Pass(st)
    }
}

pub fn run(ctx: &mut Ctx) {
    ctx.assume("values are Copy byte-pattern structs: the arena never runs destructors, so no property about dropping allocated values is checked");
    ctx.assume("large allocations (> 256 bytes) are re-read in samples (first and last 64 bytes and every 97th byte) after each later allocation and completely at the end of the sequence");
    ctx.assume("the non-trivial classification models the growth policy in the source comments (double, or the value's size) with padding computed from the offset; it does not influence the verdict");
    utilsan::configure(ctx);
    if utilsan::bin().is_none() {
        ctx.harness_error("utilsan worker binary not found (./check builds engine/utilsan)");
        return;
    }
    if matches!(ctx.mode, Mode::Search) && !utilsan::preflight(ctx) {
        return;
    }
    ctx.prop(&ArenaSeq);
    // thorough tier: coverage-guided allocation sequences (ASan + alignment / overlap / pattern checks inside the target)
    let c = crate::campaign::Campaign { target: "fuzz_arena", sanitizer: "address", runs: 10_000, max_len: 120, jobs: 12, seeds: crate::campaign::byte_seeds(24, 120), dict: vec![] };
    crate::campaign::guided(ctx, &ArenaSeq, c, |b| Some(crate::fuzzside::arena_case(b)));
}
