//! C22 — generic and interface calls dispatch to the concrete type's code.
//! User types implement Equal / Ord / ToString / Clone / Hash / Num / Iterable+Iterator / Index with
//! methods that print an implementation tag; generic functions are instantiated at many types and
//! reached by operator, `for`, `x[i]`, method syntax, `Iface.method(x)`, lambdas and generic wrappers.
//! Oracle: a harness-side model of every implementation (tags and results), plus the metamorphic
//! check that the program with hand-specialised copies of the generic functions prints the same.

use crate::harness::*;
use crate::proto::*;
use crate::try_exec;
use proptest::prelude::*;
use serde::{Deserialize, Serialize};
use serde_json::json;

#[derive(Clone, Debug, Serialize, Deserialize, PartialEq, Eq, Hash)]
pub enum Gv {
    Int(i64),
    Str(String),
    Bool(bool),
    Ua(i64),
    Ub(String),
    /// Uc.Pp = None, Uc.Qq(n) = Some(n)
    Uc(Option<i64>),
    Arr(Vec<Gv>),
    Tup(Vec<Gv>),
    Opt(Option<Box<Gv>>),
    Vec2(i64, i64),
}

const DECLS: &str = r#"type Ua = {
  x: int
}
type Ub = {
  s: string
}
type Uc =
  | Pp
  | Qq(int)
type Vec2 = {
  x: int
  y: int
}
implement ToString for Ua {
  fn str(self) -> string {
    "Ua(" .. self.x .. ")"
  }
}
implement ToString for Ub {
  fn str(self) -> string {
    "Ub:" .. self.s
  }
}
implement ToString for Uc {
  fn str(self) -> string {
    match self {
      .Pp -> "Pp"
      .Qq(n) -> "Qq" .. n
    }
  }
}
implement ToString for Vec2 {
  fn str(self) -> string {
    "V(" .. self.x .. "," .. self.y .. ")"
  }
}
implement Equal for Ua {
  fn equal(a, b) {
    println("Ua.equal")
    a.x == b.x
  }
}
implement Equal for Ub {
  fn equal(a, b) {
    println("Ub.equal")
    a.s == b.s
  }
}
implement Equal for Uc {
  fn equal(a, b) {
    println("Uc.equal")
    a.str() == b.str()
  }
}
implement Ord for Ua {
  fn less_than(a, b) {
    println("Ua.lt")
    a.x < b.x
  }
  fn less_than_or_equal(a, b) {
    println("Ua.le")
    a.x <= b.x
  }
  fn greater_than(a, b) {
    println("Ua.gt")
    a.x > b.x
  }
  fn greater_than_or_equal(a, b) {
    println("Ua.ge")
    a.x >= b.x
  }
}
implement Ord for Ub {
  fn less_than(a, b) {
    println("Ub.lt")
    a.s < b.s
  }
  fn less_than_or_equal(a, b) {
    println("Ub.le")
    a.s <= b.s
  }
  fn greater_than(a, b) {
    println("Ub.gt")
    a.s > b.s
  }
  fn greater_than_or_equal(a, b) {
    println("Ub.ge")
    a.s >= b.s
  }
}
implement Clone for Ua {
  fn clone(self) {
    println("Ua.clone")
    Ua(self.x)
  }
}
implement Clone for Ub {
  fn clone(self) {
    println("Ub.clone")
    Ub(self.s)
  }
}
implement Hash for Ua {
  fn hash(a) {
    println("Ua.hash")
    a.x
  }
}
implement Hash for Ub {
  fn hash(a) {
    println("Ub.hash")
    string_count_bytes(a.s)
  }
}
implement Num for Vec2 {
  fn add(a, b) {
    println("Vec2.add")
    Vec2(a.x + b.x, a.y + b.y)
  }
  fn subtract(a, b) {
    println("Vec2.subtract")
    Vec2(a.x - b.x, a.y - b.y)
  }
  fn multiply(a, b) {
    println("Vec2.multiply")
    Vec2(a.x * b.x, a.y * b.y)
  }
  fn divide(a, b) {
    println("Vec2.divide")
    Vec2(a.x / b.x, a.y / b.y)
  }
  fn power(a, b) {
    println("Vec2.power")
    Vec2(a.x ^ b.x, a.y ^ b.y)
  }
}
type Cnt = {
  n: int
}
type CntIt = {
  cur: int
  end: int
}
implement Iterable for Cnt {
  fn make_iterator(self) -> CntIt {
    println("Cnt.make_iterator")
    CntIt(0, self.n)
  }
}
implement Iterator for CntIt {
  fn next(self) -> option<int> {
    if self.cur >= self.end {
      .none
    } else {
      let r = self.cur * 10
      self.cur = self.cur + 1
      .some(r)
    }
  }
}
type Grid = {
  cells: array<int>
}
implement Index for Grid {
  fn index_get(self, index: int) -> int {
    println("Grid.get")
    self.cells[index]
  }
  fn index_set(self, index: int, val: int) -> void {
    println("Grid.set")
    self.cells[index] = val
  }
}
"#;

const LBL_DECLS: &str = r#"interface Lbl {
  fn label(prefix: string, x: Self) -> string
  fn pick(k: int, a: Self, b: Self) -> Self
}
implement Lbl for int {
  fn label(prefix, x) {
    prefix .. "int:" .. x
  }
  fn pick(k, a, b) {
    if k == 0 { a } else { b }
  }
}
implement Lbl for string {
  fn label(prefix, x) {
    prefix .. "string:" .. x
  }
  fn pick(k, a, b) {
    if k == 0 { a } else { b }
  }
}
implement Lbl for Ua {
  fn label(prefix, x) {
    prefix .. "Ua:" .. x.x
  }
  fn pick(k, a, b) {
    if k == 0 { b } else { a }
  }
}
implement Lbl for Uc {
  fn label(prefix, x) {
    prefix .. "Uc:" .. x
  }
  fn pick(k, a, b) {
    if k == 0 { a } else { b }
  }
}
"#;

const GENERICS: &str = r#"fn show(x: T ToString) -> string {
  "<" .. x .. ">"
}
fn wrap_show(x: T ToString) -> string {
  show(x) .. "!"
}
fn same(a: T Equal, b: T) -> bool {
  a == b
}
fn differ(a: T Equal, b: T) -> bool {
  a != b
}
fn maxof(a: T Ord, b: T) -> T {
  if a < b { b } else { a }
}
fn ordered(a: T Ord, b: T) -> bool {
  a <= b
}
fn dup(x: T Clone) -> (T, T) {
  (Clone.clone(x), Clone.clone(x))
}
fn apply(f: T -> U, x: T) -> U {
  f(x)
}
fn first(a: array<T>) -> T {
  a[0]
}
fn hcode(x: T Hash) -> int {
  Hash.hash(x)
}
fn addup(a: T Num, b: T) -> T {
  a + b
}
fn glabel(x: T Lbl) -> string {
  Lbl.label("g ", x)
}
fn gpick(k: int, a: T Lbl, b: T) -> string {
  Lbl.label("p ", Lbl.pick(k, a, b))
}
fn lshow(x: T ToString) -> string {
  let g = () -> "<" .. x .. ">"
  g()
}
fn lshow2(x: T ToString) -> string {
  let h = (z: int) -> {
    let k = () -> show(x) .. z
    k()
  }
  h(7)
}
fn tshow(x: T ToString) -> string {
  let c: channel<string> = channel()
  task {
    c.write("<" .. x .. ">")
  }
  c.read()
}
fn lsame(a: T Equal, b: T) -> bool {
  let g = () -> a == b
  g()
}
"#;

impl Gv {
    fn ty(&self) -> String {
        match self {
            Gv::Int(_) => "int".into(),
            Gv::Str(_) => "string".into(),
            Gv::Bool(_) => "bool".into(),
            Gv::Ua(_) => "Ua".into(),
            Gv::Ub(_) => "Ub".into(),
            Gv::Uc(_) => "Uc".into(),
            Gv::Vec2(..) => "Vec2".into(),
            Gv::Arr(v) => format!("array<{}>", v[0].ty()),
            Gv::Tup(v) => format!("({})", v.iter().map(|x| x.ty()).collect::<Vec<_>>().join(", ")),
            Gv::Opt(Some(x)) => format!("option<{}>", x.ty()),
            Gv::Opt(None) => "option<int>".into(),
        }
    }
    fn ident(&self) -> String {
        self.ty().replace(['<', '>', '(', ')', ',', ' '], "_")
    }
    fn lit(&self) -> String {
        match self {
            Gv::Int(n) => {
                if *n < 0 {
                    format!("({n})")
                } else {
                    n.to_string()
                }
            }
            Gv::Str(s) => crate::g::values::str_lit(s),
            Gv::Bool(b) => b.to_string(),
            Gv::Ua(x) => format!("Ua({})", Gv::Int(*x).lit()),
            Gv::Ub(s) => format!("Ub({})", crate::g::values::str_lit(s)),
            Gv::Uc(None) => "Uc.Pp".into(),
            Gv::Uc(Some(n)) => format!("Uc.Qq({})", Gv::Int(*n).lit()),
            Gv::Vec2(x, y) => format!("Vec2({}, {})", Gv::Int(*x).lit(), Gv::Int(*y).lit()),
            Gv::Arr(v) => format!("[{}]", v.iter().map(|x| x.lit()).collect::<Vec<_>>().join(", ")),
            Gv::Tup(v) => format!("({})", v.iter().map(|x| x.lit()).collect::<Vec<_>>().join(", ")),
            Gv::Opt(Some(x)) => format!("option.some({})", x.lit()),
            Gv::Opt(None) => "option.none".into(),
        }
    }
    fn render(&self) -> String {
        match self {
            Gv::Int(n) => n.to_string(),
            Gv::Str(s) => s.clone(),
            Gv::Bool(b) => b.to_string(),
            Gv::Ua(x) => format!("Ua({x})"),
            Gv::Ub(s) => format!("Ub:{s}"),
            Gv::Uc(None) => "Pp".into(),
            Gv::Uc(Some(n)) => format!("Qq{n}"),
            Gv::Vec2(x, y) => format!("V({x},{y})"),
            Gv::Arr(v) => format!("[ {} ]", v.iter().map(|x| x.render()).collect::<Vec<_>>().join(", ")),
            Gv::Tup(v) => format!("({})", v.iter().map(|x| x.render()).collect::<Vec<_>>().join(", ")),
            Gv::Opt(Some(x)) => format!("some({})", x.render()),
            Gv::Opt(None) => "none".into(),
        }
    }
}

/// the model: executes an implementation, appending its tag lines to `out`
struct M {
    out: String,
}

impl M {
    fn eq(&mut self, a: &Gv, b: &Gv) -> bool {
        match (a, b) {
            (Gv::Int(x), Gv::Int(y)) => x == y,
            (Gv::Str(x), Gv::Str(y)) => x == y,
            (Gv::Bool(x), Gv::Bool(y)) => x == y,
            (Gv::Ua(x), Gv::Ua(y)) => {
                self.out.push_str("Ua.equal\n");
                x == y
            }
            (Gv::Ub(x), Gv::Ub(y)) => {
                self.out.push_str("Ub.equal\n");
                x == y
            }
            (Gv::Uc(x), Gv::Uc(y)) => {
                self.out.push_str("Uc.equal\n");
                x == y
            }
            // prelude: length first, then element-wise until the first difference
            (Gv::Arr(x), Gv::Arr(y)) => {
                if x.len() != y.len() {
                    return false;
                }
                for (p, q) in x.iter().zip(y.iter()) {
                    if !self.eq(p, q) {
                        return false;
                    }
                }
                true
            }
            // prelude: (a1 == b1) and (a2 == b2) ... short-circuit
            (Gv::Tup(x), Gv::Tup(y)) => {
                for (p, q) in x.iter().zip(y.iter()) {
                    if !self.eq(p, q) {
                        return false;
                    }
                }
                true
            }
            _ => panic!("model: eq on {a:?} {b:?}"),
        }
    }
    /// op: 0 lt, 1 le, 2 gt, 3 ge
    fn ord(&mut self, op: u8, a: &Gv, b: &Gv) -> bool {
        let tag = ["lt", "le", "gt", "ge"][op as usize];
        let cmp = |o: std::cmp::Ordering| match op {
            0 => o.is_lt(),
            1 => o.is_le(),
            2 => o.is_gt(),
            _ => o.is_ge(),
        };
        match (a, b) {
            (Gv::Int(x), Gv::Int(y)) => cmp(x.cmp(y)),
            (Gv::Str(x), Gv::Str(y)) => cmp(x.as_bytes().cmp(y.as_bytes())),
            (Gv::Ua(x), Gv::Ua(y)) => {
                self.out.push_str(&format!("Ua.{tag}\n"));
                cmp(x.cmp(y))
            }
            (Gv::Ub(x), Gv::Ub(y)) => {
                self.out.push_str(&format!("Ub.{tag}\n"));
                cmp(x.as_bytes().cmp(y.as_bytes()))
            }
            // prelude, 2-tuples: for lt/le: if lt(a1,b1) true; if gt(a1,b1) false; op(a2,b2)
            //                    for gt/ge: if gt(a1,b1) true; if lt(a1,b1) false; op(a2,b2)
            (Gv::Tup(x), Gv::Tup(y)) if x.len() == 2 => {
                let (first, second) = if op <= 1 { (0u8, 2u8) } else { (2, 0) };
                if self.ord(first, &x[0], &y[0]) {
                    return true;
                }
                if self.ord(second, &x[0], &y[0]) {
                    return false;
                }
                self.ord(op, &x[1], &y[1])
            }
            _ => panic!("model: ord on {a:?} {b:?}"),
        }
    }
    fn clone_v(&mut self, a: &Gv) -> Gv {
        match a {
            Gv::Ua(x) => {
                self.out.push_str("Ua.clone\n");
                Gv::Ua(*x)
            }
            Gv::Ub(s) => {
                self.out.push_str("Ub.clone\n");
                Gv::Ub(s.clone())
            }
            Gv::Arr(v) => Gv::Arr(v.iter().map(|x| self.clone_v(x)).collect()),
            other => other.clone(),
        }
    }
    fn hash(&mut self, a: &Gv) -> i64 {
        match a {
            Gv::Int(n) => *n,
            Gv::Bool(b) => *b as i64,
            Gv::Str(s) => {
                let mut h: i64 = -3750763034362895579;
                for b in s.bytes() {
                    h ^= b as i64;
                    h = h.wrapping_mul(1099511628211);
                }
                h
            }
            Gv::Ua(x) => {
                self.out.push_str("Ua.hash\n");
                *x
            }
            Gv::Ub(s) => {
                self.out.push_str("Ub.hash\n");
                s.len() as i64
            }
            Gv::Arr(v) | Gv::Tup(v) => {
                let mut h: i64 = 17;
                for x in v {
                    let hx = self.hash(x);
                    h = h.wrapping_mul(31).wrapping_add(hx);
                }
                h
            }
            _ => panic!("model: hash on {a:?}"),
        }
    }
}

fn has_equal(v: &Gv) -> bool {
    match v {
        Gv::Int(_) | Gv::Str(_) | Gv::Bool(_) | Gv::Ua(_) | Gv::Ub(_) | Gv::Uc(_) => true,
        Gv::Arr(x) => x.iter().all(has_equal),
        Gv::Tup(x) => x.len() <= 4 && x.iter().all(has_equal),
        _ => false,
    }
}
fn has_ord(v: &Gv) -> bool {
    match v {
        Gv::Int(_) | Gv::Str(_) | Gv::Ua(_) | Gv::Ub(_) => true,
        Gv::Tup(x) => x.len() == 2 && x.iter().all(has_ord),
        _ => false,
    }
}
fn has_clone(v: &Gv) -> bool {
    match v {
        Gv::Int(_) | Gv::Str(_) | Gv::Bool(_) | Gv::Ua(_) | Gv::Ub(_) => true,
        Gv::Arr(x) => x.iter().all(has_clone),
        _ => false,
    }
}
fn has_hash(v: &Gv) -> bool {
    match v {
        Gv::Int(_) | Gv::Str(_) | Gv::Bool(_) | Gv::Ua(_) | Gv::Ub(_) => true,
        Gv::Arr(x) => x.iter().all(has_hash),
        Gv::Tup(x) => (2..=4).contains(&x.len()) && x.iter().all(has_hash),
        _ => false,
    }
}

#[derive(Clone, Debug, Serialize, Deserialize)]
pub enum Call {
    Show(Gv),
    WrapShow(Gv),
    Same(Gv, Gv),
    Differ(Gv, Gv),
    MaxOf(Gv, Gv),
    Ordered(Gv, Gv),
    Dup(Gv),
    ApplyShow(Gv),
    /// a lambda / nested lambda / task inside a generic function that captures the generic parameter:
    /// 0 lshow, 1 lshow2, 2 tshow
    ClosShow(u8, Gv),
    /// a lambda capturing two generic parameters and using the constraint's operator
    ClosSame(Gv, Gv),
    /// user interface whose methods take `Self` in a later position: 0 direct, 1 through a generic function
    Label(u8, Gv),
    /// Lbl.pick(k, a, b) through a generic function (Self in positions 2 and 3 and as the result)
    Pick(u8, Gv, Gv),
    First(Vec<Gv>),
    Hcode(Gv),
    AddUp(i64, i64, i64, i64),
    /// direct operator on values: 0 ==, 1 !=, 2 <, 3 <=, 4 >, 5 >=
    Op(u8, Gv, Gv),
    /// Vec2 arithmetic: 0 + 1 - 2 * 3 / 4 ^
    NumOp(u8, i64, i64, i64, i64),
    Method(Gv),
    ForCnt(u8),
    GridSetGet(u8, i64),
}

/// returns (generic-call expression or statements, specialised form, model output)
fn emit(c: &Call, k: usize, m: &mut M, spec_fns: &mut Vec<String>) -> Option<(String, String)> {
    let mut spec = |name: &str, params: &[(&str, String)], ret: String, body: &str, spec_fns: &mut Vec<String>| -> String {
        let fname = format!("{name}_s{k}");
        let ps = params.iter().map(|(n, t)| format!("{n}: {t}")).collect::<Vec<_>>().join(", ");
        spec_fns.push(format!("fn {fname}({ps}) -> {ret} {{\n  {body}\n}}\n"));
        fname
    };
    match c {
        Call::Show(v) => {
            let f = spec("show", &[("x", v.ty())], "string".into(), "\"<\" .. x .. \">\"", spec_fns);
            m.out.push_str(&format!("<{}>\n", v.render()));
            Some((format!("println(show({}))\n", v.lit()), format!("println({f}({}))\n", v.lit())))
        }
        Call::WrapShow(v) => {
            let f1 = spec("show", &[("x", v.ty())], "string".into(), "\"<\" .. x .. \">\"", spec_fns);
            let fname = format!("wrap_show_s{k}");
            spec_fns.push(format!("fn {fname}(x: {}) -> string {{\n  {f1}(x) .. \"!\"\n}}\n", v.ty()));
            m.out.push_str(&format!("<{}>!\n", v.render()));
            Some((format!("println(wrap_show({}))\n", v.lit()), format!("println({fname}({}))\n", v.lit())))
        }
        Call::Same(a, b) | Call::Differ(a, b) => {
            if !has_equal(a) || a.ty() != b.ty() {
                return None;
            }
            let differ = matches!(c, Call::Differ(..));
            let (g, body) = if differ { ("differ", "a != b") } else { ("same", "a == b") };
            let f = spec(g, &[("a", a.ty()), ("b", a.ty())], "bool".into(), body, spec_fns);
            let r = m.eq(a, b);
            m.out.push_str(&format!("{}\n", r != differ));
            Some((format!("println({g}({}, {}))\n", a.lit(), b.lit()), format!("println({f}({}, {}))\n", a.lit(), b.lit())))
        }
        Call::MaxOf(a, b) => {
            if !has_ord(a) || a.ty() != b.ty() {
                return None;
            }
            let f = spec("maxof", &[("a", a.ty()), ("b", a.ty())], a.ty(), "if a < b { b } else { a }", spec_fns);
            let r = if m.ord(0, a, b) { b } else { a };
            m.out.push_str(&format!("{}\n", r.render()));
            Some((format!("println(maxof({}, {}))\n", a.lit(), b.lit()), format!("println({f}({}, {}))\n", a.lit(), b.lit())))
        }
        Call::Ordered(a, b) => {
            if !has_ord(a) || a.ty() != b.ty() {
                return None;
            }
            let f = spec("ordered", &[("a", a.ty()), ("b", a.ty())], "bool".into(), "a <= b", spec_fns);
            let r = m.ord(1, a, b);
            m.out.push_str(&format!("{r}\n"));
            Some((format!("println(ordered({}, {}))\n", a.lit(), b.lit()), format!("println({f}({}, {}))\n", a.lit(), b.lit())))
        }
        Call::Dup(v) => {
            if !has_clone(v) {
                return None;
            }
            let f = spec("dup", &[("x", v.ty())], format!("({}, {})", v.ty(), v.ty()), "(Clone.clone(x), Clone.clone(x))", spec_fns);
            let c1 = m.clone_v(v);
            let c2 = m.clone_v(v);
            m.out.push_str(&format!("({}, {})\n", c1.render(), c2.render()));
            Some((format!("println(dup({}))\n", v.lit()), format!("println({f}({}))\n", v.lit())))
        }
        Call::ApplyShow(v) => {
            // a lambda that calls a generic function, passed to a generic function (two levels);
            // a function type whose single parameter is a tuple has no annotation syntax
            if matches!(v, Gv::Tup(_)) {
                return None;
            }
            let f1 = spec("show", &[("x", v.ty())], "string".into(), "\"<\" .. x .. \">\"", spec_fns);
            let aname = format!("apply_s{k}");
            spec_fns.push(format!("fn {aname}(f: {} -> string, x: {}) -> string {{\n  f(x)\n}}\n", if matches!(v, Gv::Tup(_)) { format!("({})", v.ty()) } else { v.ty() }, v.ty()));
            m.out.push_str(&format!("<{}>\n", v.render()));
            if matches!(v, Gv::Tup(_)) {
                return None;
            }
            Some((format!("println(apply((q: {}) -> show(q), {}))\n", v.ty(), v.lit()), format!("println({aname}((q: {}) -> {f1}(q), {}))\n", v.ty(), v.lit())))
        }
        Call::ClosShow(which, v) => {
            let t = v.ty();
            let (g, body, out) = match which % 3 {
                0 => ("lshow", "let g = () -> \"<\" .. x .. \">\"\n  g()".to_string(), format!("<{}>\n", v.render())),
                1 => {
                    let f1 = spec("show", &[("x", t.clone())], "string".into(), "\"<\" .. x .. \">\"", spec_fns);
                    ("lshow2", format!("let h = (z: int) -> {{\n    let k = () -> {f1}(x) .. z\n    k()\n  }}\n  h(7)"), format!("<{}>7\n", v.render()))
                }
                _ => ("tshow", "let c: channel<string> = channel()\n  task {\n    c.write(\"<\" .. x .. \">\")\n  }\n  c.read()".to_string(), format!("<{}>\n", v.render())),
            };
            let fname = format!("{g}_c{k}");
            spec_fns.push(format!("fn {fname}(x: {t}) -> string {{\n  {body}\n}}\n"));
            m.out.push_str(&out);
            Some((format!("println({g}({}))\n", v.lit()), format!("println({fname}({}))\n", v.lit())))
        }
        Call::ClosSame(a, b) => {
            if !has_equal(a) || a.ty() != b.ty() {
                return None;
            }
            let f = spec("lsame", &[("a", a.ty()), ("b", a.ty())], "bool".into(), "let g = () -> a == b\n  g()", spec_fns);
            let r = m.eq(a, b);
            m.out.push_str(&format!("{r}\n"));
            Some((format!("println(lsame({}, {}))\n", a.lit(), b.lit()), format!("println({f}({}, {}))\n", a.lit(), b.lit())))
        }
        Call::Label(which, v) => {
            let tag = match v {
                Gv::Int(n) => format!("int:{n}"),
                Gv::Str(x) => format!("string:{x}"),
                Gv::Ua(n) => format!("Ua:{n}"),
                Gv::Uc(_) => format!("Uc:{}", v.render()),
                _ => return None,
            };
            if which % 2 == 0 {
                m.out.push_str(&format!("d {tag}\n"));
                let c = format!("println(Lbl.label(\"d \", {}))\n", v.lit());
                Some((c.clone(), c))
            } else {
                let f = spec("glabel", &[("x", v.ty())], "string".into(), "Lbl.label(\"g \", x)", spec_fns);
                m.out.push_str(&format!("g {tag}\n"));
                Some((format!("println(glabel({}))\n", v.lit()), format!("println({f}({}))\n", v.lit())))
            }
        }
        Call::Pick(k, a, b) => {
            if a.ty() != b.ty() {
                return None;
            }
            let k = (*k % 2) as i64;
            // Ua's implementation picks the other way round
            let chosen = match a {
                Gv::Ua(_) => if k == 0 { b } else { a },
                Gv::Int(_) | Gv::Str(_) | Gv::Uc(_) => if k == 0 { a } else { b },
                _ => return None,
            };
            let tag = match chosen {
                Gv::Int(n) => format!("int:{n}"),
                Gv::Str(x) => format!("string:{x}"),
                Gv::Ua(n) => format!("Ua:{n}"),
                _ => format!("Uc:{}", chosen.render()),
            };
            let f = spec("gpick", &[("k", "int".into()), ("a", a.ty()), ("b", a.ty())], "string".into(), "Lbl.label(\"p \", Lbl.pick(k, a, b))", spec_fns);
            m.out.push_str(&format!("p {tag}\n"));
            Some((format!("println(gpick({k}, {}, {}))\n", a.lit(), b.lit()), format!("println({f}({k}, {}, {}))\n", a.lit(), b.lit())))
        }
        Call::First(vs) => {
            if vs.is_empty() || vs.iter().any(|x| x.ty() != vs[0].ty()) {
                return None;
            }
            let a = Gv::Arr(vs.clone());
            let f = spec("first", &[("a", a.ty())], vs[0].ty(), "a[0]", spec_fns);
            m.out.push_str(&format!("{}\n", vs[0].render()));
            Some((format!("println(first({}))\n", a.lit()), format!("println({f}({}))\n", a.lit())))
        }
        Call::Hcode(v) => {
            if !has_hash(v) {
                return None;
            }
            let f = spec("hcode", &[("x", v.ty())], "int".into(), "Hash.hash(x)", spec_fns);
            let h = m.hash(v);
            m.out.push_str(&format!("{h}\n"));
            Some((format!("println(hcode({}))\n", v.lit()), format!("println({f}({}))\n", v.lit())))
        }
        Call::AddUp(a, b, c2, d) => {
            let f = spec("addup", &[("a", "Vec2".into()), ("b", "Vec2".into())], "Vec2".into(), "a + b", spec_fns);
            let (x, y) = (Gv::Vec2(*a, *b), Gv::Vec2(*c2, *d));
            m.out.push_str("Vec2.add\n");
            m.out.push_str(&format!("{}\n", Gv::Vec2(a + c2, b + d).render()));
            Some((format!("println(addup({}, {}))\nprintln(addup(3, 4) + 1)\n", x.lit(), y.lit()), format!("println({f}({}, {}))\nprintln(3 + 4 + 1)\n", x.lit(), y.lit()))).map(|r| {
                m.out.push_str("8\n");
                r
            })
        }
        Call::Op(op, a, b) => {
            if a.ty() != b.ty() || (*op <= 1 && !has_equal(a)) || (*op >= 2 && !has_ord(a)) {
                return None;
            }
            let sym = ["==", "!=", "<", "<=", ">", ">="][*op as usize];
            let r = match op {
                0 => m.eq(a, b),
                1 => !m.eq(a, b),
                _ => m.ord(op - 2, a, b),
            };
            m.out.push_str(&format!("{r}\n"));
            let s = format!("println({} {sym} {})\n", a.lit(), b.lit());
            Some((s.clone(), s))
        }
        Call::NumOp(op, a, b, c2, d) => {
            let (c2, d) = (if *c2 == 0 { 1 } else { *c2 }, if *d == 0 { 1 } else { *d });
            let (sym, tag, r) = match op % 5 {
                0 => ("+", "add", Gv::Vec2(a + c2, b + d)),
                1 => ("-", "subtract", Gv::Vec2(a - c2, b - d)),
                2 => ("*", "multiply", Gv::Vec2(a * c2, b * d)),
                3 => ("/", "divide", Gv::Vec2(a / c2, b / d)),
                _ => ("^", "power", Gv::Vec2(a.pow((c2.unsigned_abs() % 4) as u32), b.pow((d.unsigned_abs() % 4) as u32))),
            };
            let (c2, d) = if op % 5 == 4 { ((c2.unsigned_abs() % 4) as i64, (d.unsigned_abs() % 4) as i64) } else { (c2, d) };
            m.out.push_str(&format!("Vec2.{tag}\n{}\n", r.render()));
            let s = format!("println({} {sym} {})\n", Gv::Vec2(*a, *b).lit(), Gv::Vec2(c2, d).lit());
            Some((s.clone(), s))
        }
        Call::Method(v) => {
            m.out.push_str(&format!("{}|{}\n", v.render(), v.render()));
            // bound to a variable first: method syntax directly on a qualified nullary variant
            // (`Uc.Pp.str()`) is read as a namespace path by the resolver
            let recv = format!("mv{k}");
            if matches!(v, Gv::Tup(_) | Gv::Opt(None)) {
                return None;
            }
            let s = format!("let mv{k}: {} = {}\nprintln(ToString.str({}) .. \"|\" .. {recv}.str())\n", v.ty(), v.lit(), v.lit());
            Some((s.clone(), s))
        }
        Call::ForCnt(n) => {
            let n = *n % 4;
            m.out.push_str("Cnt.make_iterator\n");
            for i in 0..n {
                m.out.push_str(&format!("{}\n", i as i64 * 10));
            }
            let s = format!("for v{k} in Cnt({n}) {{\n  println(v{k})\n}}\n");
            Some((s.clone(), s))
        }
        Call::GridSetGet(i, v) => {
            let i = *i % 3;
            // g[i] = v; g[i] + g[0]; g[i] += 5 (read through index_get, then index_set)
            m.out.push_str("Grid.set\nGrid.get\nGrid.get\nGrid.get\nGrid.set\n");
            let mut cells = [1i64, 2, 3];
            cells[i as usize] = *v;
            let sum = cells[i as usize] + cells[0];
            cells[i as usize] += 5;
            m.out.push_str(&format!("{sum}\n[ {}, {}, {} ]\n", cells[0], cells[1], cells[2]));
            let s = format!("let g{k} = Grid([1, 2, 3])\ng{k}[{i}] = {}\nlet sum{k} = g{k}[{i}] + g{k}[0]\ng{k}[{i}] += 5\nprintln(sum{k})\nprintln(g{k}.cells)\n", Gv::Int(*v).lit());
            Some((s.clone(), s))
        }
    }
}

#[derive(Clone, Debug, Serialize, Deserialize)]
pub struct DispatchCase {
    pub calls: Vec<Call>,
}

fn gv_strategy() -> BoxedStrategy<Gv> {
    let small = -3i64..30;
    let leaf = prop_oneof![
        3 => small.clone().prop_map(Gv::Int),
        2 => "[a-c]{0,3}".prop_map(Gv::Str),
        1 => any::<bool>().prop_map(Gv::Bool),
        4 => (0i64..4).prop_map(Gv::Ua),
        3 => "[a-b]{0,2}".prop_map(Gv::Ub),
        2 => proptest::option::of(0i64..3).prop_map(Gv::Uc),
    ];
    let l2 = leaf.clone();
    prop_oneof![
        6 => leaf.clone(),
        2 => (leaf.clone(), 1usize..4).prop_map(|(v, n)| Gv::Arr(vec![v; n])),
        2 => (l2.clone(), l2.clone()).prop_map(|(a, b)| Gv::Tup(vec![a, b])),
        1 => (l2.clone(), l2.clone(), l2).prop_map(|(a, b, c)| Gv::Tup(vec![a, b, c])),
        1 => leaf.prop_map(|v| Gv::Opt(Some(Box::new(v)))),
    ]
    .boxed()
}

/// a second value of the same type (same constructor shape), for binary calls
fn pair_strategy() -> BoxedStrategy<(Gv, Gv)> {
    (gv_strategy(), any::<u16>(), any::<bool>())
        .prop_map(|(a, salt, same)| {
            if same {
                return (a.clone(), a);
            }
            fn vary(v: &Gv, salt: u16) -> Gv {
                match v {
                    Gv::Int(n) => Gv::Int(n + (salt % 3) as i64 - 1),
                    Gv::Str(s) => Gv::Str(format!("{s}{}", ["", "a", "b"][salt as usize % 3])),
                    Gv::Bool(b) => Gv::Bool(*b != (salt % 2 == 0)),
                    Gv::Ua(x) => Gv::Ua((x + (salt % 3) as i64 - 1).max(0)),
                    Gv::Ub(s) => Gv::Ub(format!("{s}{}", ["", "a", "b"][salt as usize % 3])),
                    Gv::Uc(_) => Gv::Uc(if salt % 3 == 0 { None } else { Some((salt % 3) as i64) }),
                    Gv::Arr(v) => {
                        let mut w: Vec<Gv> = v.clone();
                        let i = salt as usize % w.len();
                        w[i] = vary(&w[i], salt / 7);
                        Gv::Arr(w)
                    }
                    Gv::Tup(v) => {
                        let mut w: Vec<Gv> = v.clone();
                        let i = salt as usize % w.len();
                        w[i] = vary(&w[i], salt / 7);
                        Gv::Tup(w)
                    }
                    other => other.clone(),
                }
            }
            let b = vary(&a, salt);
            (a, b)
        })
        .boxed()
}

pub struct Dispatch;

impl Prop for Dispatch {
    type Case = DispatchCase;
    fn name(&self) -> &'static str {
        "dispatch"
    }
    fn rule(&self) -> &'static str {
        "one case = 4..24 calls over user types (Ua, Ub, Uc, Vec2, Cnt, Grid) whose Equal / Ord / ToString / Clone / Hash / Num / Iterable+Iterator / Index implementations print a tag, and built-in types: generic functions (show, wrap_show, same, differ, maxof, ordered, dup, apply with a lambda calling a generic function, first, hcode, addup, lshow / lshow2 / tshow / lsame whose bodies are a lambda, a nested lambda or a task block capturing the generic parameters, and glabel / gpick over a user interface whose methods take Self in a later parameter position and return Self) instantiated at ints, strings, bools, user types, arrays, tuples and options; operators, `for`, `x[i]`, `x[i] +=`, method syntax and Iface.method(x); expected output (tag sequence and results) from a harness-side model of every implementation including the prelude's derived Equal/Ord/Hash/Clone for arrays and tuples; the same calls with hand-specialised copies of the generic functions must print the same; non-trivial = a generic function is instantiated at >= 2 different types, one of them a user type; distinct by case"
    }
    fn n_cases(&self, tier: Tier) -> u32 {
        tier.pick(5000, 50000)
    }
    fn strategy(&self, _tier: Tier, _f: &Findings) -> BoxedStrategy<Self::Case> {
        let n = -4i64..9;
        let call = prop_oneof![
            3 => gv_strategy().prop_map(Call::Show),
            2 => gv_strategy().prop_map(Call::WrapShow),
            3 => pair_strategy().prop_map(|(a, b)| Call::Same(a, b)),
            2 => pair_strategy().prop_map(|(a, b)| Call::Differ(a, b)),
            3 => pair_strategy().prop_map(|(a, b)| Call::MaxOf(a, b)),
            2 => pair_strategy().prop_map(|(a, b)| Call::Ordered(a, b)),
            2 => gv_strategy().prop_map(Call::Dup),
            2 => gv_strategy().prop_map(Call::ApplyShow),
            3 => (0u8..3, gv_strategy()).prop_map(|(w, v)| Call::ClosShow(w, v)),
            1 => (gv_strategy(), gv_strategy()).prop_map(|(a, b)| Call::ClosSame(a, b)),
            1 => gv_strategy().prop_map(|a| Call::ClosSame(a.clone(), a)),
            2 => (0u8..2, gv_strategy()).prop_map(|(w, v)| Call::Label(w, v)),
            2 => (0u8..2, gv_strategy(), gv_strategy()).prop_map(|(k, a, b)| Call::Pick(k, a, b)),
            1 => (0u8..2, gv_strategy()).prop_map(|(k, a)| Call::Pick(k, a.clone(), a)),
            1 => (gv_strategy(), 1usize..3).prop_map(|(v, k)| Call::First(vec![v; k])),
            2 => gv_strategy().prop_map(Call::Hcode),
            1 => (n.clone(), n.clone(), n.clone(), n.clone()).prop_map(|(a, b, c, d)| Call::AddUp(a, b, c, d)),
            4 => (0u8..6, pair_strategy()).prop_map(|(op, (a, b))| Call::Op(op, a, b)),
            2 => (0u8..5, n.clone(), n.clone(), n.clone(), n.clone()).prop_map(|(op, a, b, c, d)| Call::NumOp(op, a, b, c, d)),
            2 => gv_strategy().prop_map(Call::Method),
            1 => (0u8..4).prop_map(Call::ForCnt),
            1 => (0u8..3, n).prop_map(|(i, v)| Call::GridSetGet(i, v)),
        ];
        proptest::collection::vec(call, 4..24).prop_map(|calls| DispatchCase { calls }).boxed()
    }
    fn judge(&self, c: &Self::Case, env: &mut Env) -> Verdict {
        let mut m = M { out: String::new() };
        let mut spec_fns = vec![];
        let (mut generic_main, mut spec_main) = (String::new(), String::new());
        let mut insts: std::collections::BTreeMap<&'static str, std::collections::BTreeSet<String>> = Default::default();
        let mut st = CaseStats::one();
        for (k, call) in c.calls.iter().enumerate() {
            let before = m.out.len();
            match emit(call, k, &mut m, &mut spec_fns) {
                Some((g, s)) => {
                    generic_main.push_str(&g);
                    spec_main.push_str(&s);
                    let (name, ty): (&'static str, Option<String>) = match call {
                        Call::Show(v) => ("show", Some(v.ty())),
                        Call::WrapShow(v) => ("wrap_show", Some(v.ty())),
                        Call::Same(a, _) => ("same", Some(a.ty())),
                        Call::Differ(a, _) => ("differ", Some(a.ty())),
                        Call::MaxOf(a, _) => ("maxof", Some(a.ty())),
                        Call::Ordered(a, _) => ("ordered", Some(a.ty())),
                        Call::Dup(v) => ("dup", Some(v.ty())),
                        Call::ApplyShow(v) => ("apply", Some(v.ty())),
                        Call::ClosShow(w, v) => (["lshow", "lshow2", "tshow"][(*w % 3) as usize], Some(v.ty())),
                        Call::ClosSame(a, _) => ("lsame", Some(a.ty())),
                        Call::Label(w, v) => (if w % 2 == 0 { "direct" } else { "glabel" }, if w % 2 == 0 { None } else { Some(v.ty()) }),
                        Call::Pick(_, a, _) => ("gpick", Some(a.ty())),
                        Call::First(v) => ("first", Some(v[0].ty())),
                        Call::Hcode(v) => ("hcode", Some(v.ty())),
                        Call::AddUp(..) => ("addup", Some("Vec2+int".into())),
                        _ => ("direct", None),
                    };
                    st.label(format!("call:{name}"));
                    if let Some(t) = ty {
                        insts.entry(name).or_default().insert(t);
                    }
                }
                None => {
                    // constraint not satisfiable for this value: nothing emitted, model untouched
                    m.out.truncate(before);
                    // spec fns pushed before the early return are unused helper functions: harmless
                }
            }
        }
        let generic_src = format!("{DECLS}{LBL_DECLS}{GENERICS}{generic_main}");
        let spec_src = format!("{DECLS}{LBL_DECLS}{}{spec_main}", spec_fns.concat());
        let rg = try_exec!(env.run1(&generic_src, &RunOpts::default()));
        let rs = try_exec!(env.run1(&spec_src, &RunOpts::default()));
        st.evals = 2;
        for (r, src, which) in [(&rg, &generic_src, "generic"), (&rs, &spec_src, "specialised")] {
            if let Some(f) = crash_failure(r) {
                return Verdict::Fail(f.feat(format!("program:{which}")).detail(json!({"src": src})));
            }
            if let FrontVerdict::Diag(d) = &r.compile {
                return Verdict::Fail(Failure::new("VerdictMismatch", format!("{which} dispatch program rejected: {}", norm_msg(d.lines().find(|l| !l.trim().is_empty()).unwrap_or("")))).feat(format!("program:{which}")).detail(json!({"src": src, "diag": d})));
            }
            if !matches!(r.end, RunEnd::Done) {
                return Verdict::Fail(Failure::new("OutcomeMismatch", format!("{which} program ended with {}", format!("{:?}", r.end).chars().take(160).collect::<String>())).feat(format!("program:{which}")).detail(json!({"src": src})));
            }
        }
        let first_diff = |a: &str, b: &str| {
            let (x, y): (Vec<&str>, Vec<&str>) = (a.lines().collect(), b.lines().collect());
            let i = x.iter().zip(y.iter()).position(|(p, q)| p != q).unwrap_or(x.len().min(y.len()));
            format!("line {i}: expected {:?}, got {:?}", x.get(i), y.get(i))
        };
        if rg.stdout != m.out {
            return Verdict::Fail(Failure::new("ModelMismatch", format!("generic program vs implementation model: {}", first_diff(&m.out, &rg.stdout))).feat("program:generic").detail(json!({"src": generic_src, "expected": m.out, "got": rg.stdout})));
        }
        if rs.stdout != rg.stdout {
            return Verdict::Fail(Failure::new("OutcomeMismatch", format!("generic and hand-specialised programs differ: {}", first_diff(&rs.stdout, &rg.stdout))).feat("metamorphic").detail(json!({"generic": generic_src, "specialised": spec_src})));
        }
        let user = |t: &String| t.contains("Ua") || t.contains("Ub") || t.contains("Uc") || t.contains("Vec2");
        if insts.values().any(|ts| ts.len() >= 2 && ts.iter().any(user)) {
            st.nt(&generic_main);
            st.sample = Some(json!({"calls": generic_main, "expected_output": m.out}));
        }
        Verdict::Pass(st)
    }
}


// ---------------------------------------------------------------------------------------------
// types with the same name in different modules

#[derive(Clone, Debug, Serialize, Deserialize)]
pub enum NOp {
    Show(u8, i64),
    Same(u8, i64, i64),
    ArrShow(u8, Vec<i64>),
    TupShow(u8, u8, i64, i64),
    Direct(u8, i64),
}

#[derive(Clone, Debug, Serialize, Deserialize)]
pub struct SameNameCase {
    /// number of modules (2 or 3), each declaring its own `type Item`
    pub mods: u8,
    pub ops: Vec<NOp>,
}

fn same_name_module(i: usize) -> String {
    // module 1 declares an enum, the others structs with different fields
    let (decl, mk, render, eq) = match i {
        1 => ("type Item =\n  | Aa(int)\n  | Bb\n".to_string(), "if n >= 0 { Item.Aa(n) } else { Item.Bb }".to_string(), "match x {\n      .Aa(k) -> \"m1.Item.Aa(\" .. k .. \")\"\n      .Bb -> \"m1.Item.Bb\"\n    }".to_string(), "a.str() == b.str()".to_string()),
        2 => ("type Item = {\n  v: int\n  w: int\n}\n".to_string(), "Item(n, n + 1)".to_string(), "\"m2.Item(\" .. x.v .. \",\" .. x.w .. \")\"".to_string(), "a.v == b.v".to_string()),
        _ => ("type Item = {\n  v: int\n}\n".to_string(), "Item(n)".to_string(), "\"m0.Item(\" .. x.v .. \")\"".to_string(), "a.v == b.v".to_string()),
    };
    format!("{decl}\nimplement ToString for Item {{\n  fn str(x) -> string {{\n    {render}\n  }}\n}}\n\nimplement Equal for Item {{\n  fn equal(a, b) {{\n    println(\"m{i}.eq\")\n    {eq}\n  }}\n}}\n\nfn mk{i}(n: int) -> Item {{\n  {mk}\n}}\n")
}

fn same_name_render(i: usize, n: i64) -> String {
    match i {
        1 => if n >= 0 { format!("m1.Item.Aa({n})") } else { "m1.Item.Bb".into() },
        2 => format!("m2.Item({n},{})", n + 1),
        _ => format!("m0.Item({n})"),
    }
}

pub struct SameName;

impl Prop for SameName {
    type Case = SameNameCase;
    fn name(&self) -> &'static str {
        "same_name_types"
    }
    fn rule(&self) -> &'static str {
        "one case = 2..3 modules that each declare their own `type Item` (a struct, an enum, a two-field struct) with their own ToString and Equal implementations (Equal prints a module tag) and a constructor function; main imports only the constructors and passes the values to generic functions (show, same), prints arrays and tuples of them, and prints them directly; the output must be what a model of each module's implementations prints (the implementation is chosen by the type's identity, not by its name); non-trivial = values of >= 2 modules are used; distinct by case"
    }
    fn n_cases(&self, tier: Tier) -> u32 {
        tier.pick(600, 8000)
    }
    fn strategy(&self, _tier: Tier, _f: &Findings) -> BoxedStrategy<Self::Case> {
        let n = -3i64..20;
        let op = prop_oneof![
            3 => (0u8..3, n.clone()).prop_map(|(m, a)| NOp::Show(m, a)),
            3 => (0u8..3, n.clone(), n.clone()).prop_map(|(m, a, b)| NOp::Same(m, a, b)),
            1 => (0u8..3, n.clone()).prop_map(|(m, a)| NOp::Same(m, a, a)),
            2 => (0u8..3, proptest::collection::vec(n.clone(), 1..4)).prop_map(|(m, v)| NOp::ArrShow(m, v)),
            2 => (0u8..3, 0u8..3, n.clone(), n.clone()).prop_map(|(a, b, x, y)| NOp::TupShow(a, b, x, y)),
            2 => (0u8..3, n.clone()).prop_map(|(m, a)| NOp::Direct(m, a)),
        ];
        (2u8..4, proptest::collection::vec(op, 2..14)).prop_map(|(mods, ops)| SameNameCase { mods, ops }).boxed()
    }
    fn judge(&self, c: &Self::Case, env: &mut Env) -> Verdict {
        let k = (c.mods as usize).clamp(2, 3);
        let mut files = vec![];
        let mut main = String::new();
        for i in 0..k {
            files.push(SrcFile { path: format!("m{i}.abra"), text: same_name_module(i) });
            main.push_str(&format!("use m{i}.mk{i}\n"));
        }
        main.push_str("\nfn show(x: T ToString) -> string {\n  \"<\" .. x .. \">\"\n}\n\nfn same(a: T Equal, b: T) -> bool {\n  a == b\n}\n\n");
        let mut exp = String::new();
        let mut used = std::collections::BTreeSet::new();
        let lit = |n: i64| if n < 0 { format!("({n})") } else { n.to_string() };
        let eqv = |m: usize, a: i64, b: i64| match m {
            1 => same_name_render(1, a) == same_name_render(1, b),
            _ => a == b,
        };
        for op in &c.ops {
            match op {
                NOp::Show(m, a) => {
                    let m = *m as usize % k;
                    used.insert(m);
                    main.push_str(&format!("println(show(mk{m}({})))\n", lit(*a)));
                    exp.push_str(&format!("<{}>\n", same_name_render(m, *a)));
                }
                NOp::Same(m, a, b) => {
                    let m = *m as usize % k;
                    used.insert(m);
                    main.push_str(&format!("println(same(mk{m}({}), mk{m}({})))\n", lit(*a), lit(*b)));
                    exp.push_str(&format!("m{m}.eq\n{}\n", eqv(m, *a, *b)));
                }
                NOp::ArrShow(m, v) => {
                    let m = *m as usize % k;
                    used.insert(m);
                    main.push_str(&format!("println([{}])\n", v.iter().map(|n| format!("mk{m}({})", lit(*n))).collect::<Vec<_>>().join(", ")));
                    exp.push_str(&format!("[ {} ]\n", v.iter().map(|n| same_name_render(m, *n)).collect::<Vec<_>>().join(", ")));
                }
                NOp::TupShow(a, b, x, y) => {
                    let (a, b) = (*a as usize % k, *b as usize % k);
                    used.insert(a);
                    used.insert(b);
                    main.push_str(&format!("println(show((mk{a}({}), mk{b}({}))))\n", lit(*x), lit(*y)));
                    exp.push_str(&format!("<({}, {})>\n", same_name_render(a, *x), same_name_render(b, *y)));
                }
                NOp::Direct(m, a) => {
                    let m = *m as usize % k;
                    used.insert(m);
                    main.push_str(&format!("println(mk{m}({}))\n", lit(*a)));
                    exp.push_str(&format!("{}\n", same_name_render(m, *a)));
                }
            }
        }
        files.insert(0, SrcFile { path: "main.abra".into(), text: main });
        let r = try_exec!(env.run(&files, "main.abra", &RunOpts::default()));
        let mut st = CaseStats::one();
        if let Some(f) = crash_failure(&r) {
            return Verdict::Fail(f.detail(json!({"files": files})));
        }
        if let FrontVerdict::Diag(d) = &r.compile {
            return Verdict::Fail(Failure::new("VerdictMismatch", format!("same-name program rejected: {}", norm_msg(d.lines().find(|l| !l.trim().is_empty()).unwrap_or("")))).detail(json!({"files": files, "diag": d})));
        }
        if !matches!(r.end, RunEnd::Done) || r.stdout != exp {
            let (x, y): (Vec<&str>, Vec<&str>) = (exp.lines().collect(), r.stdout.lines().collect());
            let i = x.iter().zip(y.iter()).position(|(p, q)| p != q).unwrap_or(x.len().min(y.len()));
            return Verdict::Fail(Failure::new("ModelMismatch", format!("same-name types: line {i} expected {:?} got {:?} (end {})", x.get(i), y.get(i), format!("{:?}", r.end).chars().take(60).collect::<String>())).detail(json!({"files": files, "expected": exp, "got": r.stdout})));
        }
        if used.len() >= 2 {
            st.nt(&(c.mods, format!("{:?}", c.ops)));
            st.sample = Some(json!({"main": files[0].text, "output": r.stdout}));
        }
        Verdict::Pass(st)
    }
}

pub fn run(ctx: &mut Ctx) {
    ctx.assume("the model implements the user impls written in the program and the prelude's derived Equal / Ord / Hash / Clone for arrays and tuples as their source defines them (evaluation order included)");
    ctx.assume("generic iteration (`for` over a `T Iterable` parameter) and method syntax on a constrained type variable are rejected by the checker and therefore not generated; sort is covered by C25");
    ctx.prop(&crate::g::srccase::SrcProp { name: "program" });
    ctx.prop(&Dispatch);
    ctx.prop(&SameName);
}
