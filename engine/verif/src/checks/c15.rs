//! C15 — integer arithmetic is exact or fails with the documented error.
//! Oracle: i128 reference arithmetic. Domain: boundary set cross product + random 64-bit pairs,
//! each operator in literal/variable operand forms, via operator / Num method / intrinsic /
//! compound assignment.

use crate::g::batch::run_batch;
use crate::g::values::*;
use crate::harness::*;
use crate::proto::*;
use crate::try_exec;
use proptest::prelude::*;
use serde::{Deserialize, Serialize};
use serde_json::json;

#[derive(Clone, Debug, Serialize, Deserialize, PartialEq, Eq, Hash)]
pub struct IntCase {
    /// 0 + | 1 - | 2 * | 3 / | 4 % | 5 ^ | 6 unary -
    pub op: u8,
    pub a: i64,
    pub b: i64,
    /// bit0: a is a literal, bit1: b is a literal
    pub form: u8,
    /// 0 operator | 1 Num interface method | 2 intrinsic | 3 compound assignment
    pub via: u8,
}

pub const OPS: [&str; 7] = ["+", "-", "*", "/", "%", "^", "neg"];

#[derive(Clone, Debug, PartialEq)]
pub enum Expect {
    Val(i64),
    Overflow,
    Div0,
}

pub fn reference(c: &IntCase) -> Expect {
    let (a, b) = (c.a as i128, c.b as i128);
    let fit = |v: i128| if v >= i64::MIN as i128 && v <= i64::MAX as i128 { Expect::Val(v as i64) } else { Expect::Overflow };
    match c.op {
        0 => fit(a + b),
        1 => fit(a - b),
        2 => fit(a * b),
        3 => {
            if b == 0 { Expect::Div0 } else { fit(a / b) } // i128 `/` truncates toward zero
        }
        4 => {
            if b == 0 { Expect::Div0 } else { fit(a.rem_euclid(b)) }
        }
        5 => {
            assert!(b >= 0);
            if b == 0 {
                return Expect::Val(1);
            }
            match a {
                0 => Expect::Val(0),
                1 => Expect::Val(1),
                -1 => Expect::Val(if b % 2 == 0 { 1 } else { -1 }),
                _ => {
                    let mut acc: i128 = 1;
                    let mut i: i128 = 0;
                    while i < b {
                        acc *= a;
                        if acc > i64::MAX as i128 || acc < i64::MIN as i128 {
                            return Expect::Overflow;
                        }
                        i += 1;
                    }
                    Expect::Val(acc as i64)
                }
            }
        }
        6 => fit(-a),
        _ => unreachable!(),
    }
}

/// normalise a generated case so that it is expressible (via/op combinations that do not exist)
pub fn normalise(mut c: IntCase) -> IntCase {
    c.op %= 7;
    c.form %= 4;
    c.via %= 4;
    if c.op == 5 && c.b < 0 {
        // negative exponents are not specified by the property
        c.b = c.b.checked_neg().unwrap_or(i64::MAX);
    }
    if c.op == 6 {
        c.b = 0;
        c.via = 0;
        c.form &= 1;
    }
    // Num has no modulo; compound assignment has no ^=
    if c.via == 1 && c.op == 4 {
        c.via = 2;
    }
    if c.via == 3 && c.op == 5 {
        c.via = 0;
    }
    if c.via == 3 {
        // the target of a compound assignment is a variable
        c.form &= 2;
    }
    c
}

pub fn body(c: &IntCase) -> String {
    let a_lit = c.form & 1 == 1;
    let b_lit = c.form & 2 == 2;
    let mut s = String::new();
    if !a_lit {
        s.push_str(&format!("  let a = {}\n", c.a));
    }
    if !b_lit && c.op != 6 {
        s.push_str(&format!("  let b = {}\n", c.b));
    }
    let ea = if a_lit { int_lit(c.a) } else { "a".to_string() };
    let eb = if b_lit { int_lit(c.b) } else { "b".to_string() };
    if c.op == 6 {
        s.push_str(&format!("  println(-{ea})"));
        return s;
    }
    match c.via {
        0 => s.push_str(&format!("  println({ea} {} {eb})", OPS[c.op as usize])),
        1 => {
            let m = ["add", "subtract", "multiply", "divide", "", "power"][c.op as usize];
            s.push_str(&format!("  println(Num.{m}({ea}, {eb}))"));
        }
        2 => {
            let m = ["add_int", "subtract_int", "multiply_int", "divide_int", "modulo", "power_int"][c.op as usize];
            s.push_str(&format!("  println({m}({ea}, {eb}))"));
        }
        _ => {
            s.push_str(&format!("  var x = {ea}\n  x {}= {eb}\n  println(x)", OPS[c.op as usize]));
        }
    }
    s
}

fn val_tag(v: i64) -> String {
    match v {
        i64::MIN => "MIN".into(),
        i64::MAX => "MAX".into(),
        _ => v.to_string(),
    }
}

pub fn observed(r: &RunOut) -> Result<Expect, String> {
    match &r.end {
        RunEnd::Done => {
            let t = r.stdout.trim_end_matches('\n');
            t.parse::<i64>().map(Expect::Val).map_err(|_| format!("unparseable output {t:?}"))
        }
        RunEnd::Error { kind: ErrKind::IntegerOverflow, .. } => Ok(Expect::Overflow),
        RunEnd::Error { kind: ErrKind::DivisionByZero, .. } => Ok(Expect::Div0),
        other => Err(format!("{other:?}")),
    }
}

pub fn nontrivial(c: &IntCase, e: &Expect) -> bool {
    let small = |v: i64| (-1..=1).contains(&v);
    !matches!(e, Expect::Val(_)) || !small(c.a) || (c.op != 6 && !small(c.b))
}

pub struct IntBatch;

impl Prop for IntBatch {
    type Case = Vec<IntCase>;
    fn name(&self) -> &'static str {
        "int_arith"
    }
    fn rule(&self) -> &'static str {
        "one case = (operator, a, b, literal/variable form, spelling: operator | Num method | intrinsic | compound assignment); expected value from i128 arithmetic; non-trivial = an operand outside {-1,0,1} or the reference outcome is an error; distinct by (op,a,b,form,via)"
    }
    fn n_cases(&self, tier: Tier) -> u32 {
        tier.pick(1500, 30000)
    }
    fn strategy(&self, _tier: Tier, _f: &Findings) -> BoxedStrategy<Self::Case> {
        let one = (0u8..7, int_strategy(), int_strategy(), 0u8..4, 0u8..4, 0u8..8).prop_map(|(op, a, b, form, via, expsel)| {
            let mut c = IntCase { op, a, b, form, via };
            if op == 5 {
                // exponents: mostly small, sometimes huge (full 64-bit width matters)
                c.b = match expsel {
                    0..=4 => (b.unsigned_abs() % 70) as i64,
                    5 => b.unsigned_abs().min(i64::MAX as u64) as i64,
                    6 => (1i64 << 32) + (b.unsigned_abs() % 5) as i64,
                    _ => (b.unsigned_abs() % 5) as i64,
                };
                if expsel <= 4 && a.unsigned_abs() > 1 << 20 {
                    c.a = a % 50;
                }
            }
            normalise(c)
        });
        proptest::collection::vec(one, 1..200).boxed()
    }
    fn fixed_cases(&self, tier: Tier, _f: &Findings) -> Vec<Self::Case> {
        let b = int_boundaries();
        let mut all = vec![];
        let mut k = 0u32;
        for op in 0u8..7 {
            for &x in &b {
                if op == 6 {
                    for form in 0..2 {
                        all.push(normalise(IntCase { op, a: x, b: 0, form, via: 0 }));
                    }
                    continue;
                }
                for &y in &b {
                    if op == 5 && y < 0 {
                        continue;
                    }
                    match tier {
                        Tier::Quick => {
                            k = k.wrapping_add(1);
                            all.push(normalise(IntCase { op, a: x, b: y, form: (k % 4) as u8, via: ((k / 4) % 4) as u8 }));
                        }
                        Tier::Thorough => {
                            for form in 0..4 {
                                for via in 0..4 {
                                    all.push(normalise(IntCase { op, a: x, b: y, form, via }));
                                }
                            }
                        }
                    }
                }
            }
        }
        all.sort_by(|p, q| (p.op, p.a, p.b, p.form, p.via).cmp(&(q.op, q.a, q.b, q.form, q.via)));
        all.dedup();
        all.chunks(200).map(|c| c.to_vec()).collect()
    }
    fn split(&self, case: &Self::Case) -> Vec<Self::Case> {
        case.iter().map(|c| vec![c.clone()]).collect()
    }
    fn judge(&self, cases: &Self::Case, env: &mut Env) -> Verdict {
        let cases: Vec<IntCase> = cases.iter().cloned().map(normalise).collect();
        let bodies: Vec<String> = cases.iter().map(body).collect();
        let (src, outs) = try_exec!(run_batch(env, "", &bodies, &RunOpts::default()));
        let mut st = CaseStats::default();
        if outs.len() != cases.len() {
            // compilation failed for the whole batch
            let r = &outs[0];
            if let Some(f) = crash_failure(r) {
                return Verdict::Fail(f);
            }
            return Verdict::Fail(Failure::new("VerdictMismatch", format!("arithmetic batch rejected by the compiler: {:?}", r.compile)).detail(json!({"src": src})));
        }
        let mut first_fail = None;
        for (c, r) in cases.iter().zip(outs.iter()) {
            st.evals += 1;
            let exp = reference(c);
            if nontrivial(c, &exp) {
                st.nt(c);
            }
            st.label(format!("op:{}", OPS[c.op as usize]));
            st.label(format!("via:{}", c.via));
            st.label(format!("form:{}", c.form));
            st.label(match &exp {
                Expect::Val(_) => "expect:value",
                Expect::Overflow => "expect:overflow",
                Expect::Div0 => "expect:div0",
            });
            let fail = if let Some(f) = crash_failure(r) {
                Some(f)
            } else {
                match observed(r) {
                    Ok(got) if got == exp => None,
                    got => Some(
                        Failure::new("OutcomeMismatch", format!("int {} expect={:?} got={:?}", OPS[c.op as usize], exp, got))
                            .feat(format!("op:{}", OPS[c.op as usize]))
                            .feat(format!("a:{}", val_tag(c.a)))
                            .feat(format!("b:{}", val_tag(c.b)))
                            .feat(format!("expect:{}", match &exp { Expect::Val(_) => "value", Expect::Overflow => "overflow", Expect::Div0 => "div0" }))
                            .feat(if c.op == 5 && c.b > u32::MAX as i64 { "exp:wide".to_string() } else { "exp:narrow".to_string() })
                            .detail(json!({"case": c, "body": body(c), "expect": format!("{exp:?}"), "got": format!("{got:?}")})),
                    ),
                }
            };
            if let Some(f) = fail {
                match env.findings.attribute(&f) {
                    Some(k) => st.known_hits.push(k),
                    None => {
                        if first_fail.is_none() {
                            first_fail = Some(f);
                        }
                    }
                }
            }
            if st.sample.is_none() && nontrivial(c, &exp) {
                st.sample = Some(json!({"src": body(c), "expect": format!("{exp:?}"), "got": format!("{:?}", observed(r))}));
            }
        }
        match first_fail {
            Some(f) => Verdict::Fail(f),
            None => Verdict::Pass(st),
        }
    }
}

pub fn run(ctx: &mut Ctx) {
    ctx.assume("reference arithmetic is Rust i128 arithmetic (/, rem_euclid, repeated multiplication)");
    ctx.assume("worker built with debug assertions and overflow checks");
    ctx.assume("negative exponents of ^ are outside the property and never generated");
    ctx.prop(&IntBatch);
}
