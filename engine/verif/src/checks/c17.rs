//! C17 — string concatenation and comparison give byte-exact results, at every step budget and
//! with a collection running in the middle of the operation.

use crate::g::batch::batch_source;
use crate::g::values::*;
use crate::harness::*;
use crate::proto::*;
use crate::try_exec;
use proptest::prelude::*;
use serde::{Deserialize, Serialize};
use serde_json::json;

#[derive(Clone, Debug, Serialize, Deserialize, PartialEq, Eq, Hash)]
pub struct StrPair {
    pub a: String,
    pub b: String,
}

fn b2s(b: bool) -> &'static str {
    if b { "true" } else { "false" }
}

fn six(a: &str, b: &str) -> String {
    let (x, y) = (a.as_bytes(), b.as_bytes());
    [x == y, x != y, x < y, x <= y, x > y, x >= y].iter().map(|v| b2s(*v)).collect::<Vec<_>>().join(" ")
}

fn expected(p: &StrPair) -> String {
    let mut s = String::new();
    s.push_str(&format!("[{}{}]\n", p.a, p.b));
    s.push_str(&format!("[{}{}]\n", p.b, p.a));
    for _ in 0..3 {
        s.push_str(&six(&p.a, &p.b));
        s.push('\n');
    }
    s.push_str(&six(&p.b, &p.a));
    s.push('\n');
    // literal forms
    s.push_str(&format!("[{}{}]\n", p.a, p.b));
    s.push_str(&six(&p.a, &p.b));
    s.push('\n');
    // mixed ToString operands
    s.push_str(&format!("{}7{}true{}nil\n", p.a, p.b, p.a));
    // three-way concatenation keeps every byte
    s.push_str(&format!("{}\n", p.a.len() * 2 + p.b.len()));
    s
}

fn cmp_line(a: &str, b: &str, via: u8) -> String {
    let parts: Vec<String> = match via {
        0 => vec![format!("({a} == {b})"), format!("({a} != {b})"), format!("({a} < {b})"), format!("({a} <= {b})"), format!("({a} > {b})"), format!("({a} >= {b})")],
        1 => vec![
            format!("Equal.equal({a}, {b})"),
            format!("(not Equal.equal({a}, {b}))"),
            format!("Ord.less_than({a}, {b})"),
            format!("Ord.less_than_or_equal({a}, {b})"),
            format!("Ord.greater_than({a}, {b})"),
            format!("Ord.greater_than_or_equal({a}, {b})"),
        ],
        _ => vec![
            format!("equal_string({a}, {b})"),
            format!("(not equal_string({a}, {b}))"),
            format!("less_than_string({a}, {b})"),
            format!("less_than_or_equal_string({a}, {b})"),
            format!("greater_than_string({a}, {b})"),
            format!("greater_than_or_equal_string({a}, {b})"),
        ],
    };
    format!("  println({})\n", parts.join(" .. \" \" .. "))
}

fn body(p: &StrPair) -> String {
    let (la, lb) = (str_lit(&p.a), str_lit(&p.b));
    let mut s = String::new();
    // heap strings (a literal alone is a static constant the collector never touches)
    s.push_str(&format!("  let a = {la} .. \"\"\n  let b = \"\" .. {lb}\n"));
    s.push_str("  println(\"[\" .. (a .. b) .. \"]\")\n");
    s.push_str("  println(\"[\" .. b .. a .. \"]\")\n");
    s.push_str(&cmp_line("a", "b", 0));
    s.push_str(&cmp_line("a", "b", 1));
    s.push_str(&cmp_line("a", "b", 2));
    s.push_str(&cmp_line("b", "a", 0));
    s.push_str(&format!("  println(\"[\" .. ({la} .. {lb}) .. \"]\")\n"));
    s.push_str(&cmp_line(&la, &lb, 0));
    s.push_str("  println(a .. 7 .. b .. true .. a .. nil)\n");
    s.push_str("  println(string_count_bytes(a .. b .. a))\n");
    s.push_str("  nil");
    s
}

fn nontrivial(p: &StrPair) -> bool {
    !p.a.is_empty() && !p.b.is_empty() && p.a.as_bytes()[0] == p.b.as_bytes()[0]
}

fn rel_tag(p: &StrPair) -> &'static str {
    if p.a == p.b {
        "equal"
    } else if p.b.starts_with(&p.a) || p.a.starts_with(&p.b) {
        "prefix"
    } else if nontrivial(p) {
        "common-prefix"
    } else {
        "unrelated"
    }
}

pub struct Strings;

/// structured pairs: equal / proper prefix / first difference at index i / multi-byte boundaries
fn pair_strategy() -> BoxedStrategy<StrPair> {
    let base = string_strategy(24);
    prop_oneof![
        2 => (string_strategy(24), string_strategy(24)).prop_map(|(a, b)| StrPair { a, b }),
        2 => base.clone().prop_map(|a| StrPair { b: a.clone(), a }),
        3 => (base.clone(), string_strategy(6), any::<bool>()).prop_map(|(a, suf, sw)| {
            let b = format!("{a}{suf}");
            if sw { StrPair { a: b, b: a } } else { StrPair { a, b } }
        }),
        4 => (base.clone(), any::<u16>(), string_strategy(1), string_strategy(4)).prop_map(|(a, at, repl, tail)| {
            // differ first at a chosen char position
            let chars: Vec<char> = a.chars().collect();
            let i = pick_idx(at, chars.len() + 1);
            let prefix: String = chars[..i].iter().collect();
            let rest: String = chars[i..].iter().collect();
            StrPair { a: format!("{prefix}{rest}"), b: format!("{prefix}{repl}{tail}") }
        }),
    ]
    .prop_filter("no newline", |p| !p.a.contains('\n') && !p.b.contains('\n'))
    .boxed()
}

#[derive(Clone, Debug, Serialize, Deserialize)]
pub struct StrBatch {
    pub pairs: Vec<StrPair>,
    /// extra schedules applied to every pair of this batch: (budget, gc start call, pace)
    pub sched: Vec<(u32, u32, u8)>,
}

impl Prop for Strings {
    type Case = StrBatch;
    fn name(&self) -> &'static str {
        "string_ops"
    }
    fn rule(&self) -> &'static str {
        "one case = a pair of strings; the program concatenates them both ways (heap and literal operands, mixed ToString operands) and evaluates the six comparisons as operators, Ord/Equal methods and intrinsics; every pair runs at budget 1000, at budgets 1,2,3,5 and len+1, and under generated (budget, gc-start, pace) schedules with quarantine on; expected output from Rust byte comparison; non-trivial = both non-empty and sharing the first byte; distinct by pair"
    }
    fn n_cases(&self, tier: Tier) -> u32 {
        tier.pick(500, 10000)
    }
    fn strategy(&self, _tier: Tier, _f: &Findings) -> BoxedStrategy<Self::Case> {
        (proptest::collection::vec(pair_strategy(), 1..24), proptest::collection::vec((1u32..40, 0u32..700, 0u8..8), 0..4))
            .prop_map(|(pairs, sched)| StrBatch { pairs, sched })
            .boxed()
    }
    fn fixed_cases(&self, tier: Tier, _f: &Findings) -> Vec<Self::Case> {
        let s = interesting_strings();
        let s: Vec<String> = s.into_iter().filter(|x| !x.contains('\n')).collect();
        let mut pairs = vec![];
        for a in &s {
            for b in &s {
                pairs.push(StrPair { a: a.clone(), b: b.clone() });
            }
        }
        // exhaustive schedules on a handful of pairs: every gc start point x 3 paces, every budget
        let mut out: Vec<StrBatch> = pairs.chunks(40).map(|c| StrBatch { pairs: c.to_vec(), sched: vec![] }).collect();
        let deep: Vec<StrPair> = vec![
            StrPair { a: "abcdef".into(), b: "abcdeg".into() },
            StrPair { a: "héllo wörld".into(), b: "héllo wörle".into() },
            StrPair { a: "".into(), b: "x".into() },
            StrPair { a: "日本語".into(), b: "日本".into() },
        ];
        let max_start = tier.pick(450u32, 900u32);
        for p in deep {
            let mut sched = vec![];
            for start in (0..max_start).step_by(tier.pick(3, 1)) {
                for pace in [2u8, 4, 6] {
                    sched.push((1000, start, pace));
                }
            }
            for budget in 1..=(p.a.len() + p.b.len() + 3) as u32 {
                sched.push((budget, u32::MAX, 0));
            }
            for chunk in sched.chunks(300) {
                out.push(StrBatch { pairs: vec![p.clone()], sched: chunk.to_vec() });
            }
        }
        out
    }
    fn split(&self, case: &Self::Case) -> Vec<Self::Case> {
        case.pairs.iter().map(|p| StrBatch { pairs: vec![p.clone()], sched: case.sched.clone() }).collect()
    }
    fn judge(&self, case: &Self::Case, env: &mut Env) -> Verdict {
        let bodies: Vec<String> = case.pairs.iter().map(body).collect();
        let src = batch_source("", &bodies);
        let mut variants = vec![];
        let mut meta = vec![]; // (pair index, description)
        for (i, p) in case.pairs.iter().enumerate() {
            let mut v = Variant::sel(i as i64);
            variants.push(v.clone());
            meta.push((i, "budget=1000".to_string()));
            let l = (p.a.len() + p.b.len() + 1) as u32;
            for b in [1u32, 2, 3, 5, l] {
                v.budgets = vec![b];
                variants.push(v.clone());
                meta.push((i, format!("budget={b}")));
            }
            for (b, start, pace) in &case.sched {
                let mut v = Variant::sel(i as i64);
                v.budgets = vec![*b];
                if *start != u32::MAX {
                    v.gc = Some(GcSpec::StartAt { start: *start, pace: (*pace & 6) | 0 });
                    v.quarantine = Some(true);
                }
                variants.push(v);
                meta.push((i, format!("budget={b} gc_start={start} pace={pace}")));
            }
        }
        let outs = try_exec!(env.run_var(&single(src.clone()), "main.abra", &RunOpts::default(), &variants));
        if outs.len() != variants.len() {
            return Verdict::Inconclusive("protocol: wrong number of results".into());
        }
        let mut st = CaseStats::default();
        let mut first_fail = None;
        let mut gc_cycles = 0u64;
        for ((i, desc), r) in meta.iter().zip(outs.iter()) {
            let p = &case.pairs[*i];
            st.evals += 1;
            gc_cycles += r.stats.cycles_completed;
            if !r.compile.is_ok() {
                if let Some(f) = crash_failure(r) {
                    return Verdict::Fail(f);
                }
                return Verdict::Fail(Failure::new("VerdictMismatch", format!("string batch rejected by the compiler: {:?}", r.compile)).detail(json!({"src": src})));
            }
            let fail = if let Some(f) = crash_failure(r) {
                Some(f.feat(format!("sched:{desc}")))
            } else if !matches!(r.end, RunEnd::Done) {
                Some(Failure::new("OutcomeMismatch", format!("string program ended with {:?}", r.end)).feat(format!("sched:{desc}")))
            } else {
                let exp = expected(p);
                if r.stdout == exp {
                    None
                } else {
                    let (el, gl): (Vec<&str>, Vec<&str>) = (exp.lines().collect(), r.stdout.lines().collect());
                    let line = el.iter().zip(gl.iter()).position(|(x, y)| x != y).unwrap_or(el.len().min(gl.len()));
                    Some(
                        Failure::new("OutcomeMismatch", format!("string ops: output line {line} differs ({desc})"))
                            .feat(format!("line:{line}"))
                            .feat(format!("rel:{}", rel_tag(p)))
                            .detail(json!({"pair": p, "expected": exp, "got": r.stdout, "schedule": desc, "body": body(p)})),
                    )
                }
            };
            if let Some(f) = fail {
                match env.findings.attribute(&f) {
                    Some(k) => st.known_hits.push(k),
                    None => {
                        if first_fail.is_none() {
                            first_fail = Some(f);
                        }
                    }
                }
            }
        }
        for p in &case.pairs {
            if nontrivial(p) {
                st.nt(p);
            }
            st.label(format!("rel:{}", rel_tag(p)));
            if !p.a.is_ascii() || !p.b.is_ascii() {
                st.label("non-ascii");
            }
        }
        st.labels.push(("gc_cycles_completed".into(), gc_cycles));
        st.labels.push(("scheduled_runs".into(), (case.sched.len() * case.pairs.len()) as u64));
        if let Some(p) = case.pairs.iter().find(|p| nontrivial(p)) {
            st.sample = Some(json!({"a": p.a, "b": p.b, "expected_first_lines": expected(p).lines().take(3).collect::<Vec<_>>()}));
        }
        match first_fail {
            Some(f) => Verdict::Fail(f),
            None => Verdict::Pass(st),
        }
    }
}

pub fn run(ctx: &mut Ctx) {
    ctx.assume("expected results are Rust byte-slice comparison and String concatenation");
    ctx.assume("generated strings contain no newline (line-oriented output); escapes are covered by C30");
    ctx.prop(&Strings);
}
