//! C27 — core/map and core/set behave like a reference dictionary / set.
//! A case is an operation sequence (<= 80 ops) over one map<K, int> or set<K>, with keys drawn
//! from a per-case pool of one key domain (small ints, boundary ints incl. MIN/MAX, strings,
//! tuples, a user struct whose Hash collides on purpose, arrays). The program prints the result of
//! every operation (and the length after every mutation) and finally audits every pool key; the
//! oracle is a BTreeMap / BTreeSet that predicts the exact output.

use crate::g::abv::{excerpt, first_diff};
use crate::g::batch::batch_source;
use crate::g::values::*;
use crate::harness::*;
use crate::proto::*;
use crate::try_exec;
use proptest::prelude::*;
use serde::{Deserialize, Serialize};
use serde_json::json;
use std::collections::BTreeMap;

#[derive(Clone, Debug, Serialize, Deserialize, PartialEq, Eq, Hash, PartialOrd, Ord)]
pub enum Key {
    Int(i64),
    Str(String),
    Tup(i64, String),
    /// user struct `Ck { k: int }` with `hash = k % 2` and `equal = (a.k == b.k)`
    Ck(i64),
    Arr(Vec<i64>),
}

pub const KDOMS: [&str; 6] = ["small-int", "boundary-int", "string", "tuple", "colliding-struct", "array"];

impl Key {
    pub fn lit(&self) -> String {
        match self {
            Key::Int(n) => int_lit(*n),
            Key::Str(s) => str_lit(s),
            Key::Tup(a, b) => format!("({}, {})", int_lit(*a), str_lit(b)),
            Key::Ck(k) => format!("Ck({})", int_lit(*k)),
            Key::Arr(xs) => format!("[{}]", xs.iter().map(|n| int_lit(*n)).collect::<Vec<_>>().join(", ")),
        }
    }
    pub fn ty(&self) -> &'static str {
        match self {
            Key::Int(_) => "int",
            Key::Str(_) => "string",
            Key::Tup(..) => "(int, string)",
            Key::Ck(_) => "Ck",
            Key::Arr(_) => "array<int>",
        }
    }
    fn dom_class(&self) -> u8 {
        match self {
            Key::Int(_) => 0,
            Key::Str(_) => 2,
            Key::Tup(..) => 3,
            Key::Ck(_) => 4,
            Key::Arr(_) => 5,
        }
    }
    /// The hash the prelude computes (used only to classify cases, never as the oracle).
    pub fn hash(&self) -> i64 {
        fn str_hash(s: &str) -> i64 {
            let mut h: i64 = -3750763034362895579;
            for b in s.bytes() {
                h ^= b as i64;
                h = h.wrapping_mul(1099511628211);
            }
            h
        }
        let comb = |seed: i64, v: i64| seed.wrapping_mul(31).wrapping_add(v);
        match self {
            Key::Int(n) => *n,
            Key::Str(s) => str_hash(s),
            Key::Tup(a, b) => comb(comb(17, *a), str_hash(b)),
            Key::Ck(k) => k.rem_euclid(2),
            Key::Arr(xs) => xs.iter().fold(17, |h, x| comb(h, *x)),
        }
    }
}

#[derive(Clone, Debug, Serialize, Deserialize, PartialEq, Eq, Hash)]
pub enum MOp {
    Insert { k: u16, v: i64 },
    IndexSet { k: u16, v: i64 },
    /// `m.get(k)`; emitted as try_get when the model does not hold the key (get on an absent key
    /// is not specified)
    Get { k: u16 },
    IndexGet { k: u16 },
    TryGet { k: u16 },
    Contains { k: u16 },
    Remove { k: u16 },
    Len,
}

#[derive(Clone, Debug, Serialize, Deserialize, PartialEq, Eq, Hash)]
pub struct MapCase {
    /// false: map<K, int>, true: set<K>
    pub set: bool,
    pub pool: Vec<Key>,
    pub ops: Vec<MOp>,
}

pub const ITEMS: &str = "type Ck = {\n  k: int\n}\n\nimplement Hash for Ck {\n  fn hash(a) = a.k % 2\n}\n\nimplement Equal for Ck {\n  fn equal(a, b) = a.k == b.k\n}\n";

#[derive(Default, Debug, Clone)]
pub struct Facts {
    /// bucket-array doublings after the initial allocation (4 -> 8 -> 16 -> ...)
    pub resizes: u32,
    pub max_buckets: usize,
    /// an insertion found a live key in its bucket (chain length >= 2)
    pub collision: bool,
    /// two live keys had the same full hash code at some point
    pub equal_hash: bool,
    /// a new key was stored in a slot freed by an earlier remove
    pub slot_reuse: u32,
    pub max_len: usize,
    pub extreme_key: bool,
}

pub struct Built {
    pub body: String,
    pub chunks: Vec<String>,
    pub names: Vec<&'static str>,
    pub op_src: Vec<String>,
    pub facts: Facts,
    /// the key each operation used (for failure features)
    pub keys: Vec<Option<Key>>,
}

pub fn normalise(mut c: MapCase) -> MapCase {
    if c.pool.is_empty() {
        c.pool.push(Key::Int(0));
    }
    c.pool.truncate(48);
    // one key domain per case: keys of another class than the first are dropped
    let d = c.pool[0].dom_class();
    c.pool.retain(|k| k.dom_class() == d);
    c.ops.truncate(80);
    c
}

pub fn build(c: &MapCase) -> Built {
    let kty = c.pool[0].ty();
    let mut body = String::new();
    if c.set {
        body.push_str(&format!("  let m: set<{kty}> = set.new()\n"));
    } else {
        body.push_str(&format!("  let m: map<{kty}, int> = map.new()\n"));
    }
    let mut model: BTreeMap<Key, i64> = BTreeMap::new();
    // shadow of the table's shape, for classification only
    let (mut buckets, mut slots, mut free) = (0usize, 0usize, 0usize);
    let mut facts = Facts::default();
    let mut chunks = vec![];
    let mut names = vec![];
    let mut op_src = vec![];
    let mut keys = vec![];
    let key = |k: u16| c.pool[pick_idx(k, c.pool.len())].clone();
    for op in &c.ops {
        let mut src = String::new();
        let mut out = String::new();
        let name: &'static str;
        let mut used: Option<Key> = None;
        // in a set every operation that has no counterpart maps onto the set's four methods
        let op = if c.set {
            match op {
                MOp::IndexSet { k, v } => MOp::Insert { k: *k, v: *v },
                MOp::Get { k } | MOp::IndexGet { k } | MOp::TryGet { k } => MOp::Contains { k: *k },
                o => o.clone(),
            }
        } else {
            op.clone()
        };
        match &op {
            MOp::Insert { k, v } | MOp::IndexSet { k, v } => {
                let kk = key(*k);
                let v = if c.set { 0 } else { *v };
                if matches!(op, MOp::Insert { .. }) {
                    name = "insert";
                    if c.set {
                        src.push_str(&format!("  m.insert({})\n", kk.lit()));
                    } else {
                        src.push_str(&format!("  m.insert({}, {})\n", kk.lit(), int_lit(v)));
                    }
                } else {
                    name = "index-set";
                    src.push_str(&format!("  m[{}] = {}\n", kk.lit(), int_lit(v)));
                }
                src.push_str("  println(m.len())\n");
                // shape shadow (mirrors map.abra: resize test first, then update-or-add)
                if slots >= buckets {
                    if buckets > 0 {
                        facts.resizes += 1;
                    }
                    buckets = if buckets == 0 { 4 } else { buckets * 2 };
                }
                if !model.contains_key(&kk) {
                    let h = kk.hash();
                    for other in model.keys() {
                        if other.hash() == h {
                            facts.equal_hash = true;
                        }
                        if other.hash().rem_euclid(buckets as i64) == h.rem_euclid(buckets as i64) {
                            facts.collision = true;
                        }
                    }
                    if free > 0 {
                        free -= 1;
                        facts.slot_reuse += 1;
                    } else {
                        slots += 1;
                    }
                }
                model.insert(kk.clone(), v);
                out.push_str(&format!("{}\n", model.len()));
                used = Some(kk);
            }
            MOp::Get { k } | MOp::IndexGet { k } | MOp::TryGet { k } => {
                let kk = key(*k);
                let held = model.get(&kk).copied();
                match (&op, held) {
                    (MOp::Get { .. }, Some(v)) => {
                        name = "get";
                        src.push_str(&format!("  println(m.get({}))\n", kk.lit()));
                        out.push_str(&format!("{v}\n"));
                    }
                    (MOp::IndexGet { .. }, Some(v)) => {
                        name = "index-get";
                        src.push_str(&format!("  println(m[{}])\n", kk.lit()));
                        out.push_str(&format!("{v}\n"));
                    }
                    (_, held) => {
                        name = if held.is_some() { "try_get-present" } else { "try_get-absent" };
                        src.push_str(&format!("  println(m.try_get({}))\n", kk.lit()));
                        out.push_str(&match held {
                            Some(v) => format!("some({v})\n"),
                            None => "none\n".to_string(),
                        });
                    }
                }
                used = Some(kk);
            }
            MOp::Contains { k } => {
                let kk = key(*k);
                name = if model.contains_key(&kk) { "contains-present" } else { "contains-absent" };
                src.push_str(&format!("  println(m.contains({}))\n", kk.lit()));
                out.push_str(&format!("{}\n", model.contains_key(&kk)));
                used = Some(kk);
            }
            MOp::Remove { k } => {
                let kk = key(*k);
                let was = model.remove(&kk).is_some();
                name = if was { "remove-present" } else { "remove-absent" };
                src.push_str(&format!("  println(m.remove({}))\n  println(m.len())\n", kk.lit()));
                out.push_str(&format!("{was}\n{}\n", model.len()));
                if was {
                    free += 1;
                }
                used = Some(kk);
            }
            MOp::Len => {
                name = "len";
                src.push_str("  println(m.len())\n");
                out.push_str(&format!("{}\n", model.len()));
            }
        }
        if let Some(Key::Int(n)) | Some(Key::Ck(n)) = &used {
            if *n == i64::MIN || *n == i64::MAX {
                facts.extreme_key = true;
            }
        }
        facts.max_len = facts.max_len.max(model.len());
        facts.max_buckets = buckets;
        body.push_str(&src);
        chunks.push(out);
        names.push(name);
        op_src.push(src);
        keys.push(used);
    }
    // final audit: every pool key is looked up once more
    let mut pool: Vec<Key> = c.pool.clone();
    pool.sort();
    pool.dedup();
    for kk in pool {
        let (src, out) = if c.set {
            (format!("  println(m.contains({}))\n", kk.lit()), format!("{}\n", model.contains_key(&kk)))
        } else {
            (
                format!("  println(m.try_get({}))\n", kk.lit()),
                match model.get(&kk) {
                    Some(v) => format!("some({v})\n"),
                    None => "none\n".to_string(),
                },
            )
        };
        body.push_str(&src);
        chunks.push(out);
        names.push("audit");
        op_src.push(src);
        keys.push(Some(kk));
    }
    Built { body, chunks, names, op_src, facts, keys }
}

// ---------------------------------------------------------------------------------------------
// generators

fn key_strategy(dom: u8) -> BoxedStrategy<Key> {
    match dom {
        0 => (-3i64..20).prop_map(Key::Int).boxed(),
        1 => prop_oneof![
            3 => Just(Key::Int(i64::MIN)),
            2 => Just(Key::Int(i64::MAX)),
            2 => Just(Key::Int(i64::MIN + 1)),
            6 => proptest::sample::select(int_boundaries()).prop_map(Key::Int),
            3 => any::<i64>().prop_map(Key::Int),
            // multiples of the bucket counts collide in every table size; negative ones too
            3 => (-8i64..8, 2u32..7).prop_map(|(m, s)| Key::Int(m << s)),
            2 => (0u32..63, any::<bool>()).prop_map(|(s, neg)| Key::Int(if neg { -(1i64 << s) } else { 1i64 << s })),
        ]
        .boxed(),
        2 => string_strategy(4).prop_map(Key::Str).boxed(),
        3 => (prop_oneof![3 => -2i64..4, 1 => int_strategy()], prop_oneof![3 => proptest::sample::select(vec!["", "a", "b", "ab"]).prop_map(|s| s.to_string()), 1 => string_strategy(3)]).prop_map(|(a, b)| Key::Tup(a, b)).boxed(),
        4 => prop_oneof![8 => -6i64..30, 1 => Just(i64::MIN), 1 => Just(i64::MAX), 1 => int_strategy()].prop_map(Key::Ck).boxed(),
        _ => proptest::collection::vec(prop_oneof![4 => -1i64..3, 1 => int_strategy()], 0..=3).prop_map(Key::Arr).boxed(),
    }
}

fn op_strategy(profile: u8) -> BoxedStrategy<MOp> {
    // (insert, index-set, get, index-get, try_get, contains, remove, len)
    let w: [u32; 8] = match profile {
        0 => [5, 3, 3, 3, 3, 3, 5, 1], // balanced
        1 => [12, 6, 2, 2, 2, 2, 2, 1], // growth: many distinct keys, crosses the resize thresholds
        _ => [6, 3, 1, 1, 2, 2, 9, 1], // churn: remove then insert again (slot reuse)
    };
    let k = || any::<u16>();
    let v = || prop_oneof![3 => -5i64..100, 1 => int_strategy()];
    prop_oneof![
        w[0] => (k(), v()).prop_map(|(k, v)| MOp::Insert { k, v }),
        w[1] => (k(), v()).prop_map(|(k, v)| MOp::IndexSet { k, v }),
        w[2] => k().prop_map(|k| MOp::Get { k }),
        w[3] => k().prop_map(|k| MOp::IndexGet { k }),
        w[4] => k().prop_map(|k| MOp::TryGet { k }),
        w[5] => k().prop_map(|k| MOp::Contains { k }),
        w[6] => k().prop_map(|k| MOp::Remove { k }),
        w[7] => Just(MOp::Len),
    ]
    .boxed()
}

pub fn case_strategy() -> BoxedStrategy<MapCase> {
    (any::<bool>(), prop_oneof![2 => Just(0u8), 3 => Just(1u8), 2 => Just(2u8), 2 => Just(3u8), 3 => Just(4u8), 1 => Just(5u8)], 0u8..3)
        .prop_flat_map(|(set, dom, profile)| {
            let pool = match profile {
                0 => 3usize..=16,
                1 => 12usize..=40,
                _ => 2usize..=9,
            };
            let nops = match profile {
                1 => 20usize..=80,
                _ => 1usize..=80,
            };
            (Just(set), proptest::collection::vec(key_strategy(dom), pool), proptest::collection::vec(op_strategy(profile), nops))
        })
        .prop_map(|(set, pool, ops)| normalise(MapCase { set, pool, ops }))
        .boxed()
}

// ---------------------------------------------------------------------------------------------
// the property

fn first_diverging_op(chunks: &[String], stdout: &str) -> Option<usize> {
    let mut off = 0;
    for (k, ch) in chunks.iter().enumerate() {
        if stdout.len() < off + ch.len() || &stdout.as_bytes()[off..off + ch.len()] != ch.as_bytes() {
            return Some(k);
        }
        off += ch.len();
    }
    if stdout.len() > off { Some(chunks.len()) } else { None }
}

fn key_tag(k: &Option<Key>) -> String {
    match k {
        Some(Key::Int(n)) | Some(Key::Ck(n)) if *n == i64::MIN => "key:MIN".into(),
        Some(Key::Int(n)) | Some(Key::Ck(n)) if *n == i64::MAX => "key:MAX".into(),
        Some(Key::Int(n)) | Some(Key::Ck(n)) if *n < 0 => "key:negative".into(),
        Some(_) => "key:other".into(),
        None => "key:none".into(),
    }
}

pub fn judge_one(c: &MapCase, b: &Built, r: &RunOut) -> Option<Failure> {
    let cont = if c.set { "set" } else { "map" };
    let kdom = match &c.pool[0] {
        Key::Int(_) => "int",
        Key::Str(_) => "string",
        Key::Tup(..) => "tuple",
        Key::Ck(_) => "colliding-struct",
        Key::Arr(_) => "array",
    };
    let expected: String = b.chunks.concat();
    let div = first_diverging_op(&b.chunks, &r.stdout);
    let at = div.unwrap_or(b.chunks.len());
    let op_name = |k: usize| b.names.get(k).copied().unwrap_or("end");
    let feats = |k: usize| vec![format!("container:{cont}"), format!("kdom:{kdom}"), format!("op:{}", op_name(k)), key_tag(b.keys.get(k).unwrap_or(&None))];
    let detail = |k: usize| json!({"case": c, "body": b.body, "expected_stdout": expected, "got_stdout": r.stdout, "end": format!("{:?}", r.end), "op_src": b.op_src.get(k), "key": b.keys.get(k)});
    if let Some(f) = crash_failure(r) {
        return Some(f.feats(feats(at)).detail(detail(at)));
    }
    if r.end != RunEnd::Done {
        let got = match &r.end {
            RunEnd::Error { kind, .. } => format!("runtime error {}", kind.tag()),
            other => format!("{other:?}"),
        };
        return Some(Failure::new("OutcomeMismatch", format!("{cont} operation #{at} ({}) with {kdom} keys: expected the program to finish, got {got}", op_name(at))).feats(feats(at)).detail(detail(at)));
    }
    if let Some(k) = div {
        let off = first_diff(&r.stdout, &expected).unwrap_or(0);
        return Some(
            Failure::new("ModelMismatch", format!("first diverging {cont} operation #{k} ({}) with {kdom} keys: model {:?} program {:?}", op_name(k), excerpt(&expected, off), excerpt(&r.stdout, off)))
                .feats(feats(k))
                .detail(detail(k)),
        );
    }
    None
}

fn bucket(n: usize) -> &'static str {
    match n {
        0 => "0",
        1..=4 => "1-4",
        5..=8 => "5-8",
        9..=16 => "9-16",
        17..=32 => "17-32",
        _ => "33+",
    }
}

pub struct MapModel;

impl Prop for MapModel {
    type Case = Vec<MapCase>;
    fn name(&self) -> &'static str {
        "map_set_model"
    }
    fn rule(&self) -> &'static str {
        "one case = one map<K,int> or set<K> and <= 80 operations (insert, m[k]=v, get, m[k], try_get, contains, remove, len) with keys from a pool of one domain (small ints, boundary ints incl. MIN/MAX and multiples of the bucket counts, strings, (int,string) tuples, a struct with hash = k % 2, arrays); get/m[k] only for keys the model holds; every result, the length after each mutation and a final lookup of every pool key are compared with a BTreeMap/BTreeSet; non-trivial = the sequence doubles the bucket array at least once, inserts into an occupied bucket and reuses a freed slot; distinct by the sequence"
    }
    fn n_cases(&self, tier: Tier) -> u32 {
        tier.pick(2000, 20000)
    }
    fn strategy(&self, _tier: Tier, _f: &Findings) -> BoxedStrategy<Self::Case> {
        proptest::collection::vec(case_strategy(), 1..=16).boxed()
    }
    fn split(&self, case: &Self::Case) -> Vec<Self::Case> {
        case.iter().map(|c| vec![c.clone()]).collect()
    }
    fn judge(&self, cases: &Self::Case, env: &mut Env) -> Verdict {
        let cases: Vec<MapCase> = cases.iter().cloned().map(normalise).collect();
        let built: Vec<Built> = cases.iter().map(build).collect();
        let bodies: Vec<String> = built.iter().map(|b| b.body.clone()).collect();
        // `use` lines come first in the file
        let src = format!("use core/map\nuse core/set\n\n{}", batch_source(ITEMS, &bodies));
        let sels: Vec<i64> = (0..bodies.len() as i64).collect();
        let outs = try_exec!(env.run_many(&single(src.clone()), "main.abra", &RunOpts::default(), &sels));
        let mut st = CaseStats::default();
        if outs.len() != cases.len() {
            let r = &outs[0];
            if let Some(f) = crash_failure(r) {
                return Verdict::Fail(f);
            }
            return Verdict::Fail(Failure::new("VerdictMismatch", format!("map/set program rejected by the compiler: {:?}", r.compile)).feat("compile-rejected").detail(json!({"src": src})));
        }
        let mut first_fail = None;
        for ((c, b), r) in cases.iter().zip(built.iter()).zip(outs.iter()) {
            st.evals += 1;
            let f = &b.facts;
            let nt = f.resizes >= 1 && f.collision && f.slot_reuse >= 1;
            if nt {
                st.nt(c);
            }
            st.label(if c.set { "container:set" } else { "container:map" });
            st.label(format!("kdom:{}", KDOMS[match &c.pool[0] {
                Key::Int(_) => {
                    if c.pool.iter().all(|k| matches!(k, Key::Int(n) if (-3..20).contains(n))) { 0 } else { 1 }
                }
                Key::Str(_) => 2,
                Key::Tup(..) => 3,
                Key::Ck(_) => 4,
                Key::Arr(_) => 5,
            }]));
            st.label(format!("max-size:{}", bucket(f.max_len)));
            st.label(format!("buckets:{}", f.max_buckets));
            st.label(format!("resizes:{}", f.resizes.min(4)));
            for (flag, name) in [(f.collision, "bucket-collision"), (f.equal_hash, "equal-hash-codes"), (f.slot_reuse >= 1, "freed-slot-reuse"), (f.extreme_key, "MIN-or-MAX-key")] {
                if flag {
                    st.label(format!("fact:{name}"));
                }
            }
            for n in &b.names {
                if *n != "audit" {
                    st.label(format!("op:{n}"));
                }
            }
            if let Some(fl) = judge_one(c, b, r) {
                match env.findings.attribute(&fl) {
                    Some(k) => st.known_hits.push(k),
                    None => {
                        if first_fail.is_none() {
                            first_fail = Some(fl);
                        }
                    }
                }
            }
            if st.sample.is_none() && nt {
                st.sample = Some(json!({"src": b.body, "expected_stdout": b.chunks.concat(), "got_end": format!("{:?}", r.end)}));
            }
        }
        match first_fail {
            Some(f) => Verdict::Fail(f),
            None => Verdict::Pass(st),
        }
    }
}

pub fn run(ctx: &mut Ctx) {
    ctx.assume("the reference is a BTreeMap / BTreeSet over structurally compared keys; insert and m[k] = v overwrite; remove reports whether the key was present; try_get gives some(v)/none");
    ctx.assume("get(k) and m[k] are only issued for keys the model holds (their behaviour for an absent key is not specified)");
    ctx.assume("the user key type Ck hashes to k % 2 (deliberate collisions) and compares k; hash codes are computed in the harness only to classify cases, never to predict output");
    ctx.prop(&MapModel);
}
