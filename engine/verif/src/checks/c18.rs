//! C18 — named and default arguments. A call that passes some arguments by name, in any order, and
//! omits defaulted parameters behaves exactly like the positional call with the defaults written
//! out; for free functions, member functions, struct constructors and enum variant constructors
//! (qualified and leading-dot); misuse is a diagnostic.
//! Oracle: metamorphic (named call vs the equivalent positional call, both in the same program)
//! plus the values the generator expects; defaults and arguments may be calls of a printing
//! `tick()` so that evaluation is observable.

use crate::g::batch::run_batch;
use crate::harness::*;
use crate::proto::*;
use crate::try_exec;
use proptest::prelude::*;
use serde::{Deserialize, Serialize};
use serde_json::json;
use std::collections::BTreeSet;

pub const KINDS: [&str; 6] = ["fn", "method", "method-qualified", "struct", "enum", "enum-dot"];

#[derive(Clone, Debug, Serialize, Deserialize, PartialEq, Eq, Hash, PartialOrd, Ord)]
pub struct Def {
    /// index into KINDS
    pub kind: u8,
    pub arity: u8,
    /// bit i: parameter i has a default value
    pub defaults: u64,
    /// bit i: that default is `tick(200+i)` instead of the literal `200+i`
    pub tick: u64,
}

#[derive(Clone, Debug, Serialize, Deserialize, PartialEq, Eq, Hash)]
pub struct Shape {
    pub def: Def,
    /// number of leading positional arguments
    pub npos: u8,
    /// parameters passed by name, in call order
    pub named: Vec<u8>,
    /// bit i: the explicit argument for parameter i is `tick(100+i)` instead of `100+i`
    pub arg_tick: u64,
}

fn bit(m: u64, i: usize) -> bool {
    i < 64 && (m >> i) & 1 == 1
}

impl Def {
    pub fn normalise(mut self) -> Def {
        self.kind %= KINDS.len() as u8;
        self.arity = self.arity.min(40);
        // constructors take at least one field (a field-less variant is not a call)
        if self.kind >= 3 && self.arity == 0 {
            self.arity = 1;
        }
        let m = if self.arity >= 64 { u64::MAX } else { (1u64 << self.arity) - 1 };
        self.defaults &= m;
        self.tick &= self.defaults;
        self
    }
    fn name(&self) -> String {
        let stem = ["fr", "me", "me", "St", "En", "En"][self.kind as usize];
        format!("{stem}{}q{:x}q{:x}", self.arity, self.defaults, self.tick)
    }
    fn default_text(&self, i: usize) -> Option<String> {
        if !bit(self.defaults, i) {
            return None;
        }
        Some(if bit(self.tick, i) { format!("tick({})", 200 + i) } else { format!("{}", 200 + i) })
    }
    fn params(&self, sep: &str) -> String {
        (0..self.arity as usize)
            .map(|i| match self.default_text(i) {
                Some(d) => format!("p{i}: int = {d}"),
                None => format!("p{i}: int"),
            })
            .collect::<Vec<_>>()
            .join(sep)
    }
    fn show_expr(&self, prefix: &str) -> String {
        let mut s = String::from("\"r\"");
        for i in 0..self.arity as usize {
            s.push_str(&format!(" .. \" \" .. {prefix}{i}"));
        }
        s
    }
    /// the item(s) declaring this callee; methods and variants of the same definition share one item
    pub fn item(&self) -> String {
        let n = self.name();
        match self.kind {
            0 => format!("fn {n}({}) {{\n  println({})\n}}\n", self.params(", "), self.show_expr("p")),
            1 | 2 => {
                let ps = self.params(", ");
                let ps = if ps.is_empty() { "self".to_string() } else { format!("self, {ps}") };
                format!("type Rc{n} = {{\n  id: int\n}}\nextend Rc{n} {{\n  fn {n}({ps}) {{\n    println({} .. \" \" .. self.id)\n  }}\n}}\n", self.show_expr("p"))
            }
            3 => format!("type {n} = {{\n  {}\n}}\n", self.params("\n  ")),
            _ => {
                let binds = (0..self.arity as usize).map(|i| format!("a{i}")).collect::<Vec<_>>().join(", ");
                format!(
                    "type {n} =\n  | Va({})\n  | Vz\nfn show_{n}(e: {n}) {{\n  match e {{\n    .Va({binds}) -> println({})\n    .Vz -> println(\"z\")\n  }}\n}}\n",
                    self.params(", "),
                    self.show_expr("a")
                )
            }
        }
    }
    fn item_key(&self) -> (u8, u8, u64, u64) {
        // kinds sharing one declaration
        let k = match self.kind {
            1 | 2 => 1,
            4 | 5 => 4,
            k => k,
        };
        (k, self.arity, self.defaults, self.tick)
    }
}

impl Shape {
    /// make the shape a valid call: named parameters distinct, after the positional prefix, and
    /// every parameter without a default supplied
    pub fn normalise(mut self) -> Shape {
        self.def = self.def.normalise();
        let n = self.def.arity;
        self.npos = self.npos.min(n);
        let mut seen = BTreeSet::new();
        let npos = self.npos;
        self.named.retain(|&i| i >= npos && i < n && seen.insert(i));
        for i in self.npos..n {
            if !bit(self.def.defaults, i as usize) && !seen.contains(&i) {
                self.named.push(i);
            }
        }
        self
    }
    fn explicit(&self, i: usize) -> bool {
        i < self.npos as usize || self.named.iter().any(|&j| j as usize == i)
    }
    fn arg_text(&self, i: usize) -> String {
        if bit(self.arg_tick, i) { format!("tick({})", 100 + i) } else { format!("{}", 100 + i) }
    }
    /// argument list of the call under test
    pub fn named_args(&self) -> String {
        let mut v: Vec<String> = (0..self.npos as usize).map(|i| self.arg_text(i)).collect();
        for &i in &self.named {
            v.push(format!("p{i} = {}", self.arg_text(i as usize)));
        }
        v.join(", ")
    }
    /// argument list of the equivalent positional call with the defaults written out
    pub fn positional_args(&self) -> String {
        (0..self.def.arity as usize).map(|i| if self.explicit(i) { self.arg_text(i) } else { self.def.default_text(i).unwrap_or_else(|| "MISSING".into()) }).collect::<Vec<_>>().join(", ")
    }
    /// what the generator expects: ticks in parameter order, then the received tuple
    pub fn expected(&self) -> String {
        let mut ticks = String::new();
        let mut row = String::from("r");
        for i in 0..self.def.arity as usize {
            let (v, t) = if self.explicit(i) { (100 + i, bit(self.arg_tick, i)) } else { (200 + i, bit(self.def.tick, i)) };
            if t {
                ticks.push_str(&format!("t{v}\n"));
            }
            row.push_str(&format!(" {v}"));
        }
        if matches!(self.def.kind, 1 | 2) {
            row.push_str(" 7");
        }
        format!("{ticks}{row}\n")
    }
    pub fn call(&self, args: &str) -> String {
        let n = self.def.name();
        match self.def.kind {
            0 => format!("  {n}({args})"),
            1 => format!("  let rc = Rc{n}(7)\n  rc.{n}({args})"),
            2 => format!("  let rc = Rc{n}(7)\n  Rc{n}.{n}({})", if args.is_empty() { "rc".to_string() } else { format!("rc, {args}") }),
            3 => format!("  let s = {n}({args})\n  println({})", self.def.show_expr("s.p")),
            4 => format!("  let e = {n}.Va({args})\n  show_{n}(e)"),
            _ => format!("  let e: {n} = .Va({args})\n  show_{n}(e)"),
        }
    }
    pub fn out_of_order(&self) -> bool {
        self.named.windows(2).any(|w| w[0] > w[1])
    }
    pub fn omits_default(&self) -> bool {
        (0..self.def.arity as usize).any(|i| !self.explicit(i))
    }
    fn features(&self) -> Vec<String> {
        let mut v = vec![format!("kind:{}", KINDS[self.def.kind as usize]), format!("arity:{}", self.def.arity)];
        if self.out_of_order() {
            v.push("named-out-of-order".into());
        }
        if self.omits_default() {
            v.push("omits-default".into());
        }
        if !self.named.is_empty() {
            v.push("uses-names".into());
        }
        if (0..self.def.arity as usize).any(|i| !self.explicit(i) && bit(self.def.tick, i)) {
            v.push("omitted-default-is-call".into());
        }
        v
    }
}

pub const TICK_ITEM: &str = "fn tick(n: int) -> int {\n  println(\"t\" .. n)\n  n\n}\n";

fn items_for(defs: &BTreeSet<Def>) -> String {
    let mut s = String::from(TICK_ITEM);
    let mut seen = BTreeSet::new();
    for d in defs {
        if seen.insert(d.item_key()) {
            s.push_str(&d.item());
        }
    }
    s
}

/// every call shape of a definition: each prefix of positionals x each permutation of each subset
/// of the remaining parameters that contains the required ones
pub fn all_shapes(def: &Def) -> Vec<(u8, Vec<u8>)> {
    fn perms(pool: &[u8], cur: &mut Vec<u8>, out: &mut Vec<Vec<u8>>) {
        out.push(cur.clone());
        for &x in pool {
            if !cur.contains(&x) {
                cur.push(x);
                perms(pool, cur, out);
                cur.pop();
            }
        }
    }
    let n = def.arity;
    let mut out = vec![];
    for npos in 0..=n {
        let pool: Vec<u8> = (npos..n).collect();
        let mut seqs = vec![];
        perms(&pool, &mut vec![], &mut seqs);
        for s in seqs {
            if (npos..n).all(|i| bit(def.defaults, i as usize) || s.contains(&i)) {
                out.push((npos, s));
            }
        }
    }
    out
}

// ---------------------------------------------------------------------------------------------

pub struct Calls;

impl Prop for Calls {
    type Case = Vec<Shape>;
    fn name(&self) -> &'static str {
        "calls"
    }
    fn rule(&self) -> &'static str {
        "one case = (callee kind: free fn | method | qualified method | struct constructor | qualified variant constructor | leading-dot variant constructor; arity; which parameters have defaults; which defaults and which arguments are calls of a printing tick(); positional prefix length; order of the named arguments); fixed layer = every arity 0..5 x every subset of defaults x every positional prefix x every permutation of every admissible subset of names, tick patterns rotated (quick: one of up to three default patterns per shape for arity >= 3, thorough: all); output of the named call must equal the output of the positional call with defaults written out and the expected tuple/tick sequence; non-trivial = names out of declaration order or >= 1 defaulted parameter omitted; distinct by the full shape"
    }
    fn n_cases(&self, tier: Tier) -> u32 {
        tier.pick(300, 3000)
    }
    fn exhaustive(&self, _tier: Tier) -> bool {
        false
    }
    fn strategy(&self, tier: Tier, _f: &Findings) -> BoxedStrategy<Self::Case> {
        let max_arity = tier.pick(6u8, 33u8);
        let arity = prop_oneof![4 => 0u8..=5, 2 => 0u8..=max_arity, 1 => (max_arity.saturating_sub(3))..=max_arity];
        let one = (0u8..KINDS.len() as u8, arity, any::<u64>(), any::<u64>(), any::<u16>(), proptest::collection::vec(any::<u16>(), 0..8), any::<u64>(), any::<bool>()).prop_map(|(kind, arity, defaults, tick, npos, named, arg_tick, all_defaults)| {
            let defaults = if all_defaults { u64::MAX } else { defaults };
            let def = Def { kind, arity, defaults, tick }.normalise();
            let npos = pick_idx(npos, def.arity as usize + 1) as u8;
            // candidate names: any parameter after the prefix (duplicates are dropped by normalise)
            let rest = (def.arity - npos) as usize;
            let named: Vec<u8> = if rest == 0 { vec![] } else { named.iter().map(|&x| npos + pick_idx(x, rest) as u8).collect() };
            Shape { def, npos, named, arg_tick }.normalise()
        });
        proptest::collection::vec(one, 1..60).boxed()
    }
    fn fixed_cases(&self, tier: Tier, _f: &Findings) -> Vec<Self::Case> {
        let mut all = vec![];
        let max_arity = 5u8;
        let mut k = 0u64;
        for kind in 0..KINDS.len() as u8 {
            for arity in 0..=max_arity {
                if kind >= 3 && arity == 0 {
                    continue;
                }
                for defaults in 0..(1u64 << arity) {
                    // up to three tick patterns per definition: none, all, alternating
                    let mut ticks: Vec<u64> = vec![0];
                    for t in [defaults, defaults & 0x5555_5555] {
                        if !ticks.contains(&t) {
                            ticks.push(t);
                        }
                    }
                    for (ti, tick) in ticks.iter().cloned().enumerate() {
                        let def = Def { kind, arity, defaults, tick }.normalise();
                        for (npos, named) in all_shapes(&def) {
                            k += 1;
                            let arg_tick = [0u64, u64::MAX, 0xAAAA_AAAA, 0x5555_5555][(k % 4) as usize];
                            // the full cross product of tick patterns is sampled: every shape gets one
                            // default pattern (by rotation) in quick, all three in thorough
                            if tier == Tier::Quick && (k % 3) as usize != ti && arity >= 3 {
                                continue;
                            }
                            all.push(Shape { def: def.clone(), npos, named, arg_tick });
                        }
                    }
                }
            }
        }
        // large arities: nargs is a 5-bit field in the call instruction
        if tier == Tier::Thorough {
            for kind in 0..KINDS.len() as u8 {
                for arity in [8u8, 16, 30, 31, 32, 33] {
                    for defaults in [0u64, u64::MAX, 0xAAAA_AAAA_AAAA_AAAA, !0xFu64] {
                        let def = Def { kind, arity, defaults, tick: defaults & 0x1111_1111_1111_1111 }.normalise();
                        for npos in [0u8, 1, arity / 2, arity] {
                            let fwd: Vec<u8> = (npos..arity).collect();
                            let rev: Vec<u8> = fwd.iter().rev().cloned().collect();
                            let sparse: Vec<u8> = fwd.iter().cloned().filter(|i| i % 3 == 0).collect();
                            for named in [vec![], fwd.clone(), rev, sparse] {
                                all.push(Shape { def: def.clone(), npos, named, arg_tick: 0x9249_2492_4924_9249 }.normalise());
                            }
                        }
                    }
                }
            }
        }
        let mut seen = std::collections::HashSet::new();
        all.retain(|s| seen.insert(s.clone()));
        // keep the shapes of one definition together so that a batch declares few items
        all.chunks(80).map(|c| c.to_vec()).collect()
    }
    fn split(&self, case: &Self::Case) -> Vec<Self::Case> {
        case.iter().map(|c| vec![c.clone()]).collect()
    }
    fn judge(&self, cases: &Self::Case, env: &mut Env) -> Verdict {
        let cases: Vec<Shape> = cases.iter().cloned().map(|s| s.normalise()).collect();
        let defs: BTreeSet<Def> = cases.iter().map(|s| s.def.clone()).collect();
        let items = items_for(&defs);
        let mut bodies = vec![];
        for s in &cases {
            bodies.push(s.call(&s.named_args()));
            bodies.push(s.call(&s.positional_args()));
        }
        let (src, outs) = try_exec!(run_batch(env, &items, &bodies, &RunOpts::default()));
        let mut st = CaseStats::default();
        if outs.len() != bodies.len() {
            let r = &outs[0];
            if cases.len() > 1 {
                // find the shape the compiler objects to
                for s in &cases {
                    match self.judge(&vec![s.clone()], env) {
                        Verdict::Pass(_) => {}
                        other => return other,
                    }
                }
            }
            let f = match crash_failure(r) {
                Some(f) => f,
                None => Failure::new("VerdictMismatch", format!("valid call rejected: {}", diag_line(&r.compile))),
            };
            let f = if cases.len() == 1 { f.feats(cases[0].features()).detail(json!({"shape": cases[0], "named_call": cases[0].call(&cases[0].named_args()), "src": src})) } else { f.detail(json!({"src": src})) };
            return Verdict::Fail(f);
        }
        let mut first_fail = None;
        for (i, s) in cases.iter().enumerate() {
            st.evals += 1;
            let nt = s.out_of_order() || s.omits_default();
            if nt {
                st.nt(s);
            }
            st.label(format!("kind:{}", KINDS[s.def.kind as usize]));
            st.label(format!("arity:{}", s.def.arity.min(6)));
            if s.out_of_order() {
                st.label("named-out-of-order");
            }
            if s.omits_default() {
                st.label("omits-default");
            }
            let exp = s.expected();
            let (rn, rp) = (&outs[2 * i], &outs[2 * i + 1]);
            let mut fail = None;
            for (which, r) in [("positional", rp), ("named", rn)] {
                if let Some(f) = crash_failure(r) {
                    fail = Some(f.feat(format!("call:{which}")));
                    break;
                }
                if !matches!(r.end, RunEnd::Done) {
                    fail = Some(Failure::new("OutcomeMismatch", format!("{which} call did not finish: {}", format!("{:?}", r.end).chars().take(100).collect::<String>())).feat(format!("call:{which}")));
                    break;
                }
            }
            if fail.is_none() && rn.stdout != rp.stdout {
                fail = Some(Failure::new("OutcomeMismatch", format!("{} call `{}` prints {:?} but the positional call `{}` prints {:?}", KINDS[s.def.kind as usize], s.named_args(), rn.stdout, s.positional_args(), rp.stdout)).feat("call:named-vs-positional"));
            }
            if fail.is_none() && rp.stdout != exp {
                fail = Some(Failure::new("OutcomeMismatch", format!("positional {} call `{}` prints {:?}, expected {:?}", KINDS[s.def.kind as usize], s.positional_args(), rp.stdout, exp)).feat("call:positional-vs-expected"));
            }
            if let Some(f) = fail {
                let f = f.feats(s.features()).detail(json!({"shape": s, "item": s.def.item(), "named_call": s.call(&s.named_args()), "positional_call": s.call(&s.positional_args()), "expected": exp, "named_stdout": rn.stdout, "positional_stdout": rp.stdout}));
                match env.findings.attribute(&f) {
                    Some(k) => st.known_hits.push(k),
                    None => {
                        if first_fail.is_none() {
                            first_fail = Some(f);
                        }
                    }
                }
            }
            if st.sample.is_none() && nt {
                st.sample = Some(json!({"item": s.def.item(), "named_call": s.call(&s.named_args()), "positional_call": s.call(&s.positional_args()), "stdout": rn.stdout}));
            }
        }
        match first_fail {
            Some(f) => Verdict::Fail(f),
            None => Verdict::Pass(st),
        }
    }
}

fn diag_line(v: &FrontVerdict) -> String {
    match v {
        FrontVerdict::Diag(d) => norm_msg(d.lines().find(|l| !l.trim().is_empty()).unwrap_or("")),
        other => format!("{other:?}").chars().take(120).collect(),
    }
}

// ---------------------------------------------------------------------------------------------
// misuse

pub const MISUSES: [&str; 5] = ["unknown-name", "duplicate-name", "missing-required", "positional-after-named", "positional-and-named-same-parameter"];

#[derive(Clone, Debug, Serialize, Deserialize, PartialEq, Eq, Hash)]
pub struct Misuse {
    /// a valid call shape that is then broken
    pub shape: Shape,
    /// index into MISUSES
    pub how: u8,
    /// which parameter / position the misuse touches
    pub sel: u16,
}

impl Misuse {
    /// the broken argument list, or None when this shape cannot be broken that way
    pub fn args(&self) -> Option<String> {
        let s = self.shape.clone().normalise();
        let n = s.def.arity as usize;
        let mut pos: Vec<String> = (0..s.npos as usize).map(|i| s.arg_text(i)).collect();
        let mut named: Vec<String> = s.named.iter().map(|&i| format!("p{i} = {}", s.arg_text(i as usize))).collect();
        match MISUSES[self.how as usize % MISUSES.len()] {
            "unknown-name" => {
                let at = pick_idx(self.sel, named.len() + 1);
                named.insert(at, format!("{} = 1", ["zz", "p", "q0", "self", "p99"][self.sel as usize % 5]));
            }
            "duplicate-name" => {
                if named.is_empty() {
                    return None;
                }
                let dup = named[pick_idx(self.sel, named.len())].clone();
                named.push(dup);
            }
            "missing-required" => {
                let req: Vec<usize> = (0..n).filter(|&i| !bit(s.def.defaults, i)).collect();
                if req.is_empty() {
                    return None;
                }
                let r = req[pick_idx(self.sel, req.len())];
                if r < s.npos as usize {
                    // drop the positional prefix from r on; pass the rest by name
                    let tail: Vec<String> = (r + 1..s.npos as usize).map(|i| format!("p{i} = {}", s.arg_text(i))).collect();
                    pos.truncate(r);
                    named = tail.into_iter().chain(named).collect();
                } else {
                    named.retain(|a| !a.starts_with(&format!("p{r} =")));
                }
            }
            "positional-after-named" => {
                if named.is_empty() {
                    return None;
                }
                let at = 1 + pick_idx(self.sel, named.len());
                named.insert(at, "1".to_string());
            }
            _ => {
                if pos.is_empty() {
                    return None;
                }
                let i = pick_idx(self.sel, pos.len());
                named.push(format!("p{i} = 1"));
            }
        }
        pos.extend(named);
        Some(pos.join(", "))
    }
}

pub struct MisuseProp;

impl Prop for MisuseProp {
    type Case = Misuse;
    fn name(&self) -> &'static str {
        "misuse"
    }
    fn rule(&self) -> &'static str {
        "one case = a valid call shape broken in one way (unknown name | duplicate name | missing required parameter | positional after named | positional and named for the same parameter), for every callee kind; check and compile must both answer with diagnostics, never a panic and never acceptance; every case is non-trivial; distinct by (shape, misuse, selector)"
    }
    fn n_cases(&self, tier: Tier) -> u32 {
        tier.pick(600, 6000)
    }
    fn strategy(&self, tier: Tier, f: &Findings) -> BoxedStrategy<Self::Case> {
        let shapes = Calls.strategy(tier, f);
        (shapes, any::<u16>(), 0u8..MISUSES.len() as u8, any::<u16>())
            .prop_map(|(v, which, how, sel)| {
                let mut shape = v[pick_idx(which, v.len())].clone();
                shape.def.arity = shape.def.arity.min(8);
                Misuse { shape: shape.normalise(), how, sel }
            })
            .boxed()
    }
    fn fixed_cases(&self, _tier: Tier, _f: &Findings) -> Vec<Self::Case> {
        let mut all = vec![];
        for kind in 0..KINDS.len() as u8 {
            for (arity, defaults) in [(1u8, 0u64), (1, 1), (2, 0), (2, 2), (3, 0b110), (3, 0b010), (3, 0b111)] {
                let def = Def { kind, arity, defaults, tick: 0 }.normalise();
                for (npos, named) in all_shapes(&def) {
                    for how in 0..MISUSES.len() as u8 {
                        for sel in [0u16, 40000] {
                            all.push(Misuse { shape: Shape { def: def.clone(), npos, named: named.clone(), arg_tick: 0 }, how, sel });
                        }
                    }
                }
            }
        }
        let mut seen = std::collections::HashSet::new();
        all.retain(|m| m.args().map(|a| seen.insert((m.shape.def.clone(), a))).unwrap_or(false));
        all
    }
    fn judge(&self, c: &Self::Case, env: &mut Env) -> Verdict {
        let mut st = CaseStats::one();
        let Some(args) = c.args() else {
            st.evals = 0;
            return Verdict::Pass(st);
        };
        let s = c.shape.clone().normalise();
        let how = MISUSES[c.how as usize % MISUSES.len()];
        let mut defs = BTreeSet::new();
        defs.insert(s.def.clone());
        let src = format!("{}\n{}\n", items_for(&defs), s.call(&args).replace("\n  ", "\n").trim_start());
        st.nt(&src);
        st.label(format!("misuse:{how}"));
        st.label(format!("kind:{}", KINDS[s.def.kind as usize]));
        let (chk, cmp) = try_exec!(env.front(&single(src.clone()), "main.abra", true, true));
        for (which, v) in [("check", &chk), ("compile", &cmp)] {
            let f = match v {
                FrontVerdict::Panic(p) => Failure::new("HostPanic", norm_msg(&p.msg)).feat(format!("file:{}", base(&p.file))).feat(format!("phase:{which}")),
                FrontVerdict::Diag(_) => continue,
                _ => Failure::new("VerdictMismatch", format!("misuse ({how}) accepted by {which}: {} call ({args})", KINDS[s.def.kind as usize])),
            };
            return Verdict::Fail(f.feat(format!("misuse:{how}")).feat(format!("kind:{}", KINDS[s.def.kind as usize])).detail(json!({"src": src, "case": c})));
        }
        st.sample = Some(json!({"src": src, "diagnostic": diag_line(&chk)}));
        Verdict::Pass(st)
    }
}

pub fn run(ctx: &mut Ctx) {
    ctx.assume("the reference behaviour of a named/defaulted call is the positional call with the defaults written out (arguments evaluated in parameter order); both are run and must also print the tuple the generator expects");
    ctx.assume("parameters are ints; argument i is 100+i, default i is 200+i, either may be wrapped in a printing tick() call");
    ctx.assume("member functions are called as `recv.m(..)` and as `Type.m(recv, ..)`; variant constructors as `En.Va(..)` and as `.Va(..)` under an annotated binding");
    ctx.prop(&crate::g::srccase::SrcProp { name: "program" });
    ctx.prop(&Calls);
    ctx.prop(&MisuseProp);
}
