//! C10 — results do not depend on how the embedder slices execution.
//! Metamorphic: every budget sequence / host-call service delay must give the same printed
//! output, final value and runtime error (kind and rendered location) as one big budget.

use crate::checks::c02::{final_kind, tape_strategy};
use crate::g::prog::*;
use crate::g::progen::*;
use crate::harness::*;
use crate::proto::*;
use crate::try_exec;
use proptest::prelude::*;
use serde::{Deserialize, Serialize};
use serde_json::json;

#[derive(Clone, Debug, Serialize, Deserialize)]
pub struct SliceCase {
    pub tape: Vec<u16>,
    pub flags: Flags,
    /// generated budget sequences (cycled by the runner)
    pub budgets: Vec<Vec<u32>>,
    /// generated service-delay sequences (cycled)
    pub delays: Vec<Vec<u8>>,
}

pub fn outcome_key(r: &RunOut) -> String {
    let end = match &r.end {
        RunEnd::Done => "done".to_string(),
        RunEnd::Error { rendered, .. } => format!("error:{rendered}"),
        RunEnd::Cap => "cap".to_string(),
        other => format!("{other:?}"),
    };
    format!("{}|{:?}|{}", r.stdout, r.final_value, end)
}

/// all sequences over {1,2,3} of length 1..=max_len
pub fn small_sequences(max_len: usize) -> Vec<Vec<u32>> {
    let mut out = vec![];
    let mut layer: Vec<Vec<u32>> = vec![vec![]];
    for _ in 0..max_len {
        let mut next = vec![];
        for s in &layer {
            for b in 1..=3u32 {
                let mut t = s.clone();
                t.push(b);
                next.push(t);
            }
        }
        out.extend(next.iter().cloned());
        layer = next;
    }
    out
}

pub struct Slicing;

impl Prop for Slicing {
    type Case = SliceCase;
    fn name(&self) -> &'static str {
        "slicing"
    }
    fn rule(&self) -> &'static str {
        "one case = a generated task-free program (string-heavy, printing through host calls) run under: one budget of 10^6 (baseline), every budget sequence over {1,2,3} of length <= 3 (quick) / <= 6 (thorough) when the run is short, budgets 1, 2, 7, 64, and generated random sequences with values in [1,10^6] and host-call service delays 0..5; every run must equal the baseline in printed output, final value and runtime error including the rendered location/traceback; non-trivial = >= 2 host calls and >= 50 instructions; distinct by program text"
    }
    fn n_cases(&self, tier: Tier) -> u32 {
        tier.pick(2500, 20000)
    }
    fn strategy(&self, tier: Tier, _f: &Findings) -> BoxedStrategy<Self::Case> {
        let fl = Flags::core(tier.pick(10, 20), 3);
        let b = prop_oneof![3 => 1u32..8, 2 => 1u32..200, 1 => 1u32..1_000_000];
        (tape_strategy(tier.pick(350, 800)), proptest::collection::vec(proptest::collection::vec(b, 1..6), 2..5), proptest::collection::vec(proptest::collection::vec(0u8..6, 1..4), 1..3))
            .prop_map(move |(tape, budgets, delays)| SliceCase { tape, flags: fl.clone(), budgets, delays })
            .boxed()
    }
    fn judge(&self, c: &Self::Case, env: &mut Env) -> Verdict {
        let prog = generate(&c.tape, &c.flags);
        let src = print_prog(&prog);
        let opts = RunOpts { want_final: final_kind(&prog), max_steps: 400_000, budgets: vec![1_000_000], ..RunOpts::default() };
        let base = try_exec!(env.run1(&src, &opts));
        let mut st = CaseStats::one();
        for l in &prog.labels {
            st.label(l.clone());
        }
        let feats = || prog.labels.iter().map(|l| format!("uses:{l}")).collect::<Vec<_>>();
        if let Some(f) = crash_failure(&base) {
            return Verdict::Fail(f.feats(feats()).feat("baseline").detail(json!({"src": src})));
        }
        if !base.compile.is_ok() || matches!(base.end, RunEnd::Cap) {
            st.discarded = 1;
            return Verdict::Pass(st);
        }
        let mut variants = vec![];
        let mut descs = vec![];
        let mut seqs: Vec<Vec<u32>> = vec![vec![1], vec![2], vec![7], vec![64]];
        if base.steps <= 400 {
            seqs.extend(small_sequences(env.tier.pick(3, 6)));
            st.label("exhaustive-small-sequences");
        }
        seqs.extend(c.budgets.iter().cloned());
        for s in seqs {
            descs.push(format!("budgets={s:?}"));
            variants.push(Variant { budgets: s, ..Variant::sel(0) });
        }
        for (i, d) in c.delays.iter().enumerate() {
            let b = c.budgets[i % c.budgets.len()].clone();
            descs.push(format!("budgets={b:?} delays={d:?}"));
            variants.push(Variant { budgets: b, delays: Some(d.clone()), ..Variant::sel(0) });
        }
        let outs = try_exec!(env.run_var(&single(src.clone()), "main.abra", &opts, &variants));
        let want = outcome_key(&base);
        st.evals = 1 + outs.len() as u64;
        for (r, d) in outs.iter().zip(descs.iter()) {
            if let Some(f) = crash_failure(r) {
                return Verdict::Fail(f.feats(feats()).feat(format!("sched:{d}")).detail(json!({"src": src})));
            }
            if matches!(r.end, RunEnd::Cap) {
                continue;
            }
            let got = outcome_key(r);
            if got != want {
                return Verdict::Fail(
                    Failure::new("OutcomeMismatch", format!("result depends on slicing ({d})"))
                        .feats(feats())
                        .detail(json!({"src": src, "baseline": want, "sliced": got, "schedule": d})),
                );
            }
        }
        let host_calls = base.stdout.matches('\n').count();
        if host_calls >= 2 && base.steps >= 50 {
            st.nt(&src);
            st.sample = Some(json!({"src": src, "steps": base.steps, "schedules": descs.len(), "end": outcome_key(&base).chars().rev().take(120).collect::<String>().chars().rev().collect::<String>()}));
        }
        Verdict::Pass(st)
    }
}

pub fn run(ctx: &mut Ctx) {
    ctx.assume("the baseline is the same program run with one budget of 10^6 steps");
    ctx.assume("task programs (KPN shape) are covered by the sub-property kpn_slicing when present");
    ctx.prop(&crate::g::srccase::SrcProp { name: "program" });
    ctx.prop(&Slicing);
}
