//! C10 — results do not depend on how the embedder slices execution.
//! Metamorphic: every budget sequence / host-call service delay must give the same printed
//! output, final value and runtime error (kind and rendered location) as one big budget.

use crate::checks::c02::{final_kind, tape_strategy};
use crate::g::prog::*;
use crate::g::progen::*;
use crate::harness::*;
use crate::proto::*;
use crate::try_exec;
use proptest::prelude::*;
use serde::{Deserialize, Serialize};
use serde_json::json;

#[derive(Clone, Debug, Serialize, Deserialize)]
pub struct SliceCase {
    pub tape: Vec<u16>,
    pub flags: Flags,
    /// generated budget sequences (cycled by the runner)
    pub budgets: Vec<Vec<u32>>,
    /// generated service-delay sequences (cycled)
    pub delays: Vec<Vec<u8>>,
}

pub fn outcome_key(r: &RunOut) -> String {
    let end = match &r.end {
        RunEnd::Done => "done".to_string(),
        RunEnd::Error { rendered, .. } => format!("error:{rendered}"),
        RunEnd::Cap => "cap".to_string(),
        other => format!("{other:?}"),
    };
    format!("{}|{:?}|{}", r.stdout, r.final_value, end)
}

/// all sequences over {1,2,3} of length 1..=max_len
pub fn small_sequences(max_len: usize) -> Vec<Vec<u32>> {
    let mut out = vec![];
    let mut layer: Vec<Vec<u32>> = vec![vec![]];
    for _ in 0..max_len {
        let mut next = vec![];
        for s in &layer {
            for b in 1..=3u32 {
                let mut t = s.clone();
                t.push(b);
                next.push(t);
            }
        }
        out.extend(next.iter().cloned());
        layer = next;
    }
    out
}

pub struct Slicing;

impl Prop for Slicing {
    type Case = SliceCase;
    fn name(&self) -> &'static str {
        "slicing"
    }
    fn rule(&self) -> &'static str {
        "one case = a generated task-free program (string-heavy, printing through host calls) run under: one budget of 10^6 (baseline), every budget sequence over {1,2,3} of length <= 3 (quick) / <= 6 (thorough) when the run is short, budgets 1, 2, 7, 64, and generated random sequences with values in [1,10^6] and host-call service delays 0..5; every run must equal the baseline in printed output, final value and runtime error including the rendered location/traceback; non-trivial = >= 2 host calls and >= 50 instructions; distinct by program text"
    }
    fn n_cases(&self, tier: Tier) -> u32 {
        tier.pick(2500, 20000)
    }
    fn strategy(&self, tier: Tier, _f: &Findings) -> BoxedStrategy<Self::Case> {
        let fl = Flags::core(tier.pick(10, 20), 3);
        let b = prop_oneof![3 => 1u32..8, 2 => 1u32..200, 1 => 1u32..1_000_000];
        (tape_strategy(tier.pick(350, 800)), proptest::collection::vec(proptest::collection::vec(b, 1..6), 2..5), proptest::collection::vec(proptest::collection::vec(0u8..6, 1..4), 1..3))
            .prop_map(move |(tape, budgets, delays)| SliceCase { tape, flags: fl.clone(), budgets, delays })
            .boxed()
    }
    fn judge(&self, c: &Self::Case, env: &mut Env) -> Verdict {
        let prog = generate(&c.tape, &c.flags);
        let src = print_prog(&prog);
        let opts = RunOpts { want_final: final_kind(&prog), max_steps: 400_000, budgets: vec![1_000_000], ..RunOpts::default() };
        let base = try_exec!(env.run1(&src, &opts));
        let mut st = CaseStats::one();
        for l in &prog.labels {
            st.label(l.clone());
        }
        let feats = || prog.labels.iter().map(|l| format!("uses:{l}")).collect::<Vec<_>>();
        if let Some(f) = crash_failure(&base) {
            return Verdict::Fail(f.feats(feats()).feat("baseline").detail(json!({"src": src})));
        }
        if !base.compile.is_ok() || matches!(base.end, RunEnd::Cap) {
            st.discarded = 1;
            return Verdict::Pass(st);
        }
        let mut variants = vec![];
        let mut descs = vec![];
        let mut seqs: Vec<Vec<u32>> = vec![vec![1], vec![2], vec![7], vec![64]];
        if base.steps <= 400 {
            seqs.extend(small_sequences(env.tier.pick(3, 6)));
            st.label("exhaustive-small-sequences");
        }
        seqs.extend(c.budgets.iter().cloned());
        for s in seqs {
            descs.push(format!("budgets={s:?}"));
            variants.push(Variant { budgets: s, ..Variant::sel(0) });
        }
        for (i, d) in c.delays.iter().enumerate() {
            let b = c.budgets[i % c.budgets.len()].clone();
            descs.push(format!("budgets={b:?} delays={d:?}"));
            variants.push(Variant { budgets: b, delays: Some(d.clone()), ..Variant::sel(0) });
        }
        let outs = try_exec!(env.run_var(&single(src.clone()), "main.abra", &opts, &variants));
        let want = outcome_key(&base);
        st.evals = 1 + outs.len() as u64;
        for (r, d) in outs.iter().zip(descs.iter()) {
            if let Some(f) = crash_failure(r) {
                return Verdict::Fail(f.feats(feats()).feat(format!("sched:{d}")).detail(json!({"src": src})));
            }
            if matches!(r.end, RunEnd::Cap) {
                continue;
            }
            let got = outcome_key(r);
            if got != want {
                return Verdict::Fail(
                    Failure::new("OutcomeMismatch", format!("result depends on slicing ({d})"))
                        .feats(feats())
                        .detail(json!({"src": src, "baseline": want, "sliced": got, "schedule": d})),
                );
            }
        }
        let host_calls = base.stdout.matches('\n').count();
        if host_calls >= 2 && base.steps >= 50 {
            st.nt(&src);
            st.sample = Some(json!({"src": src, "steps": base.steps, "schedules": descs.len(), "end": outcome_key(&base).chars().rev().take(120).collect::<String>().chars().rev().collect::<String>()}));
        }
        Verdict::Pass(st)
    }
}


#[derive(Clone, Debug, Serialize, Deserialize)]
pub struct TaskSliceCase {
    /// producers: (busy work per message, messages, busy work main does before spawning it)
    pub producers: Vec<(u8, u8, u8)>,
    /// a relay task between the producers' channel and main
    pub relay: bool,
    /// main prints every message as it arrives (a host call per message) or collects and prints at the end
    pub print_each: bool,
    pub budgets: Vec<Vec<u32>>,
}

pub fn task_slice_program(c: &TaskSliceCase) -> (String, usize) {
    let mut src = String::from("let ch: channel<int> = channel()\nlet out: channel<int> = channel()\n");
    let total: usize = c.producers.iter().map(|p| p.1.max(1) as usize).sum();
    if c.relay {
        src.push_str(&format!("task {{\n  for i in {total} {{\n    let v = ch.read()\n    out.write(v * 10)\n  }}\n}}\n"));
    }
    for (w, (work, msgs, gap)) in c.producers.iter().enumerate() {
        if *gap > 0 {
            src.push_str(&format!("var gap{w} = 0\nwhile gap{w} < {gap} {{\n  gap{w} += 1\n}}\n"));
        }
        src.push_str(&format!("task {{\n  for j in {} {{\n    var busy = 0\n    while busy < {work} {{\n      busy += 1\n    }}\n    ch.write({w} * 100 + j)\n  }}\n}}\n", msgs.max(&1)));
    }
    let from = if c.relay { "out" } else { "ch" };
    if c.print_each {
        src.push_str(&format!("for i in {total} {{\n  println({from}.read())\n}}\n"));
    } else {
        src.push_str(&format!("let got: array<int> = []\nfor i in {total} {{\n  got.push({from}.read())\n}}\nprintln(got)\n"));
    }
    src.push_str("println(\"end\")\n");
    (src, total)
}

/// second clause of the property: tasks that communicate only through channels, one printing task
pub struct TaskSlicing;

impl Prop for TaskSlicing {
    type Case = TaskSliceCase;
    fn name(&self) -> &'static str {
        "task_slicing"
    }
    fn rule(&self) -> &'static str {
        "one case = 2..4 producer tasks (spawned after generated amounts of work in main, each doing a generated amount of work per message) writing 1..5 messages each into one channel, optionally through a relay task, with main as the only printing task (per message, or once at the end); baseline = budget 1; run again at budgets 2, 3, 5, 7, 8, 9, 16, 50, 100, 101, 1000, 10^6 and generated budget sequences; printed output (which includes the arrival order of the producers' messages) must be identical and every run must finish; non-trivial = >= 2 producers with different work per message and >= 4 messages in total; distinct by case"
    }
    fn n_cases(&self, tier: Tier) -> u32 {
        tier.pick(500, 8000)
    }
    fn strategy(&self, _tier: Tier, _f: &Findings) -> BoxedStrategy<Self::Case> {
        let b = prop_oneof![3 => 1u32..12, 2 => 1u32..200, 1 => 1u32..100_000];
        (proptest::collection::vec((0u8..25, 1u8..6, 0u8..30), 2..5), any::<bool>(), any::<bool>(), proptest::collection::vec(proptest::collection::vec(b, 1..5), 1..4))
            .prop_map(|(producers, relay, print_each, budgets)| TaskSliceCase { producers, relay, print_each, budgets })
            .boxed()
    }
    fn judge(&self, c: &Self::Case, env: &mut Env) -> Verdict {
        let (src, total) = task_slice_program(c);
        let opts = RunOpts { max_steps: 3_000_000, max_calls: 4_000_000, budgets: vec![1], ..RunOpts::default() };
        let mut seqs: Vec<Vec<u32>> = [2u32, 3, 5, 7, 8, 9, 16, 50, 100, 101, 1000, 1_000_000].iter().map(|b| vec![*b]).collect();
        seqs.extend(c.budgets.iter().cloned());
        let mut variants = vec![Variant { budgets: vec![1], ..Variant::sel(0) }];
        variants.extend(seqs.iter().map(|s| Variant { budgets: s.clone(), ..Variant::sel(0) }));
        let outs = try_exec!(env.run_var(&single(src.clone()), "main.abra", &opts, &variants));
        let mut st = CaseStats::one();
        st.evals = outs.len() as u64;
        let base = &outs[0];
        for (r, v) in outs.iter().zip(variants.iter()) {
            if let Some(f) = crash_failure(r) {
                return Verdict::Fail(f.feat(format!("budgets:{:?}", v.budgets)).detail(json!({"src": src})));
            }
            if !r.compile.is_ok() || !matches!(r.end, RunEnd::Done) {
                return Verdict::Fail(
                    Failure::new("VerdictMismatch", format!("task program did not finish at budgets {:?}: {}", v.budgets, format!("{:?} / {:?}", r.compile, r.end).chars().take(200).collect::<String>())).detail(json!({"src": src})),
                );
            }
            if r.stdout != base.stdout {
                return Verdict::Fail(
                    Failure::new("OutcomeMismatch", format!("printed output of a task program depends on slicing (budgets {:?} vs budget 1)", v.budgets))
                        .feat(if c.relay { "relay" } else { "direct" })
                        .detail(json!({"src": src, "budget_1": base.stdout, "sliced": r.stdout, "budgets": v.budgets})),
                );
            }
        }
        let works: std::collections::BTreeSet<u8> = c.producers.iter().map(|p| p.0).collect();
        if works.len() >= 2 && total >= 4 {
            st.nt(&src);
            st.sample = Some(json!({"src": src, "output": base.stdout, "schedules": variants.len()}));
        }
        Verdict::Pass(st)
    }
}

pub fn run(ctx: &mut Ctx) {
    ctx.assume("the baseline is the same program run with one budget of 10^6 steps");
    ctx.assume("for task programs the reference run is the one at budget 1 (the granularity the pinned tests use)");
    ctx.prop(&crate::g::srccase::SrcProp { name: "program" });
    ctx.prop(&Slicing);
    ctx.prop(&TaskSlicing);
}
