//! C04 — the compiler terminates with a result or diagnostics on any text.

use crate::checks::c02::tape_strategy;
use crate::g::prog::print_prog;
use crate::g::progen::{Flags, generate};
use crate::g::textmut::*;
use crate::harness::*;
use crate::proto::*;
use crate::try_exec;
use proptest::prelude::*;
use serde_json::json;

pub fn front_phase(file: &str) -> &'static str {
    if file.contains("parse/lexer") {
        "lex"
    } else if file.contains("/parse") {
        "parse"
    } else if file.contains("statics/resolve") {
        "resolve"
    } else if file.contains("statics/typecheck") {
        "typecheck"
    } else if file.contains("pat_exhaustiveness") {
        "exhaustiveness"
    } else if file.contains("statics") || file.ends_with("src/lib.rs") || file.contains("/ast.rs") {
        "statics"
    } else if file.contains("translate_bytecode") || file.contains("assembly") || file.contains("optimize_bytecode") {
        "backend"
    } else if file.contains("abra_core") {
        "other-abra"
    } else {
        "outside"
    }
}

/// judge one text: the compiler must answer Ok or non-empty diagnostics
pub fn judge_text(c: &TextCase, env: &mut Env, st: &mut CaseStats) -> Option<Failure> {
    let files = single(c.text.clone());
    let (_chk, cmp) = match env.front(&files, "main.abra", false, true) {
        Exec::Ok(v) => v,
        Exec::Abort(f) => return Some(f.feat("frontend").detail(json!({"text": c.text}))),
        Exec::Inconclusive(_) => {
            st.discarded += 1;
            return None;
        }
    };
    match &cmp {
        FrontVerdict::Ok => {
            st.label("verdict:accepted");
            None
        }
        FrontVerdict::Diag(d) => {
            st.label("verdict:diagnostics");
            if d.trim().is_empty() {
                return Some(Failure::new("VerdictMismatch", "compilation failed without any diagnostic").detail(json!({"text": c.text})));
            }
            None
        }
        FrontVerdict::Panic(p) => {
            let phase = front_phase(&p.file);
            st.label(format!("panic:{phase}"));
            if phase == "backend" {
                // the text was accepted by the checker and the back end crashed: C03's subject, counted here
                st.label("backend-panic-counted-for-C03");
                return None;
            }
            Some(Failure::new("HostPanic", norm_msg(&p.msg)).feat(format!("file:{}", base(&p.file))).feat(format!("phase:{phase}")).detail(json!({"text": c.text, "panic": p})))
        }
        FrontVerdict::NotRun => None,
    }
}

pub struct AnyText;

impl Prop for AnyText {
    type Case = TextCase;
    fn name(&self) -> &'static str {
        "any_text"
    }
    fn rule(&self) -> &'static str {
        "one case = a corpus program (406 programs from /repo's tests, examples, modules and book) or a generated program, with 0..8 mutations (prefix/suffix cuts, char insert/delete/replace incl. quotes, backslashes, control and multi-byte characters, token delete/duplicate/swap/replace from the token dictionary, line swaps, splices of two files, bracket/operator garbage), or a text from two small grammars: functions whose bodies mention themselves inside tuples / arrays / lambdas / calls (self-referential types), and triple-quoted strings with mixed space / tab indentation, blank and short lines and every closer position; compile_bytecode must return Ok or a non-empty diagnostic list, never panic in the front end or kill the process; non-trivial = mutated (>= 1 mutation) and different from its base file; distinct by text"
    }
    fn n_cases(&self, tier: Tier) -> u32 {
        tier.pick(12000, 400000)
    }
    fn strategy(&self, tier: Tier, _f: &Findings) -> BoxedStrategy<Self::Case> {
        let fl = Flags::core(10, 3);
        let generated = (tape_strategy(300), proptest::collection::vec(mut_strategy(), 0..6)).prop_map(move |(tape, muts)| {
            let src = print_prog(&generate(&tape, &fl));
            TextCase { origin: "generated".into(), text: apply(&src, &muts), n_muts: muts.len() }
        });
        let selfref = (proptest::collection::vec(any::<u16>(), 4..40), proptest::collection::vec(mut_strategy(), 0..2)).prop_map(|(tape, muts)| TextCase { origin: "selfref".into(), text: apply(&selfref_text(&tape), &muts), n_muts: 1 + muts.len() });
        let mlstring = (proptest::collection::vec(any::<u16>(), 4..30), proptest::collection::vec(mut_strategy(), 0..2)).prop_map(|(tape, muts)| TextCase { origin: "mlstring".into(), text: apply(&mlstring_text(&tape), &muts), n_muts: 1 + muts.len() });
        prop_oneof![10 => text_strategy(tier.pick(1500, 6000), 8), 2 => generated, 3 => selfref, 3 => mlstring].boxed()
    }
    fn fixed_cases(&self, _tier: Tier, _f: &Findings) -> Vec<Self::Case> {
        // every corpus file unmodified, and hand-picked hostile inputs
        let mut v: Vec<TextCase> = corpus().iter().map(|(n, t)| TextCase { origin: n.clone(), text: t.clone(), n_muts: 0 }).collect();
        for (i, t) in [
            "", " ", "\n", "\u{feff}", "é", "\"", "'", "\"\"\"", "/*", "*/", "//", "#", "#host", "#!", "\\", "\\\n", "let", "let x", "let x =", "fn", "fn f(", "match", "match x {", "type T =", "type T = {", "(", ")", "{", "}", "[", "]", "1.", ".1", "1..2", "1_", "_", "0x10", "9223372036854775808", "-9223372036854775809",
            "99999999999999999999999999999999999999999.0", "let x = \"\\q\"", "let x = \"\\x\"", "let x = \"\\xZZ\"", "let x = 'a", "use", "use a/", "use a except", "implement", "extend int {", "interface I {", "task {", "x.", ".x", "x[", "a ? b", "!", "x!", "x?", "for x in", "while", "if", "else", "return", "break", "continue",
            "let 日本 = 1", "println(\"日本\" .. 😀)", "let x = 1 /* unterminated", "let s = \"\"\"\nabc", "fn f() -> {", "fn f(a: int = ) {}", "T1(", "let (a, = 1", "let [a] = 1", "match 1 { 1 | -> 2 }", "x = = 1", "1 +", "+ 1", "not", "and and", "let x: array< = 1", "let f: (int -> = 1", "#foreign fn f()", "let x = 1;;;;;", ",,,,", "let x = 1 , , let y = 2",
        ]
        .iter()
        .enumerate()
        {
            v.push(TextCase { origin: format!("handmade-{i}"), text: t.to_string(), n_muts: 1 });
        }
        v
    }
    fn judge(&self, c: &Self::Case, env: &mut Env) -> Verdict {
        let mut st = CaseStats::one();
        st.label(format!("origin:{}", c.origin.split('-').next().unwrap_or("?")));
        if let Some(f) = judge_text(c, env, &mut st) {
            return Verdict::Fail(f);
        }
        if c.n_muts >= 1 {
            st.nt(&c.text);
            if c.text.len() < 400 {
                st.sample = Some(json!({"origin": c.origin, "text": c.text}));
            }
        }
        if !c.text.is_ascii() {
            st.label("non-ascii");
        }
        Verdict::Pass(st)
    }
}

pub fn run(ctx: &mut Ctx) {
    ctx.assume("termination cannot be shown by testing: a per-input watchdog (60 s) is reported as inconclusive, never as a violation");
    ctx.assume("inputs are valid UTF-8; panics located in the back end (translate/assembly/optimizer) on accepted text are counted and belong to C03");
    ctx.prop(&crate::g::srccase::SrcProp { name: "program" });
    ctx.prop(&AnyText);
    // thorough tier: coverage-guided byte fuzzing of compile_bytecode; everything it keeps is judged by `any_text`
    let seeds: Vec<Vec<u8>> = corpus().iter().filter(|(_, t)| t.len() <= 1200).map(|(_, t)| t.as_bytes().to_vec()).collect();
    let c = crate::campaign::Campaign { target: "fuzz_compile", sanitizer: "none", runs: 25_000, max_len: 1200, jobs: 12, seeds, dict: DICT.iter().map(|s| s.to_string()).collect() };
    crate::campaign::guided(ctx, &AnyText, c, |b| {
        let text = crate::fuzzside::text_of(b);
        Some(TextCase { origin: "libfuzzer".into(), text, n_muts: 1 })
    });
}
