//! C25 — sorting.
//! After `sort`, `sort_by`, `sort_by_key` the array must be (1) a permutation of its original
//! elements, (2) in non-decreasing order of the comparison that was given, and (3) for
//! `sort_by` / `sort_by_key`, equal elements keep their original order. Elements of the
//! `sort_by*` cases carry their original index so that (1) and (3) are observable. The three
//! predicates are evaluated in Rust on the printed result.

use crate::g::batch::run_batch;
use crate::g::values::*;
use crate::harness::*;
use crate::proto::*;
use crate::try_exec;
use proptest::prelude::*;
use serde::{Deserialize, Serialize};
use serde_json::json;
use std::cmp::Ordering;

#[derive(Clone, Debug, Serialize, Deserialize, PartialEq, Eq, Hash)]
pub enum Data {
    Ints(Vec<i64>),
    Strs(Vec<String>),
    /// f64 bit patterns (finite, no NaN: there is no literal for it)
    Floats(Vec<u64>),
}

impl Data {
    pub fn len(&self) -> usize {
        match self {
            Data::Ints(v) => v.len(),
            Data::Strs(v) => v.len(),
            Data::Floats(v) => v.len(),
        }
    }
}

/// kind:
/// 0 `sort` array<int> | 1 `sort` array<string> | 2 `sort` array<float>
/// 3 `sort_by` on (int key, index) pairs | 4 `sort_by_key` on (int key, index) pairs
/// 5 `sort_by_key` on structs Rec{k, i} | 6 `sort_by` on (string key, index) pairs
/// 7 `sort` on (int, index) tuples (tuple Ord) | 8 `sort_by_key` on (string key, index) pairs
/// cmp (sort_by): 0 `<=` | 1 `>=` | 2 `<` | 3 `>` (the strict ones: order and permutation only)
/// cmp (sort_by_key on int keys): 0 key = k | 1 key = k / 4 (see `key_fn`)
#[derive(Clone, Debug, Serialize, Deserialize, PartialEq, Eq, Hash)]
pub struct SortCase {
    pub kind: u8,
    pub cmp: u8,
    pub data: Data,
}

pub const KINDS: [&str; 9] = ["sort-int", "sort-string", "sort-float", "sort_by-pairs", "sort_by_key-pairs", "sort_by_key-structs", "sort_by-string-pairs", "sort-tuples", "sort_by_key-string-pairs"];
pub const ITEMS: &str = "type Rec = {\n  k: int\n  i: int\n}\n";
pub const RUN: usize = 32;

pub fn normalise(mut c: SortCase) -> SortCase {
    c.kind %= 9;
    let ok = matches!((&c.data, c.kind), (Data::Ints(_), 0 | 3 | 4 | 5 | 7) | (Data::Strs(_), 1 | 6 | 8) | (Data::Floats(_), 2));
    if !ok {
        c.kind = match c.data {
            Data::Ints(_) => 0,
            Data::Strs(_) => 1,
            Data::Floats(_) => 2,
        };
    }
    c.cmp = match c.kind {
        3 | 6 => c.cmp % 4,
        4 | 5 => c.cmp % 2,
        _ => 0,
    };
    match &mut c.data {
        Data::Ints(v) => v.truncate(300),
        Data::Strs(v) => {
            v.truncate(300);
            for s in v.iter_mut() {
                // one element per output line
                *s = s.replace(['\n', '\r'], " ");
            }
        }
        Data::Floats(v) => {
            v.truncate(300);
            for b in v.iter_mut() {
                if !f64::from_bits(*b).is_finite() {
                    *b = 0;
                }
            }
        }
    }
    c
}

/// the derived key of `sort_by_key` on int-keyed elements
fn key_fn(cmp: u8, k: i64) -> i64 {
    if cmp == 1 { k / 4 } else { k }
}

pub fn body(c: &SortCase) -> String {
    let mut s = String::new();
    let lit = match (&c.data, c.kind) {
        (Data::Ints(v), 0) => v.iter().map(|k| int_lit(*k)).collect::<Vec<_>>(),
        (Data::Ints(v), 5) => v.iter().enumerate().map(|(i, k)| format!("Rec({}, {i})", int_lit(*k))).collect(),
        (Data::Ints(v), _) => v.iter().enumerate().map(|(i, k)| format!("({}, {i})", int_lit(*k))).collect(),
        (Data::Strs(v), 1) => v.iter().map(|k| str_lit(k)).collect(),
        (Data::Strs(v), _) => v.iter().enumerate().map(|(i, k)| format!("({}, {i})", str_lit(k))).collect(),
        (Data::Floats(v), _) => v.iter().map(|b| float_lit_plain(f64::from_bits(*b))).collect(),
    };
    let ety = match c.kind {
        0 => "int",
        1 => "string",
        2 => "float",
        5 => "Rec",
        6 | 8 => "(string, int)",
        _ => "(int, int)",
    };
    // literals are written 8 per line to keep lines short
    s.push_str(&format!("  let a: array<{ety}> = [\n"));
    for ch in lit.chunks(8) {
        s.push_str("    ");
        s.push_str(&ch.join(", "));
        s.push_str(",\n");
    }
    if lit.is_empty() {
        s.push_str("  ]\n");
    } else {
        // no trailing comma before the bracket
        let cut = s.rfind(",\n").unwrap();
        s.replace_range(cut..cut + 1, "");
        s.push_str("  ]\n");
    }
    let op = ["<=", ">=", "<", ">"][c.cmp as usize & 3];
    match c.kind {
        0 | 1 | 2 | 7 => s.push_str("  a.sort()\n"),
        3 | 6 => s.push_str(&format!("  a.sort_by((x, y) -> {{\n    let (kx, _) = x\n    let (ky, _) = y\n    kx {op} ky\n  }})\n")),
        4 => {
            if c.cmp == 1 {
                s.push_str("  a.sort_by_key(p -> {\n    let (k, _) = p\n    k / 4\n  })\n");
            } else {
                s.push_str("  a.sort_by_key(p -> {\n    let (k, _) = p\n    k\n  })\n");
            }
        }
        5 => {
            if c.cmp == 1 {
                s.push_str("  a.sort_by_key((r: Rec) -> r.k / 4)\n");
            } else {
                s.push_str("  a.sort_by_key((r: Rec) -> r.k)\n");
            }
        }
        _ => s.push_str("  a.sort_by_key(p -> {\n    let (k, _) = p\n    k\n  })\n"),
    }
    s.push_str("  println(a.len())\n");
    match c.kind {
        0 | 1 | 2 => s.push_str("  for x in a {\n    println(x)\n  }"),
        5 => s.push_str("  for r in a {\n    println(r.i .. \" \" .. r.k)\n  }"),
        _ => s.push_str("  for p in a {\n    let (k, i) = p\n    println(i .. \" \" .. k)\n  }"),
    }
    s
}

#[derive(Debug)]
pub struct Bad {
    pub predicate: &'static str,
    pub msg: String,
}

fn bad(predicate: &'static str, msg: String) -> Bad {
    Bad { predicate, msg }
}

/// Evaluate the property on the printed result.
pub fn verify(c: &SortCase, stdout: &str) -> Result<(), Bad> {
    let n = c.data.len();
    let mut lines = stdout.split('\n').collect::<Vec<_>>();
    if lines.last() == Some(&"") {
        lines.pop();
    }
    if lines.is_empty() {
        return Err(bad("output", "no output".into()));
    }
    if lines[0] != n.to_string() {
        return Err(bad("permutation", format!("length after sorting is {} but the array had {n} elements", lines[0])));
    }
    let rows = &lines[1..];
    if rows.len() != n {
        return Err(bad("permutation", format!("{} elements iterated after sorting, the array had {n}", rows.len())));
    }
    match (&c.data, c.kind) {
        (Data::Ints(v), 0) => {
            let got: Vec<i64> = rows.iter().map(|r| r.parse::<i64>().map_err(|_| bad("output", format!("unparseable element {r:?}")))).collect::<Result<_, _>>()?;
            ordered(&got, |a, b| a <= b)?;
            multiset(v.clone(), got)?;
        }
        (Data::Strs(v), 1) => {
            let got: Vec<String> = rows.iter().map(|r| r.to_string()).collect();
            ordered(&got, |a, b| a.as_bytes() <= b.as_bytes())?;
            multiset(v.clone(), got)?;
        }
        (Data::Floats(v), _) => {
            let got: Vec<f64> = rows.iter().map(|r| parse_printed_float(r).ok_or_else(|| bad("output", format!("unparseable element {r:?}")))).collect::<Result<_, _>>()?;
            ordered(&got, |a, b| a <= b)?;
            multiset(v.clone(), got.iter().map(|f| f.to_bits()).collect())?;
        }
        (Data::Ints(v), _) => {
            let got = indexed_rows(rows, n, |k| k.parse::<i64>().ok())?;
            tagged(&got, v)?;
            let keys: Vec<i64> = got.iter().map(|(_, k)| if matches!(c.kind, 4 | 5) { key_fn(c.cmp, *k) } else { *k }).collect();
            let idx: Vec<usize> = got.iter().map(|(i, _)| *i).collect();
            match c.kind {
                7 => {
                    // tuple Ord is lexicographic: (key, index) pairs are all distinct
                    let pairs: Vec<(i64, usize)> = got.iter().map(|(i, k)| (*k, *i)).collect();
                    ordered(&pairs, |a, b| a <= b)?;
                }
                3 => check_cmp(&keys, &idx, c.cmp)?,
                _ => check_cmp(&keys, &idx, 0)?,
            }
        }
        (Data::Strs(v), _) => {
            let got = indexed_rows(rows, n, |k| Some(k.to_string()))?;
            tagged(&got, v)?;
            let keys: Vec<&[u8]> = got.iter().map(|(_, k)| k.as_bytes()).collect();
            let idx: Vec<usize> = got.iter().map(|(i, _)| *i).collect();
            check_cmp(&keys, &idx, if c.kind == 6 { c.cmp } else { 0 })?;
        }
    }
    Ok(())
}

/// rows are `index key`
fn indexed_rows<K>(rows: &[&str], n: usize, parse: impl Fn(&str) -> Option<K>) -> Result<Vec<(usize, K)>, Bad> {
    let mut out = Vec::with_capacity(n);
    for r in rows {
        let (i, k) = r.split_once(' ').ok_or_else(|| bad("output", format!("unparseable row {r:?}")))?;
        let i: usize = i.parse().map_err(|_| bad("output", format!("unparseable index in row {r:?}")))?;
        let k = parse(k).ok_or_else(|| bad("output", format!("unparseable key in row {r:?}")))?;
        out.push((i, k));
    }
    Ok(out)
}

/// every original index appears exactly once and still carries its original key
fn tagged<K: PartialEq + std::fmt::Debug>(got: &[(usize, K)], orig: &[K]) -> Result<(), Bad> {
    let mut seen = vec![false; orig.len()];
    for (pos, (i, k)) in got.iter().enumerate() {
        if *i >= orig.len() {
            return Err(bad("permutation", format!("position {pos} holds an element with index {i}, which the array never had")));
        }
        if seen[*i] {
            return Err(bad("permutation", format!("the element with original index {i} appears twice (second time at position {pos})")));
        }
        seen[*i] = true;
        if &orig[*i] != k {
            return Err(bad("permutation", format!("the element with original index {i} now has key {k:?}, it had {:?}", orig[*i])));
        }
    }
    Ok(())
}

fn ordered<T: std::fmt::Debug>(got: &[T], le: impl Fn(&T, &T) -> bool) -> Result<(), Bad> {
    for p in 1..got.len() {
        if !le(&got[p - 1], &got[p]) {
            return Err(bad("ordered", format!("positions {} and {p} are out of order: {:?} then {:?}", p - 1, got[p - 1], got[p])));
        }
    }
    Ok(())
}

fn multiset<T: Ord + std::fmt::Debug>(mut a: Vec<T>, mut b: Vec<T>) -> Result<(), Bad> {
    a.sort();
    b.sort();
    if a != b {
        let p = a.iter().zip(b.iter()).position(|(x, y)| x != y).unwrap_or(a.len().min(b.len()));
        return Err(bad("permutation", format!("the sorted array is not a permutation of the original: as multisets they first differ at rank {p} (original {:?}, result {:?})", a.get(p), b.get(p))));
    }
    Ok(())
}

/// order under the comparison given to sort_by (0 `<=`, 1 `>=`, 2 `<`, 3 `>`), and stability for
/// the two reflexive ones
fn check_cmp<K: Ord + std::fmt::Debug>(keys: &[K], idx: &[usize], cmp: u8) -> Result<(), Bad> {
    for p in 1..keys.len() {
        let o = keys[p - 1].cmp(&keys[p]);
        let in_order = match cmp {
            0 | 2 => o != Ordering::Greater,
            _ => o != Ordering::Less,
        };
        if !in_order {
            return Err(bad("ordered", format!("positions {} and {p} are out of order under the given comparison: key {:?} then {:?}", p - 1, keys[p - 1], keys[p])));
        }
        if cmp < 2 && o == Ordering::Equal && idx[p - 1] > idx[p] {
            return Err(bad("stable", format!("equal keys {:?} at positions {} and {p} come in the order of original indices {} then {}", keys[p], p - 1, idx[p - 1], idx[p])));
        }
    }
    Ok(())
}

/// non-trivial: length >= 33 and two equal keys that start in different 32-element runs
pub fn nontrivial(c: &SortCase) -> bool {
    let n = c.data.len();
    if n <= RUN {
        return false;
    }
    fn spans<K: Ord + Clone>(keys: Vec<K>) -> bool {
        let mut first_run: std::collections::BTreeMap<K, usize> = std::collections::BTreeMap::new();
        for (i, k) in keys.into_iter().enumerate() {
            let r = i / RUN;
            match first_run.get(&k) {
                Some(r0) if *r0 != r => return true,
                Some(_) => {}
                None => {
                    first_run.insert(k, r);
                }
            }
        }
        false
    }
    match &c.data {
        Data::Ints(v) => spans(v.iter().map(|k| if matches!(c.kind, 4 | 5) { key_fn(c.cmp, *k) } else { *k }).collect()),
        Data::Strs(v) => spans(v.clone()),
        // -0.0 and 0.0 are equal keys with different bits
        Data::Floats(v) => spans(v.iter().map(|b| if f64::from_bits(*b) == 0.0 { 0u64 } else { *b }).collect()),
    }
}

// ---------------------------------------------------------------------------------------------
// generators

fn len_strategy() -> BoxedStrategy<usize> {
    let hot: Vec<usize> = vec![0, 1, 2, 31, 32, 33, 34, 63, 64, 65, 66, 127, 128, 129, 130, 255, 256, 257, 258];
    prop_oneof![7 => proptest::sample::select(hot), 2 => 0usize..=300, 1 => 3usize..=40].boxed()
}

/// arrange keys: 0 as generated | 1 ascending | 2 descending | 3 organ pipe | 4 ascending with a few swaps
fn shape<K: Ord + Clone>(mut v: Vec<K>, shape: u8, swaps: &[(u16, u16)]) -> Vec<K> {
    match shape {
        1 => v.sort(),
        2 => {
            v.sort();
            v.reverse();
        }
        3 => {
            v.sort();
            let (mut up, mut down) = (vec![], vec![]);
            for (i, k) in v.into_iter().enumerate() {
                if i % 2 == 0 { up.push(k) } else { down.push(k) }
            }
            down.reverse();
            up.extend(down);
            v = up;
        }
        4 => {
            v.sort();
            let n = v.len();
            if n > 1 {
                for (a, b) in swaps {
                    v.swap(pick_idx(*a, n), pick_idx(*b, n));
                }
            }
        }
        _ => {}
    }
    v
}

fn moderate_floats() -> Vec<f64> {
    float_boundaries().into_iter().filter(|x| *x == 0.0 || (x.abs() >= 1e-6 && x.abs() <= 1e15)).collect()
}

pub fn case_strategy() -> BoxedStrategy<SortCase> {
    (len_strategy(), 0u8..4, 0u8..5, 0u8..9, 0u8..4, proptest::collection::vec((any::<u16>(), any::<u16>()), 0..4))
        .prop_flat_map(|(n, range, shp, kind, cmp, swaps)| {
            let kind = kind % 9;
            let data: BoxedStrategy<Data> = match kind {
                1 | 6 | 8 => {
                    // pool size plays the part of the key range
                    let pool = match range {
                        0 => 2usize,
                        1 => 4,
                        2 => n / 4 + 1,
                        _ => 0,
                    };
                    if pool == 0 {
                        proptest::collection::vec(string_strategy(4), n).prop_map(Data::Strs).boxed()
                    } else {
                        (proptest::collection::vec(string_strategy(3), pool), proptest::collection::vec(any::<u16>(), n))
                            .prop_map(|(pool, sel)| Data::Strs(sel.into_iter().map(|s| pool[pick_idx(s, pool.len())].clone()).collect()))
                            .boxed()
                    }
                }
                2 => {
                    let one = prop_oneof![
                        3 => proptest::sample::select(moderate_floats()),
                        3 => (-40i32..40, 1u32..9).prop_map(|(a, b)| a as f64 / b as f64),
                        1 => (-1000i32..1000).prop_map(|a| a as f64 * 0.5),
                    ];
                    let one = match range {
                        0 => prop_oneof![Just(0.0f64), Just(-0.0f64), Just(1.0f64)].boxed(),
                        1 => proptest::sample::select(vec![-1.5f64, -0.0, 0.0, 2.25]).boxed(),
                        _ => one.boxed(),
                    };
                    proptest::collection::vec(one, n).prop_map(|v| Data::Floats(v.into_iter().map(|f| f.to_bits()).collect())).boxed()
                }
                _ => {
                    let one: BoxedStrategy<i64> = match range {
                        0 => (0i64..=1).boxed(),
                        1 => (0i64..=3).boxed(),
                        2 => (0i64..=(n as i64 / 4)).boxed(),
                        _ => prop_oneof![3 => any::<i64>(), 1 => int_strategy()].boxed(),
                    };
                    proptest::collection::vec(one, n).prop_map(Data::Ints).boxed()
                }
            };
            (data, Just(kind), Just(cmp), Just(shp), Just(swaps))
        })
        .prop_map(|(data, kind, cmp, shp, swaps)| {
            let data = match data {
                Data::Ints(v) => Data::Ints(shape(v, shp, &swaps)),
                Data::Strs(v) => Data::Strs(shape(v, shp, &swaps)),
                Data::Floats(v) => {
                    // order by numeric value (total_cmp keeps -0.0 before 0.0)
                    let mut f: Vec<F> = v.into_iter().map(|b| F(f64::from_bits(b))).collect();
                    f = shape(f, shp, &swaps);
                    Data::Floats(f.into_iter().map(|x| x.0.to_bits()).collect())
                }
            };
            normalise(SortCase { kind, cmp, data })
        })
        .boxed()
}

#[derive(Clone, Copy, PartialEq)]
struct F(f64);
impl Eq for F {}
impl PartialOrd for F {
    fn partial_cmp(&self, o: &F) -> Option<Ordering> {
        Some(self.cmp(o))
    }
}
impl Ord for F {
    fn cmp(&self, o: &F) -> Ordering {
        self.0.total_cmp(&o.0)
    }
}

// ---------------------------------------------------------------------------------------------

fn len_label(n: usize) -> String {
    match n {
        0..=2 => format!("len:{n}"),
        3..=30 => "len:3-30".into(),
        31..=34 => "len:31-34 (one run boundary)".into(),
        35..=62 => "len:35-62".into(),
        63..=66 => "len:63-66 (first merge level)".into(),
        67..=126 => "len:67-126".into(),
        127..=130 => "len:127-130".into(),
        131..=254 => "len:131-254".into(),
        255..=258 => "len:255-258".into(),
        _ => "len:259-300".into(),
    }
}

pub struct Sorting;

impl Prop for Sorting {
    type Case = Vec<SortCase>;
    fn name(&self) -> &'static str {
        "sorting"
    }
    fn rule(&self) -> &'static str {
        "one case = one array (length 0-300, concentrated around the multiples of the prelude's 32-element runs) of ints / strings / floats for `sort`, or of (key, original index) pairs / structs for `sort_by` (<=, >=, <, >) and `sort_by_key` (key, key / 4, string key), keys from {0..1, 0..3, 0..n/4, full range}, arranged random / ascending / descending / organ-pipe / nearly sorted; the printed result must be ordered under the given comparison, a permutation of the input, and (reflexive comparisons, sort_by and sort_by_key) keep equal keys in ascending original index; non-trivial = length >= 33 with two equal keys that start in different 32-element runs; distinct by the whole case"
    }
    fn n_cases(&self, tier: Tier) -> u32 {
        tier.pick(6000, 60000)
    }
    fn strategy(&self, _tier: Tier, _f: &Findings) -> BoxedStrategy<Self::Case> {
        proptest::collection::vec(case_strategy(), 1..=8).boxed()
    }
    fn fixed_cases(&self, _tier: Tier, _f: &Findings) -> Vec<Self::Case> {
        // every kind and comparison at the run boundaries with two-valued keys in a fixed pattern
        let mut all = vec![];
        for n in [0usize, 1, 2, 3, 31, 32, 33, 34, 64, 65, 96, 97, 128, 129] {
            for kind in 0u8..9 {
                for cmp in 0u8..4 {
                    let keys: Vec<i64> = (0..n).map(|i| ((i * 7 + i / 5) % 3) as i64).collect();
                    let data = match kind {
                        1 | 6 | 8 => Data::Strs(keys.iter().map(|k| ["b", "a", "ab"][*k as usize].to_string()).collect()),
                        2 => Data::Floats(keys.iter().map(|k| [0.0f64, -0.0, 1.5][*k as usize].to_bits()).collect()),
                        _ => Data::Ints(keys),
                    };
                    let c = normalise(SortCase { kind, cmp, data });
                    if c.cmp == cmp {
                        all.push(c);
                    }
                }
            }
        }
        all.chunks(8).map(|c| c.to_vec()).collect()
    }
    fn split(&self, case: &Self::Case) -> Vec<Self::Case> {
        case.iter().map(|c| vec![c.clone()]).collect()
    }
    fn judge(&self, cases: &Self::Case, env: &mut Env) -> Verdict {
        let cases: Vec<SortCase> = cases.iter().cloned().map(normalise).collect();
        let bodies: Vec<String> = cases.iter().map(body).collect();
        let (src, outs) = try_exec!(run_batch(env, ITEMS, &bodies, &RunOpts::default()));
        let mut st = CaseStats::default();
        if outs.len() != cases.len() {
            let r = &outs[0];
            if let Some(f) = crash_failure(r) {
                return Verdict::Fail(f);
            }
            return Verdict::Fail(Failure::new("VerdictMismatch", format!("sorting program rejected by the compiler: {:?}", r.compile)).feat("compile-rejected").detail(json!({"src": src})));
        }
        let mut first_fail = None;
        for (c, r) in cases.iter().zip(outs.iter()) {
            st.evals += 1;
            let nt = nontrivial(c);
            if nt {
                st.nt(c);
            }
            let kind = KINDS[c.kind as usize];
            let cmp = match c.kind {
                3 | 6 => ["<=", ">=", "<", ">"][c.cmp as usize & 3],
                4 | 5 => ["key", "key/4"][c.cmp as usize & 1],
                _ => "-",
            };
            st.label(format!("kind:{kind}"));
            st.label(format!("cmp:{cmp}"));
            st.label(len_label(c.data.len()));
            if nt {
                st.label("duplicate-key-across-runs");
            }
            let feats = vec![format!("kind:{kind}"), format!("cmp:{cmp}"), format!("len:{}", c.data.len())];
            let fail = if let Some(f) = crash_failure(r) {
                Some(f.feats(feats.clone()).detail(json!({"case": c, "body": body(c)})))
            } else if r.end != RunEnd::Done {
                Some(Failure::new("OutcomeMismatch", format!("{kind} ({cmp}) of {} elements ended with {:?}", c.data.len(), r.end)).feats(feats.clone()).detail(json!({"case": c, "body": body(c), "stdout": r.stdout})))
            } else {
                match verify(c, &r.stdout) {
                    Ok(()) => None,
                    Err(b) => Some(
                        Failure::new("ModelMismatch", format!("{kind} ({cmp}) of {} elements: not {}: {}", c.data.len(), b.predicate, b.msg))
                            .feats(feats.clone())
                            .feat(format!("predicate:{}", b.predicate))
                            .detail(json!({"case": c, "body": body(c), "stdout": r.stdout})),
                    ),
                }
            };
            if let Some(f) = fail {
                match env.findings.attribute(&f) {
                    Some(k) => st.known_hits.push(k),
                    None => {
                        if first_fail.is_none() {
                            first_fail = Some(f);
                        }
                    }
                }
            }
            if st.sample.is_none() && nt && c.data.len() < 40 {
                st.sample = Some(json!({"src": body(c), "stdout": r.stdout}));
            }
        }
        match first_fail {
            Some(f) => Verdict::Fail(f),
            None => Verdict::Pass(st),
        }
    }
}

pub fn run(ctx: &mut Ctx) {
    ctx.assume("the comparison given to sort_by is the one the order is judged by: for the reflexive ones (<=, >=) adjacent results must satisfy it and ties keep ascending original index; for the strict ones (<, > — the book's own `sort_by((a, b) -> a > b)` example) no adjacent pair may be strictly out of order, and stability is not claimed");
    ctx.assume("`sort` is judged by Ord (ints numeric, strings bytewise, floats numeric with -0.0 = 0.0, tuples lexicographic); stability is not claimed for `sort`");
    ctx.assume("floats are finite, of moderate magnitude, and read back through parse; NaN has no literal");
    ctx.prop(&Sorting);
}
