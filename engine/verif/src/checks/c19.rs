//! C19 — lambdas capture values at creation, including for nested lambdas.
//! Differential against the reference interpreter with a lambda-heavy generator.

use crate::checks::c02::{ProgCase, compare, final_kind, tape_strategy};
use crate::g::prog::*;
use crate::g::progen::*;
use crate::harness::*;
use crate::proto::*;
use crate::try_exec;
use proptest::prelude::*;
use serde_json::json;

pub struct BiasedDifferential {
    pub name: &'static str,
    pub bias: u8,
    pub rule: &'static str,
    pub quick: u32,
    pub thorough: u32,
}

impl Prop for BiasedDifferential {
    type Case = ProgCase;
    fn name(&self) -> &'static str {
        self.name
    }
    fn rule(&self) -> &'static str {
        self.rule
    }
    fn n_cases(&self, tier: Tier) -> u32 {
        tier.pick(self.quick, self.thorough)
    }
    fn strategy(&self, tier: Tier, _f: &Findings) -> BoxedStrategy<Self::Case> {
        let mut fl = Flags::core(tier.pick(14, 25), tier.pick(3, 4));
        fl.bias = self.bias;
        tape_strategy(tier.pick(450, 900)).prop_map(move |tape| ProgCase { tape, flags: fl.clone() }).boxed()
    }
    fn judge(&self, c: &Self::Case, env: &mut Env) -> Verdict {
        let prog = generate(&c.tape, &c.flags);
        let src = print_prog(&prog);
        let reference = run_reference(&prog);
        let opts = RunOpts { want_final: final_kind(&prog), max_steps: 3_000_000, ..RunOpts::default() };
        let r = try_exec!(env.run1(&src, &opts));
        let mut st = CaseStats::one();
        for l in &prog.labels {
            st.label(l.clone());
        }
        let feats = || prog.labels.iter().map(|l| format!("uses:{l}")).collect::<Vec<_>>();
        if let Some(f) = crash_failure(&r) {
            return Verdict::Fail(f.feats(feats()).detail(json!({"src": src})));
        }
        if let FrontVerdict::Diag(d) = &r.compile {
            return Verdict::Fail(Failure::new("VerdictMismatch", format!("generated program rejected: {}", norm_msg(d.lines().find(|l| !l.trim().is_empty()).unwrap_or("")))).feats(feats()).detail(json!({"src": src, "diagnostics": d})));
        }
        if matches!(reference.end, RefEnd::Unspecified(_)) || matches!(r.end, RunEnd::Cap) {
            st.discarded = 1;
            return Verdict::Pass(st);
        }
        if let Some(m) = compare(&r, &reference) {
            return Verdict::Fail(Failure::new("OutcomeMismatch", m).feats(feats()).detail(json!({"src": src, "expected_output": reference.printed, "got_output": r.stdout, "expected_end": format!("{:?}", reference.end)})));
        }
        let nt = match self.bias {
            1 => reference.stale_capture_calls >= 1,
            2 => reference.try_none >= 1 || (reference.try_some >= 1 && reference.unwraps >= 1),
            3 => prog.labels.iter().any(|l| l == "shadowing" || l == "loop-var-shadows") && !reference.printed.is_empty(),
            _ => true,
        };
        st.label(format!("closure-calls:{}", reference.closure_calls.min(3)));
        st.label(format!("try-none:{}", reference.try_none.min(2)));
        if nt {
            st.nt(&src);
            st.sample = Some(json!({"src": src, "output": reference.printed, "closure_calls": reference.closure_calls, "calls_seeing_a_stale_capture": reference.stale_capture_calls, "try_on_none": reference.try_none, "try_on_some": reference.try_some}));
        }
        Verdict::Pass(st)
    }
}

pub fn run(ctx: &mut Ctx) {
    ctx.assume("reference: a lambda captures a copy of every visible binding at creation (arrays and structs by reference), fresh locals per call");
    ctx.prop(&crate::g::srccase::SrcProp { name: "program" });
    ctx.prop(&BiasedDifferential {
        name: "lambda_differential",
        bias: 1,
        rule: "one case = a generated program biased towards lambdas (nesting depth <= 2, captures of locals / parameters / loop variables / variables used only by an inner lambda, lambdas stored in variables and passed to functions, captured `var`s reassigned before and after creation); outcome must equal the reference interpreter (capture = copy of the binding at creation); non-trivial = at least one lambda call at which a captured scalar differs from the current value of the same variable at the call site (so capture-at-creation is observable); distinct by program text",
        quick: 6000,
        thorough: 80000,
    });
}
