//! C29 — comments, blank lines and the optional `;` / `,` separators never change how a program
//! is parsed or what it does.
//! Metamorphic: an E1 program is printed canonically and re-styled at the text level (comments
//! between tokens, line comments at line ends, blank lines, each optional separator redrawn);
//! both texts must get the same compile verdict and the same (output, final value, end kind).

use crate::checks::c02::{final_kind, tape_strategy};
use crate::g::prog::print_prog;
use crate::g::progen::{generate, Flags, Tape};
use crate::harness::*;
use crate::proto::*;
use crate::try_exec;
use proptest::prelude::*;
use serde::{Deserialize, Serialize};
use serde_json::json;

#[derive(Clone, Debug, Serialize, Deserialize)]
pub struct StyleCase {
    pub tape: Vec<u16>,
    pub flags: Flags,
    /// choices of the re-styler (exhausted = canonical choice)
    pub style: Vec<u16>,
}

// ---------------------------------------------------------------------------------------------
// a small tokenizer for canonical E1 text

#[derive(Clone, Debug, PartialEq)]
pub enum Tk {
    Newline,
    Str,
    Num,
    Word,
    Punct,
}

#[derive(Clone, Debug)]
pub struct Tok {
    pub kind: Tk,
    pub text: String,
    /// blanks in front of the token on its line
    pub lead: String,
}

pub fn tokenize(src: &str) -> Vec<Tok> {
    let cs: Vec<char> = src.chars().collect();
    let mut i = 0;
    let mut out = vec![];
    let mut lead = String::new();
    const TWO: [&str; 11] = ["->", "<=", ">=", "==", "!=", "+=", "-=", "*=", "/=", "%=", ".."];
    while i < cs.len() {
        let c = cs[i];
        if c == ' ' || c == '\t' {
            lead.push(c);
            i += 1;
            continue;
        }
        let start = i;
        let kind = if c == '\n' {
            i += 1;
            Tk::Newline
        } else if c == '"' || c == '\'' {
            i += 1;
            while i < cs.len() && cs[i] != c {
                if cs[i] == '\\' {
                    i += 1;
                }
                i += 1;
            }
            i += 1;
            Tk::Str
        } else if c.is_ascii_digit() {
            while i < cs.len() && (cs[i].is_ascii_digit() || cs[i] == '_') {
                i += 1;
            }
            // a fraction only when a digit follows the dot (`0..n` and `t.0` are not floats)
            if i + 1 < cs.len() && cs[i] == '.' && cs[i + 1].is_ascii_digit() {
                i += 1;
                while i < cs.len() && (cs[i].is_ascii_digit() || cs[i] == '_') {
                    i += 1;
                }
            }
            Tk::Num
        } else if c == '_' || c.is_ascii_alphabetic() {
            while i < cs.len() && (cs[i] == '_' || cs[i].is_ascii_alphanumeric()) {
                i += 1;
            }
            Tk::Word
        } else {
            let two: String = cs[i..cs.len().min(i + 2)].iter().collect();
            i += if TWO.contains(&two.as_str()) { 2 } else { 1 };
            Tk::Punct
        };
        out.push(Tok { kind, text: cs[start..i.min(cs.len())].iter().collect(), lead: std::mem::take(&mut lead) });
    }
    out
}

#[derive(Clone, Copy, Debug, PartialEq)]
enum Scope {
    Block,
    Match,
    StructDef,
    Paren,
}

#[derive(Clone, Debug, Default, Serialize)]
pub struct StyleStats {
    pub line_comments: usize,
    pub block_comments: usize,
    pub block_comments_with_star_or_slash: usize,
    pub block_comments_with_newline: usize,
    pub blank_lines: usize,
    pub separators_changed: usize,
    pub semicolons: usize,
    pub commas_for_newlines: usize,
    pub newlines_for_commas: usize,
    pub joined_lines: usize,
}

const FRAGMENTS: [&str; 28] = [
    "", " ", "x", "note", "*", "/", "**", "//", "/*", "* /", "/ *", "\"", "'", "\\", "é", "日本", "😀", "\n", "let x = 1", "}", "{", ";", ",", "\"\"\"", "-", "/*/", "*\n*", "TODO: fix",
];

fn comment_text(t: &mut Tape, block: bool) -> String {
    let n = t.n(5);
    let mut s = String::new();
    for _ in 0..n {
        s.push_str(FRAGMENTS[t.n(FRAGMENTS.len())]);
    }
    if block {
        // the text of a block comment must not contain the closing delimiter
        while s.contains("*/") {
            s = s.replace("*/", "* /");
        }
    } else {
        s = s.replace('\n', " ");
    }
    s
}

fn block_comment(t: &mut Tape, st: &mut StyleStats) -> String {
    let text = comment_text(t, true);
    st.block_comments += 1;
    if text.contains('*') || text.contains('/') {
        st.block_comments_with_star_or_slash += 1;
    }
    if text.contains('\n') {
        st.block_comments_with_newline += 1;
    }
    format!("/*{text}*/")
}

const BINOPS: [&str; 20] = ["+", "-", "*", "/", "%", "^", "<", "<=", ">", ">=", "==", "!=", "..", "and", "or", "not", "=", "+=", "-=", "->"];

/// Re-print canonical E1 text with comments, blank lines and redrawn separators.
pub fn restyle(canon: &str, style: &[u16]) -> (String, StyleStats) {
    let toks = tokenize(canon);
    let mut t = Tape { data: style, pos: 0 };
    let mut st = StyleStats::default();
    let mut out = String::new();
    let mut stack: Vec<Scope> = vec![];
    let mut pending_match: Vec<usize> = vec![];
    // significant (non-newline) tokens seen so far
    let mut sig: Vec<String> = vec![];
    let next_sig = |i: usize| toks[i + 1..].iter().find(|k| k.kind != Tk::Newline).map(|k| k.text.clone());
    // suppress the indentation of the token that follows a same-line join
    let mut joined = false;
    let mut prev_was_newline = true;
    for (i, tok) in toks.iter().enumerate() {
        if tok.kind == Tk::Newline {
            let after_newline = std::mem::replace(&mut prev_was_newline, true);
            let prev = sig.last().cloned();
            let next = next_sig(i);
            let top = stack.last().copied();
            let inert = match prev.as_deref() {
                None => true,
                Some(p) => ["{", "(", "[", ",", "|", "return"].contains(&p) || BINOPS.contains(&p),
            } || next.as_deref() == Some("|")
                || top == Some(Scope::Paren)
                // a blank line: the separator (if any) has been drawn at the end of the statement
                || after_newline;
            let sep = match top {
                None | Some(Scope::Block) => ";",
                _ => ",",
            };
            // 0 newline | 1 separator + newline | 2 separator, same line
            let mut choice = if inert { 0 } else { t.choose(&[5, 3, 2]) };
            if choice == 2 && (next.is_none() || next.as_deref() == Some("}")) {
                choice = 1;
            }
            if t.n(8) == 7 {
                out.push(' ');
                out.push_str(&block_comment(&mut t, &mut st));
            }
            if choice > 0 {
                out.push_str(sep);
                st.separators_changed += 1;
                if sep == ";" {
                    st.semicolons += 1;
                } else {
                    st.commas_for_newlines += 1;
                }
            }
            if choice == 2 {
                st.joined_lines += 1;
                out.push(' ');
                joined = true;
                continue;
            }
            // line comment, the newline itself, blank lines
            let extra = if t.n(6) == 5 { 1 + t.n(2) } else { 0 };
            for k in 0..=extra {
                if t.n(7) == 6 {
                    out.push_str(" //");
                    out.push_str(&comment_text(&mut t, false));
                    st.line_comments += 1;
                }
                out.push('\n');
                if k > 0 {
                    st.blank_lines += 1;
                }
            }
            joined = false;
            continue;
        }
        prev_was_newline = false;
        // a block comment in front of the token (never glued to a neighbouring `/` or `*`)
        if joined {
            joined = false;
        } else {
            out.push_str(&tok.lead);
        }
        if t.n(9) == 8 {
            if out.ends_with('/') || out.ends_with('*') {
                out.push(' ');
            }
            out.push_str(&block_comment(&mut t, &mut st));
            out.push(' ');
            if t.n(4) == 3 {
                out.push_str(&block_comment(&mut t, &mut st));
                out.push(' ');
            }
        }
        // context tracking
        match tok.text.as_str() {
            "match" if tok.kind == Tk::Word => pending_match.push(stack.len()),
            "{" => {
                let n = sig.len();
                let ctx = if n >= 3 && sig[n - 1] == "=" && sig[n - 3] == "type" {
                    Scope::StructDef
                } else if pending_match.last() == Some(&stack.len()) {
                    pending_match.pop();
                    Scope::Match
                } else {
                    Scope::Block
                };
                stack.push(ctx);
            }
            "(" | "[" => stack.push(Scope::Paren),
            "}" | ")" | "]" => {
                stack.pop();
            }
            _ => {}
        }
        // an optional `,` between list elements may be a newline instead
        if tok.text == "," && tok.kind == Tk::Punct && stack.last() == Some(&Scope::Paren) {
            match t.choose(&[6, 2, 2]) {
                0 => out.push(','),
                1 => {
                    out.push_str(",\n");
                    st.separators_changed += 1;
                }
                _ => {
                    // the separator is the newline alone; keep anything before it on this line
                    if t.n(5) == 4 {
                        out.push_str(" //");
                        out.push_str(&comment_text(&mut t, false));
                        st.line_comments += 1;
                    }
                    out.push('\n');
                    st.separators_changed += 1;
                    st.newlines_for_commas += 1;
                }
            }
        } else {
            // a block comment must not be glued to a `/` or `*` token: the padding space above does that
            out.push_str(&tok.text);
        }
        sig.push(tok.text.clone());
    }
    (out, st)
}

// ---------------------------------------------------------------------------------------------

fn end_tag(r: &RunOut) -> String {
    match &r.end {
        RunEnd::Done => "done".into(),
        RunEnd::Error { kind, .. } => format!("error:{}", kind.tag()),
        RunEnd::Cap => "cap".into(),
        RunEnd::NotRun => "not-run".into(),
        RunEnd::HostPanic(_) => "host-panic".into(),
    }
}

fn verdict_tag(v: &FrontVerdict) -> &'static str {
    match v {
        FrontVerdict::Ok => "ok",
        FrontVerdict::Diag(_) => "diagnostics",
        FrontVerdict::Panic(_) => "panic",
        FrontVerdict::NotRun => "not-run",
    }
}

fn diag_line(v: &FrontVerdict) -> String {
    match v {
        FrontVerdict::Diag(d) => norm_msg(d.lines().find(|l| !l.trim().is_empty()).unwrap_or("")),
        other => format!("{other:?}").chars().take(120).collect(),
    }
}

pub struct Restyle;

impl Prop for Restyle {
    type Case = StyleCase;
    fn name(&self) -> &'static str {
        "restyle"
    }
    fn rule(&self) -> &'static str {
        "one case = an E1 program (choice tape) and a style tape; the canonical print is re-styled at the text level by a tokenizer that never touches the inside of a string, number, identifier or operator: block comments between tokens (text from fragments including * / // /* quotes, backslash, newlines, non-ASCII; never the closing delimiter), line comments at line ends, blank lines, statement newlines redrawn as `;`+newline or `; ` on one line (top level and blocks), match-arm and struct-field newlines as `,`, list commas as `,`+newline or a bare newline; both texts must get the same compile verdict, output, final value and end kind; non-trivial = accepted program with >= 3 comments, >= 1 block comment containing * or /, and >= 1 separator redrawn; distinct by re-styled text"
    }
    fn n_cases(&self, tier: Tier) -> u32 {
        tier.pick(4000, 40000)
    }
    fn strategy(&self, tier: Tier, _f: &Findings) -> BoxedStrategy<Self::Case> {
        let fl = Flags::core(tier.pick(10, 16), 3);
        let style = proptest::collection::vec(prop_oneof![3 => any::<u16>(), 1 => 56000u16..=65535, 1 => Just(0u16)], 50..1200);
        (tape_strategy(tier.pick(300, 600)), style).prop_map(move |(tape, style)| StyleCase { tape, flags: fl.clone(), style }).boxed()
    }
    fn judge(&self, c: &Self::Case, env: &mut Env) -> Verdict {
        let prog = generate(&c.tape, &c.flags);
        let canon = print_prog(&prog);
        let (styled, ss) = restyle(&canon, &c.style);
        let opts = RunOpts { want_final: final_kind(&prog), max_steps: 2_000_000, ..RunOpts::default() };
        let mut st = CaseStats::one();
        let ra = try_exec!(env.run1(&canon, &opts));
        let rb = try_exec!(env.run1(&styled, &opts));
        let feats = |ss: &StyleStats| {
            let mut v = vec![];
            if ss.block_comments_with_star_or_slash > 0 {
                v.push("block-comment-with-star-or-slash".to_string());
            }
            if ss.block_comments > 0 {
                v.push("block-comment".to_string());
            }
            if ss.line_comments > 0 {
                v.push("line-comment".to_string());
            }
            if ss.semicolons > 0 {
                v.push("semicolon".to_string());
            }
            if ss.commas_for_newlines > 0 {
                v.push("comma-for-newline".to_string());
            }
            if ss.newlines_for_commas > 0 {
                v.push("newline-for-comma".to_string());
            }
            if ss.joined_lines > 0 {
                v.push("joined-lines".to_string());
            }
            v
        };
        let detail = json!({"canonical": canon, "styled": styled, "style_stats": ss});
        for (which, r) in [("canonical", &ra), ("styled", &rb)] {
            if let Some(f) = crash_failure(r) {
                return Verdict::Fail(f.feat(format!("text:{which}")).feats(feats(&ss)).detail(detail));
            }
        }
        if verdict_tag(&ra.compile) != verdict_tag(&rb.compile) {
            return Verdict::Fail(
                Failure::new("VerdictMismatch", format!("canonical text: {}; re-styled text: {} ({})", verdict_tag(&ra.compile), verdict_tag(&rb.compile), diag_line(if ra.compile.is_ok() { &rb.compile } else { &ra.compile })))
                    .feats(feats(&ss))
                    .detail(detail),
            );
        }
        if !ra.compile.is_ok() {
            // the generator promises well-typed programs (C02 reports the same): a front end that
            // rejects both spellings must not make this check pass vacuously
            return Verdict::Fail(Failure::new("VerdictMismatch", format!("generated program rejected in its canonical print: {}", diag_line(&ra.compile))).feat("text:canonical").detail(detail));
        }
        let same = ra.stdout == rb.stdout && end_tag(&ra) == end_tag(&rb) && ra.final_value == rb.final_value;
        if !same {
            let what = if ra.stdout != rb.stdout {
                "output"
            } else if end_tag(&ra) != end_tag(&rb) {
                "end kind"
            } else {
                "final value"
            };
            return Verdict::Fail(
                Failure::new("OutcomeMismatch", format!("re-styled program differs in {what}: canonical ({:?}, {}, {:?}) vs re-styled ({:?}, {}, {:?})", excerpt(&ra.stdout), end_tag(&ra), ra.final_value, excerpt(&rb.stdout), end_tag(&rb), rb.final_value))
                    .feats(feats(&ss))
                    .detail(detail),
            );
        }
        st.label(format!("end:{}", end_tag(&ra)));
        for f in feats(&ss) {
            st.label(f);
        }
        if ss.block_comments_with_newline > 0 {
            st.label("block-comment-with-newline");
        }
        if ss.blank_lines > 0 {
            st.label("blank-lines");
        }
        if ss.line_comments + ss.block_comments >= 3 && ss.block_comments_with_star_or_slash >= 1 && ss.separators_changed >= 1 {
            st.nt(&styled);
            st.sample = Some(json!({"styled": styled, "style_stats": ss, "stdout": rb.stdout, "end": end_tag(&rb)}));
        }
        Verdict::Pass(st)
    }
}

fn excerpt(s: &str) -> String {
    s.chars().take(60).collect()
}

pub fn run(ctx: &mut Ctx) {
    ctx.assume("`;` is optional after a top-level item and after a statement in a block (directly after it, on the same line); `,` after a match arm, a struct field and between the elements of any parenthesised / bracketed list, where a newline may stand instead; a bare `return` keeps its newline (DESIGN 3.1)");
    ctx.assume("comments are inserted only between tokens of the canonical print; a block comment is separated from its neighbours by blanks");
    ctx.assume("E1 programs use the deterministic core flags and are well-typed by construction; a canonical print the compiler rejects is reported");
    ctx.prop(&crate::g::srccase::SrcProp { name: "program" });
    ctx.prop(&Restyle);
}
