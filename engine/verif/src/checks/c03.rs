//! C03 — every program accepted by the checker compiles to bytecode.
//! "Nesting skeleton" programs (type-plausible, not typed by construction): functions x lambdas x
//! task blocks x loops x match x blocks, with break/continue/return/?/! and every assignment form on
//! every target form at every level. The real checker decides acceptance; accepted => must compile.

use crate::g::progen::Tape;
use crate::g::textmut::*;
use crate::harness::*;
use crate::proto::*;
use crate::try_exec;
use proptest::prelude::*;
use serde::{Deserialize, Serialize};
use serde_json::json;

#[derive(Clone, Debug, Serialize, Deserialize)]
pub struct SkelCase {
    pub tape: Vec<u16>,
    pub max_depth: u8,
}

const PRELUDE: &str = "use core/map\n\ntype Pt = {\n  x: int\n  y: int\n}\n\ntype Grid = {\n  cells: array<int>\n}\n\nimplement Index for Grid {\n  fn index_get(self, index: int) -> int {\n    self.cells[index]\n  }\n  fn index_set(self, index: int, val: int) -> void {\n    self.cells[index] = val\n  }\n}\n\ntype Sh =\n  | Ci(int)\n  | Re(int, int)\n  | No\n\nfn helper(n: int) -> option<int> {\n  if n > 0 { option.some(n) } else { option.none }\n}\n\n";

struct Sk<'a> {
    t: Tape<'a>,
    out: String,
    labels: std::collections::BTreeSet<String>,
    next: usize,
    max_depth: usize,
}

#[derive(Clone, Copy)]
struct Cx {
    depth: usize,
    in_loop: bool,
    /// 0 top level, 1 fn returning int, 2 fn returning option<int>, 3 lambda, 4 task
    func: u8,
    ind: usize,
}

impl<'a> Sk<'a> {
    fn line(&mut self, cx: Cx, s: &str) {
        for _ in 0..cx.ind {
            self.out.push_str("  ");
        }
        self.out.push_str(s);
        self.out.push('\n');
    }
    fn fresh(&mut self) -> String {
        self.next += 1;
        format!("q{}", self.next)
    }
    fn int_expr(&mut self, cx: Cx) -> String {
        let k = if cx.depth >= self.max_depth { self.t.n(4) } else { self.t.n(12) };
        match k {
            0 => format!("{}", self.t.n(5)),
            1 => "n".to_string(),
            2 => "p.x".to_string(),
            3 => "arr[0]".to_string(),
            4 => "(n + 1)".to_string(),
            5 => "m[1]".to_string(),
            6 => "g[0]".to_string(),
            7 => {
                self.labels.insert("try".into());
                "helper(n)?".to_string()
            }
            8 => {
                self.labels.insert("unwrap".into());
                "helper(n)!".to_string()
            }
            9 => {
                self.labels.insert("lambda-call".into());
                "lam(n)".to_string()
            }
            10 => {
                self.labels.insert("match-expr".into());
                "match sh {\n .Ci(r) -> r\n .Re(w, h) -> w * h\n .No -> 0\n}".to_string()
            }
            _ => "{\n let t = n\n t * 2\n}".to_string(),
        }
    }
    fn target(&mut self) -> (String, &'static str) {
        match self.t.choose(&[30, 20, 20, 20, 20, 1, 1, 15]) {
            0 => ("n".into(), "var"),
            1 => ("p.x".into(), "field"),
            2 => ("arr[0]".into(), "array-index"),
            3 => ("m[1]".into(), "map-index"),
            4 => ("g[0]".into(), "user-index"),
            5 => ("k".into(), "let"),
            6 => ("it".into(), "loop-var"),
            _ => ("p.y".into(), "field"),
        }
    }
    fn block(&mut self, cx: Cx, n: usize) {
        for _ in 0..n {
            self.stmt(cx);
        }
    }
    fn stmt(&mut self, cx: Cx) {
        let deep = cx.depth >= self.max_depth;
        let inner = Cx { depth: cx.depth + 1, ind: cx.ind + 1, ..cx };
        let w: [u32; 14] = [16, 20, if deep { 0 } else { 12 }, if deep { 0 } else { 16 }, if deep { 0 } else { 16 }, if cx.in_loop { 16 } else { 0 }, 8, if deep { 0 } else { 16 }, if deep { 0 } else { 12 }, if deep { 0 } else { 12 }, 8, 1, 8, 8];
        match self.t.choose(&w) {
            0 => {
                let v = self.fresh();
                let e = self.int_expr(cx);
                self.line(cx, &format!("let {v} = {e}"));
            }
            1 => {
                let (t, kind) = self.target();
                let op = ["=", "+=", "-=", "*=", "/=", "%="][self.t.n(6)];
                self.labels.insert(format!("assign:{kind}:{op}"));
                let e = self.int_expr(cx);
                self.line(cx, &format!("{t} {op} {e}"));
            }
            2 => {
                self.labels.insert("if".into());
                let e = self.int_expr(cx);
                self.line(cx, &format!("if {e} > 0 {{"));
                let k = 1 + self.t.n(2);
                self.block(inner, k);
                if self.t.n(2) == 1 {
                    self.line(cx, "} else {");
                    self.block(inner, 1);
                }
                self.line(cx, "}");
            }
            3 => {
                self.labels.insert("while".into());
                self.line(cx, "while n < 3 {");
                self.line(inner, "n += 1");
                let k = 1 + self.t.n(2);
                self.block(Cx { in_loop: true, ..inner }, k);
                self.line(cx, "}");
            }
            4 => {
                self.labels.insert("for".into());
                let src = ["3", "arr", "range(0, 2)"][self.t.n(3)];
                self.line(cx, &format!("for it in {src} {{"));
                let k = 1 + self.t.n(2);
                self.block(Cx { in_loop: true, ..inner }, k);
                self.line(cx, "}");
            }
            5 => {
                self.labels.insert(format!("break@{}", cx.func));
                let k = self.t.n(2);
                self.line(cx, if k == 0 { "break" } else { "continue" });
            }
            6 => {
                self.labels.insert(format!("return@{}", cx.func));
                let e = match cx.func {
                    2 => "return option.some(1)".to_string(),
                    4 | 0 => "return".to_string(),
                    _ => format!("return {}", self.t.n(3)),
                };
                self.line(cx, &e);
            }
            7 => {
                // lambda with a block body that sees the enclosing loop / function
                self.labels.insert(format!("lambda-in-{}", cx.func));
                let f = self.fresh();
                self.line(cx, &format!("let {f} = (z: int) -> {{"));
                let k = 1 + self.t.n(3);
                self.block(Cx { func: 3, ..inner }, k);
                self.line(inner, "z + n");
                self.line(cx, "}");
                self.line(cx, &format!("let {f}r = {f}(1)"));
            }
            8 => {
                self.labels.insert(format!("task-in-{}", cx.func));
                self.line(cx, "task {");
                let k = 1 + self.t.n(3);
                self.block(Cx { func: 4, ..inner }, k);
                self.line(inner, "ch.write(n)");
                self.line(cx, "}");
            }
            9 => {
                self.labels.insert("match-stmt".into());
                self.line(cx, "match sh {");
                self.line(inner, ".Ci(r) -> {");
                self.block(Cx { depth: cx.depth + 2, ind: cx.ind + 2, ..cx }, 1);
                self.line(inner, "}");
                self.line(inner, ".Re(w, h) -> {");
                self.block(Cx { depth: cx.depth + 2, ind: cx.ind + 2, ..cx }, 1);
                self.line(inner, "}");
                self.line(inner, ".No -> {}");
                self.line(cx, "}");
            }
            10 => {
                let e = self.int_expr(cx);
                self.line(cx, &format!("println({e})"));
            }
            11 => {
                self.labels.insert("match-binding-assign".into());
                self.line(cx, "match n {");
                self.line(inner, "0 -> {}");
                let op = ["=", "+="][self.t.n(2)];
                self.line(inner, &format!("other -> {{ other {op} 1 }}"));
                self.line(cx, "}");
            }
            12 => {
                self.labels.insert("block".into());
                self.line(cx, "let blk = {");
                self.block(inner, 1);
                self.line(inner, "n");
                self.line(cx, "}");
            }
            _ => {
                self.labels.insert("push-pop".into());
                let k = self.t.n(2);
                self.line(cx, if k == 0 { "arr.push(n)" } else { "let popped = arr.pop()" });
            }
        }
    }

    fn locals(&mut self, cx: Cx) {
        self.line(cx, "var n = 1");
        self.line(cx, "let k = 2");
        self.line(cx, "let p = Pt(1, 2)");
        self.line(cx, "let arr = [1, 2, 3]");
        self.line(cx, "let m: map<int, int> = map.new()");
        self.line(cx, "m[1] = 5");
        self.line(cx, "let g = Grid([1, 2, 3])");
        self.line(cx, "let sh = Sh.Re(2, 3)");
        self.line(cx, "let ch: channel<int> = channel()");
        self.line(cx, "let lam = (a: int) -> a + 1");
        self.line(cx, "let it = 0");
    }
}

pub fn skeleton(c: &SkelCase) -> (String, Vec<String>) {
    let mut sk = Sk { t: Tape { data: &c.tape, pos: 0 }, out: PRELUDE.to_string(), labels: Default::default(), next: 0, max_depth: c.max_depth as usize };
    // one or two functions, then the main program
    let nf = 1 + sk.t.n(2);
    for i in 0..nf {
        let opt = sk.t.n(2) == 1;
        let cx = Cx { depth: 1, in_loop: false, func: if opt { 2 } else { 1 }, ind: 1 };
        sk.out.push_str(&format!("fn f{i}(seed: int) -> {} {{\n", if opt { "option<int>" } else { "int" }));
        sk.locals(cx);
        let k = 2 + sk.t.n(5);
        sk.block(cx, k);
        sk.out.push_str(if opt { "  option.some(n)\n}\n\n" } else { "  n\n}\n\n" });
    }
    let cx = Cx { depth: 0, in_loop: false, func: 0, ind: 0 };
    sk.locals(cx);
    let k = 2 + sk.t.n(6);
    sk.block(cx, k);
    sk.out.push_str("println(n)\n");
    (sk.out, sk.labels.into_iter().collect())
}

fn judge_accept_implies_compile(text: &str, labels: &[String], env: &mut Env, st: &mut CaseStats) -> Option<Failure> {
    let files = single(text.to_string());
    let (chk, cmp) = match env.front(&files, "main.abra", true, true) {
        Exec::Ok(v) => v,
        Exec::Abort(f) => return Some(f.feats(labels.iter().map(|l| format!("uses:{l}"))).detail(json!({"text": text}))),
        Exec::Inconclusive(_) => {
            st.discarded += 1;
            return None;
        }
    };
    let feats = || labels.iter().map(|l| format!("uses:{l}")).collect::<Vec<_>>();
    match (&chk, &cmp) {
        (FrontVerdict::Panic(p), _) => Some(Failure::new("HostPanic", norm_msg(&p.msg)).feat(format!("file:{}", base(&p.file))).feat("phase:check").feats(feats()).detail(json!({"text": text, "panic": p}))),
        (FrontVerdict::Ok, FrontVerdict::Ok) => {
            st.label("accepted");
            None
        }
        (FrontVerdict::Ok, FrontVerdict::Panic(p)) => Some(Failure::new("HostPanic", norm_msg(&p.msg)).feat(format!("file:{}", base(&p.file))).feat("phase:compile-after-accept").feats(feats()).detail(json!({"text": text, "panic": p}))),
        (FrontVerdict::Ok, FrontVerdict::Diag(d)) => Some(Failure::new("VerdictMismatch", "check accepts but compile_bytecode reports diagnostics").feats(feats()).detail(json!({"text": text, "diagnostics": d}))),
        (FrontVerdict::Diag(_), FrontVerdict::Ok) => Some(Failure::new("VerdictMismatch", "check rejects but compile_bytecode succeeds").feats(feats()).detail(json!({"text": text}))),
        (FrontVerdict::Diag(_), FrontVerdict::Panic(p)) => Some(Failure::new("HostPanic", norm_msg(&p.msg)).feat(format!("file:{}", base(&p.file))).feat("phase:compile-after-reject").feats(feats()).detail(json!({"text": text, "panic": p}))),
        _ => {
            st.label("rejected");
            None
        }
    }
}

pub struct Skeletons;

impl Prop for Skeletons {
    type Case = SkelCase;
    fn name(&self) -> &'static str {
        "nesting_skeletons"
    }
    fn rule(&self) -> &'static str {
        "one case = a type-plausible skeleton program: 1-2 functions (int / option<int> result) and a main body, each a random nesting (depth <= 3 quick, 4 thorough) of if / while / for / match / block / lambda / task with break, continue, return, ?, ! and every assignment operator (= += -= *= /= %=) on every target form (var, let, loop variable, match binding, struct field, array element, core/map element, user Index impl); the real checker decides acceptance; accepted => compile_bytecode succeeds without panic, and check/compile agree; non-trivial = accepted by the checker and >= 2 distinct nesting constructs; distinct by program text"
    }
    fn n_cases(&self, tier: Tier) -> u32 {
        tier.pick(6000, 150000)
    }
    fn strategy(&self, tier: Tier, _f: &Findings) -> BoxedStrategy<Self::Case> {
        let d = tier.pick(3u8, 4u8);
        proptest::collection::vec(any::<u16>(), 6..tier.pick(120, 300)).prop_map(move |tape| SkelCase { tape, max_depth: d }).boxed()
    }
    fn judge(&self, c: &Self::Case, env: &mut Env) -> Verdict {
        let (text, labels) = skeleton(c);
        let mut st = CaseStats::one();
        for l in &labels {
            st.label(l.clone());
        }
        if let Some(f) = judge_accept_implies_compile(&text, &labels, env, &mut st) {
            return Verdict::Fail(f);
        }
        let nest = labels.iter().filter(|l| ["if", "while", "for", "match-stmt", "block"].contains(&l.as_str()) || l.starts_with("lambda-in") || l.starts_with("task-in")).count();
        if st.labels.iter().any(|l| l.0 == "accepted") && nest >= 2 {
            st.nt(&text);
            st.sample = Some(json!({"text": text}));
        }
        Verdict::Pass(st)
    }
}

/// corpus programs and light mutations of them: whatever the checker accepts must compile
pub struct CorpusAccepted;

impl Prop for CorpusAccepted {
    type Case = TextCase;
    fn name(&self) -> &'static str {
        "accepted_corpus_compiles"
    }
    fn rule(&self) -> &'static str {
        "one case = a corpus program with 0..2 token-level mutations; if `check` reports no error then `compile_bytecode` must succeed too (and vice versa); non-trivial = accepted by the checker; distinct by text"
    }
    fn n_cases(&self, tier: Tier) -> u32 {
        tier.pick(3000, 60000)
    }
    fn strategy(&self, tier: Tier, _f: &Findings) -> BoxedStrategy<Self::Case> {
        text_strategy(tier.pick(2000, 6000), 2)
    }
    fn fixed_cases(&self, _tier: Tier, _f: &Findings) -> Vec<Self::Case> {
        corpus().iter().map(|(n, t)| TextCase { origin: n.clone(), text: t.clone(), n_muts: 0 }).collect()
    }
    fn judge(&self, c: &Self::Case, env: &mut Env) -> Verdict {
        let mut st = CaseStats::one();
        if let Some(f) = judge_accept_implies_compile(&c.text, &[], env, &mut st) {
            // front-end panics on rejected text are C04's subject; keep only the accept/compile disagreement here
            if f.features.iter().any(|x| x == "phase:check") {
                st.label("check-panic-counted-for-C04");
                return Verdict::Pass(st);
            }
            return Verdict::Fail(f);
        }
        if st.labels.iter().any(|l| l.0 == "accepted") {
            st.nt(&c.text);
            if c.text.len() < 300 {
                st.sample = Some(json!({"origin": c.origin, "text": c.text}));
            }
        }
        Verdict::Pass(st)
    }
}

pub fn run(ctx: &mut Ctx) {
    ctx.assume("acceptance is decided by abra_core::check itself; what compiled code does is C01/C02's subject");
    ctx.prop(&crate::g::srccase::SrcProp { name: "program" });
    ctx.prop(&Skeletons);
    ctx.prop(&CorpusAccepted);
}

/// debugging aid: `verif` is not needed; used by a unit-like dump in the sanity script
pub fn dump_example(seed: u16) -> String {
    let tape: Vec<u16> = (0..200u32).map(|i| ((i as u64 * 2654435761u64 + seed as u64 * 977) % 65536) as u16).collect();
    skeleton(&SkelCase { tape, max_depth: 3 }).0
}
