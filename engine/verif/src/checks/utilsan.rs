//! Coordinator side of the `utilsan` worker (engine/utilsan): a separate binary that depends
//! only on /repo/utils and is normally built with AddressSanitizer. Shared by C37 and C38.
//!
//! `./check` builds it (tools/build_utilsan.sh) and exports UTILSAN_BIN / UTILSAN_BUILD /
//! UTILSAN_BUILD_NOTE; without those variables the default target paths are tried.

use crate::harness::*;
use crate::pool::Worker;
use serde_json::{Value, json};
use std::path::PathBuf;

pub fn bin() -> Option<PathBuf> {
    if let Ok(p) = std::env::var("UTILSAN_BIN") {
        let p = PathBuf::from(p);
        return if p.is_file() { Some(p) } else { None };
    }
    let base = root().join("engine/utilsan/target");
    [base.join("x86_64-unknown-linux-gnu/release/utilsan"), base.join("release/utilsan")].into_iter().find(|p| p.is_file())
}

/// Symbolized ASan reports cost ~0.3 s per dead worker (llvm-symbolizer): off while searching
/// and shrinking (hundreds of deaths), on when one saved case is replayed.
static SYMBOLIZE: std::sync::atomic::AtomicBool = std::sync::atomic::AtomicBool::new(false);

pub fn configure(ctx: &Ctx) {
    SYMBOLIZE.store(matches!(ctx.mode, Mode::Replay { .. }), std::sync::atomic::Ordering::SeqCst);
}

pub fn make_worker() -> Worker {
    let p = bin().unwrap_or_else(|| PathBuf::from("/nonexistent/utilsan"));
    // leaks: Arena never runs destructors (by design) and the process is killed, not exited.
    // quarantine: keep freed blocks poisoned long enough for one sequence, bound the RSS of 12 workers.
    let sym = if SYMBOLIZE.load(std::sync::atomic::Ordering::SeqCst) { 1 } else { 0 };
    Worker::with_command(p, &[]).env("ASAN_OPTIONS", &format!("detect_leaks=0:quarantine_size_mb=64:print_legend=0:symbolize={sym}")).env("RUST_BACKTRACE", "0")
}

/// One request to this thread's utilsan worker.
pub fn call(env: &mut Env, payload: &Value) -> Exec<Value> {
    env.aux("utilsan", &make_worker, payload)
}

/// The worker's verdict on one sequence: Ok(stats) or the in-worker check that failed.
pub enum Outcome {
    Ok(Value),
    Bad { step: i64, what: String },
}

pub fn outcome(v: &Value) -> Result<Outcome, String> {
    match v.get("ok").and_then(|b| b.as_bool()) {
        Some(true) => Ok(Outcome::Ok(v.get("stats").cloned().unwrap_or(Value::Null))),
        // the worker rejecting the request itself is a harness problem, never a violation
        Some(false) if ["bad request", "request refers to dead slot", "unsupported "].iter().any(|p| v.get("what").and_then(|s| s.as_str()).unwrap_or("").starts_with(p)) => {
            Err(format!("harness: worker rejected the request: {}", v.get("what").and_then(|s| s.as_str()).unwrap_or("")))
        }
        Some(false) => Ok(Outcome::Bad { step: v.get("step").and_then(|s| s.as_i64()).unwrap_or(-1), what: v.get("what").and_then(|s| s.as_str()).unwrap_or("").to_string() }),
        None => Err(format!("protocol: response without `ok`: {v}")),
    }
}

/// Ask the worker which build it is, prove that the sanitizer is live (a deliberate
/// use-after-free in the worker's own harness must kill it with an ASan report), and record
/// both in the evidence. Returns false when the worker cannot be used at all.
pub fn preflight(ctx: &mut Ctx) -> bool {
    let Some(path) = bin() else {
        ctx.harness_error("utilsan worker binary not found (run ./setup.sh or ./check, which build engine/utilsan)");
        return false;
    };
    let findings = Findings { property: ctx.id.clone(), open: vec![] };
    // the preflight needs no abra worker, but Env wants one; it is idle and cheap
    let mut w = Worker::new();
    let mut env = Env { w: &mut w, findings: &findings, tier: ctx.tier };
    let build = match call(&mut env, &json!({"kind": "ping"})) {
        Exec::Ok(v) => v.pointer("/stats/build").and_then(|b| b.as_str()).unwrap_or("unknown").to_string(),
        Exec::Abort(f) => {
            ctx.harness_error(format!("utilsan worker does not answer ping: {}", f.msg));
            return false;
        }
        Exec::Inconclusive(s) => {
            ctx.harness_error(format!("utilsan worker does not answer ping: {s}"));
            return false;
        }
    };
    let note = std::env::var("UTILSAN_BUILD_NOTE").unwrap_or_else(|_| "built outside ./check".into());
    let mut info = json!({"binary": path.to_string_lossy(), "build": build, "build_note": note});
    if build == "asan" {
        let selftest = match call(&mut env, &json!({"kind": "selftest_uaf"})) {
            Exec::Abort(f) if f.features.iter().any(|x| x == "abort:asan") => {
                format!("deliberate use-after-free in the worker harness killed it with an AddressSanitizer report ({})", f.msg)
            }
            Exec::Abort(f) => format!("UNEXPECTED: worker died without an ASan report: {}", f.msg),
            Exec::Ok(v) => format!("UNEXPECTED: worker survived a deliberate use-after-free: {v}"),
            Exec::Inconclusive(s) => format!("UNEXPECTED: {s}"),
        };
        if selftest.starts_with("UNEXPECTED") {
            ctx.harness_error(format!("utilsan ASan self-test failed: {selftest}"));
        }
        info["asan_selftest"] = json!(selftest);
        ctx.assume("utilsan worker built with nightly -Zsanitizer=address (std itself is not instrumented; heap blocks are tracked through the ASan allocator), release profile with debug assertions and overflow checks; a memory error kills the worker and is reported as HostAbort/abort:asan");
    } else {
        ctx.assume("FALLBACK: utilsan worker built WITHOUT AddressSanitizer; undefined behaviour is only detected through its visible effects (model mismatch, misalignment, overlap, corrupted pattern, crash)");
    }
    ctx.extra.insert("utilsan".into(), info);
    true
}
