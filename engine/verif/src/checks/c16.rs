//! C16 — float arithmetic, conversions and comparisons follow the spec.
//! Oracle: Rust f64 (IEEE-754 binary64) with division by (+/-)0.0 as a division-by-zero error;
//! comparisons: one consistent total order that agrees with the numeric order on ordinary values.

use crate::g::batch::run_batch;
use crate::g::values::*;
use crate::harness::*;
use crate::proto::*;
use crate::try_exec;
use proptest::prelude::*;
use serde::{Deserialize, Serialize};
use serde_json::json;

#[derive(Clone, Debug, Serialize, Deserialize, PartialEq, Eq, Hash)]
pub enum FCase {
    /// op: 0 + | 1 - | 2 * | 3 / | 4 ^ | 5 unary -; form bit0/bit1 = a/b literal; via 0 operator, 1 Num method, 2 intrinsic, 3 compound, 4 member (.pow)
    Arith { op: u8, a: u64, b: u64, form: u8, via: u8 },
    /// the six comparisons on (a,b), (b,a), (a,a); via 0 operator, 1 Ord/Equal method, 2 intrinsic
    Cmp { a: u64, b: u64, form: u8, via: u8 },
    /// f: index into MATH
    Math { f: u8, a: u64, b: u64, lit: bool },
    IntFromFloat { a: u64, lit: bool, method: bool },
    FloatFromInt { n: i64, lit: bool, method: bool },
    /// a decimal spelling (digits, '_', leading zeros, many digits); value = str::parse of the text without '_'
    Literal { text: String },
}

pub const AOPS: [&str; 6] = ["+", "-", "*", "/", "^", "neg"];
pub const MATH: [&str; 14] = ["sqrt", "sin", "cos", "tan", "asin", "acos", "atan", "log", "log2", "log10", "ceil", "floor", "round", "atan2"];

#[derive(Clone, Debug, PartialEq)]
pub enum FExpect {
    Val(f64),
    Int(i64),
    Div0,
    /// comparison rows
    Rows,
}

fn f(b: u64) -> f64 {
    f64::from_bits(b)
}

pub fn normalise(c: FCase) -> FCase {
    match c {
        FCase::Arith { op, a, b, form, via } => {
            let op = op % 6;
            let mut via = via % 5;
            let mut form = form % 4;
            if op == 5 {
                return FCase::Arith { op, a, b: 0, form: form & 1, via: 0 };
            }
            // Num has all five; compound has no ^=; member spelling exists only for pow
            if via == 3 && op == 4 {
                via = 0;
            }
            if via == 4 && op != 4 {
                via = 2;
            }
            if via == 3 {
                form &= 2;
            }
            FCase::Arith { op, a, b, form, via }
        }
        FCase::Cmp { a, b, form, via } => FCase::Cmp { a, b, form: form % 4, via: via % 3 },
        FCase::Math { f, a, b, lit } => FCase::Math { f: f % 14, a, b, lit },
        other => other,
    }
}

pub fn reference(c: &FCase) -> FExpect {
    match c {
        FCase::Arith { op, a, b, .. } => {
            let (x, y) = (f(*a), f(*b));
            match op {
                0 => FExpect::Val(x + y),
                1 => FExpect::Val(x - y),
                2 => FExpect::Val(x * y),
                3 => {
                    if y == 0.0 { FExpect::Div0 } else { FExpect::Val(x / y) }
                }
                4 => FExpect::Val(x.powf(y)),
                _ => FExpect::Val(-x),
            }
        }
        FCase::Cmp { .. } => FExpect::Rows,
        FCase::Math { f: k, a, b, .. } => {
            let (x, y) = (f(*a), f(*b));
            FExpect::Val(match MATH[*k as usize] {
                "sqrt" => x.sqrt(),
                "sin" => x.sin(),
                "cos" => x.cos(),
                "tan" => x.tan(),
                "asin" => x.asin(),
                "acos" => x.acos(),
                "atan" => x.atan(),
                "log" => x.ln(),
                "log2" => x.log2(),
                "log10" => x.log10(),
                "ceil" => x.ceil(),
                "floor" => x.floor(),
                "round" => x.round(),
                _ => x.atan2(y),
            })
        }
        FCase::IntFromFloat { a, .. } => FExpect::Int(f(*a).trunc() as i64),
        FCase::FloatFromInt { n, .. } => FExpect::Val(*n as f64),
        FCase::Literal { text } => FExpect::Val(text.replace('_', "").parse::<f64>().unwrap()),
    }
}

fn cmp_exprs(a: &str, b: &str, via: u8) -> String {
    let parts: Vec<String> = match via {
        0 => vec![format!("({a} == {b})"), format!("({a} != {b})"), format!("({a} < {b})"), format!("({a} <= {b})"), format!("({a} > {b})"), format!("({a} >= {b})")],
        1 => vec![
            format!("Equal.equal({a}, {b})"),
            format!("({a} != {b})"),
            format!("Ord.less_than({a}, {b})"),
            format!("Ord.less_than_or_equal({a}, {b})"),
            format!("Ord.greater_than({a}, {b})"),
            format!("Ord.greater_than_or_equal({a}, {b})"),
        ],
        _ => vec![
            format!("equal_float({a}, {b})"),
            format!("(not equal_float({a}, {b}))"),
            format!("less_than_float({a}, {b})"),
            format!("less_than_or_equal_float({a}, {b})"),
            format!("greater_than_float({a}, {b})"),
            format!("greater_than_or_equal_float({a}, {b})"),
        ],
    };
    format!("  println({})\n", parts.join(" .. \" \" .. "))
}

pub fn body(c: &FCase) -> String {
    let mut s = String::new();
    match c {
        FCase::Arith { op, a, b, form, via } => {
            let (al, bl) = (form & 1 == 1, form & 2 == 2);
            if !al {
                s.push_str(&format!("  let a = {}\n", float_lit_plain(f(*a))));
            }
            if !bl && *op != 5 {
                s.push_str(&format!("  let b = {}\n", float_lit_plain(f(*b))));
            }
            let ea = if al { float_lit_plain(f(*a)) } else { "a".into() };
            let eb = if bl { float_lit_plain(f(*b)) } else { "b".into() };
            if *op == 5 {
                s.push_str(&format!("  println(-{ea})"));
                return s;
            }
            let o = AOPS[*op as usize];
            match via {
                0 => s.push_str(&format!("  println({ea} {o} {eb})")),
                1 => s.push_str(&format!("  println(Num.{}({ea}, {eb}))", ["add", "subtract", "multiply", "divide", "power"][*op as usize])),
                2 => s.push_str(&format!("  println({}({ea}, {eb}))", ["add_float", "subtract_float", "multiply_float", "divide_float", "power_float"][*op as usize])),
                3 => s.push_str(&format!("  var x = {ea}\n  x {o}= {eb}\n  println(x)")),
                _ => s.push_str(&format!("  println(({ea}).pow({eb}))")),
            }
        }
        FCase::Cmp { a, b, form, via } => {
            let (al, bl) = (form & 1 == 1, form & 2 == 2);
            if !al {
                s.push_str(&format!("  let a = {}\n", float_lit_plain(f(*a))));
            }
            if !bl {
                s.push_str(&format!("  let b = {}\n", float_lit_plain(f(*b))));
            }
            let ea = if al { float_lit_plain(f(*a)) } else { "a".into() };
            let eb = if bl { float_lit_plain(f(*b)) } else { "b".into() };
            s.push_str(&cmp_exprs(&ea, &eb, *via));
            s.push_str(&cmp_exprs(&eb, &ea, *via));
            s.push_str(&cmp_exprs(&ea, &ea, *via));
            s.push_str("  nil");
        }
        FCase::Math { f: k, a, b, lit } => {
            let name = MATH[*k as usize];
            let (ea, eb) = if *lit {
                (float_lit_plain(f(*a)), float_lit_plain(f(*b)))
            } else {
                s.push_str(&format!("  let a = {}\n  let b = {}\n", float_lit_plain(f(*a)), float_lit_plain(f(*b))));
                ("a".to_string(), "b".to_string())
            };
            if name == "atan2" {
                s.push_str(&format!("  println(atan2({ea}, {eb}))"));
            } else {
                s.push_str(&format!("  println({name}({ea}))"));
            }
        }
        FCase::IntFromFloat { a, lit, method } => {
            let ea = if *lit {
                float_lit_plain(f(*a))
            } else {
                s.push_str(&format!("  let a = {}\n", float_lit_plain(f(*a))));
                "a".into()
            };
            if *method { s.push_str(&format!("  println(({ea}).to_int())")) } else { s.push_str(&format!("  println(int_from_float({ea}))")) }
        }
        FCase::FloatFromInt { n, lit, method } => {
            let en = if *lit {
                int_lit(*n)
            } else {
                s.push_str(&format!("  let n = {n}\n"));
                "n".into()
            };
            if *method { s.push_str(&format!("  println(({en}).to_float())")) } else { s.push_str(&format!("  println(float_from_int({en}))")) }
        }
        FCase::Literal { text } => {
            s.push_str(&format!("  let x = {text}\n  println(x)"));
        }
    }
    s
}

fn nontrivial(c: &FCase, e: &FExpect) -> bool {
    let odd = |b: u64| {
        let x = f(b).abs();
        !(1e-3..=1e3).contains(&x)
    };
    match (c, e) {
        (_, FExpect::Div0) => true,
        (FCase::Arith { a, b, .. }, FExpect::Val(v)) => odd(*a) || odd(*b) || !v.is_finite() || *v == 0.0,
        (FCase::Cmp { a, b, .. }, _) => a != b,
        (FCase::Math { a, .. }, FExpect::Val(v)) => odd(*a) || !v.is_finite(),
        (FCase::IntFromFloat { a, .. }, _) => f(*a).fract() != 0.0 || f(*a).abs() > 1e15,
        (FCase::FloatFromInt { n, .. }, _) => n.unsigned_abs() > (1u64 << 53),
        (FCase::Literal { text }, _) => text.contains('_') || text.len() > 20 || text.starts_with('0'),
        _ => false,
    }
}

fn kind_tag(c: &FCase) -> String {
    match c {
        FCase::Arith { op, .. } => format!("arith:{}", AOPS[*op as usize]),
        FCase::Cmp { .. } => "cmp".into(),
        FCase::Math { f, .. } => format!("math:{}", MATH[*f as usize]),
        FCase::IntFromFloat { .. } => "int_from_float".into(),
        FCase::FloatFromInt { .. } => "float_from_int".into(),
        FCase::Literal { .. } => "literal".into(),
    }
}

fn check_cmp(a: f64, b: f64, out: &str) -> Result<(), String> {
    let rows: Vec<Vec<bool>> = out
        .lines()
        .map(|l| l.split(' ').map(|t| t == "true").collect::<Vec<bool>>())
        .collect();
    if rows.len() != 3 || rows.iter().any(|r| r.len() != 6) || out.split_whitespace().any(|t| t != "true" && t != "false") {
        return Err(format!("unreadable comparison output {out:?}"));
    }
    let (ab, ba, aa) = (&rows[0], &rows[1], &rows[2]);
    let (eq, ne, lt, le, gt, ge) = (0, 1, 2, 3, 4, 5);
    if !aa[eq] || aa[ne] || aa[lt] || aa[gt] || !aa[le] || !aa[ge] {
        return Err("x compared with itself is not (==, <=, >=) only".into());
    }
    for r in [ab, ba] {
        if r[ne] == r[eq] {
            return Err("!= is not the negation of ==".into());
        }
        if [r[lt], r[eq], r[gt]].iter().filter(|x| **x).count() != 1 {
            return Err("not exactly one of <, ==, > holds".into());
        }
        if r[le] != (r[lt] || r[eq]) || r[ge] != (r[gt] || r[eq]) {
            return Err("<= / >= are not < or == / > or ==".into());
        }
    }
    if ab[eq] != ba[eq] || ab[lt] != ba[gt] || ab[gt] != ba[lt] || ab[le] != ba[ge] || ab[ge] != ba[le] {
        return Err("(a,b) and (b,a) disagree".into());
    }
    let ordinary = !a.is_nan() && !b.is_nan() && !(a == 0.0 && b == 0.0);
    if ordinary && (ab[lt] != (a < b) || ab[eq] != (a == b) || ab[gt] != (a > b)) {
        return Err("order differs from the numeric order on ordinary values".into());
    }
    if a.to_bits() == b.to_bits() && !ab[eq] {
        return Err("identical values are not ==".into());
    }
    Ok(())
}

pub struct Floats;

fn lit_strategy() -> BoxedStrategy<String> {
    // digits with optional '_' separators and leading zeros, '.', digits
    let intpart = prop_oneof![
        3 => "[0-9]{1,18}",
        2 => "0{0,3}[0-9]{1,6}",
        2 => "[1-9][0-9]{0,2}(_[0-9]{3}){1,4}",
        1 => "[1-9][0-9]{20,40}",
        1 => "[1-9][0-9]{300,320}",
    ];
    let frac = prop_oneof![3 => "[0-9]{1,17}", 1 => "[0-9]{18,60}", 1 => "0{1,30}[1-9]{1,5}", 1 => "[0-9]{1,3}(_[0-9]{3}){1,2}", 1 => "0{320,340}[1-9]"];
    (intpart, frac)
        .prop_map(|(i, f)| format!("{i}.{f}"))
        .prop_filter("finite", |t| t.replace('_', "").parse::<f64>().map(|x| x.is_finite()).unwrap_or(false))
        .boxed()
}

impl Prop for Floats {
    type Case = Vec<FCase>;
    fn name(&self) -> &'static str {
        "float_ops"
    }
    fn rule(&self) -> &'static str {
        "one case = an arithmetic op (+ - * / ^ unary-) in literal/variable forms and operator/Num/intrinsic/compound/.pow spellings, a comparison triple, a math intrinsic, a conversion, or a literal spelling; results compared bit-exactly (all NaNs one class) through print->parse with Rust f64; non-trivial = an operand outside [1e-3,1e3] or a non-finite/zero/error result (arith, math), distinct operands (cmp), fractional or huge argument (conversions), '_'/leading zeros/long digit strings (literals); distinct by the full case"
    }
    fn n_cases(&self, tier: Tier) -> u32 {
        tier.pick(1200, 25000)
    }
    fn strategy(&self, _tier: Tier, _f: &Findings) -> BoxedStrategy<Self::Case> {
        let fl = || float_strategy().prop_map(|x| x.to_bits());
        let one = prop_oneof![
            5 => (0u8..6, fl(), fl(), 0u8..4, 0u8..5).prop_map(|(op, a, b, form, via)| FCase::Arith { op, a, b, form, via }),
            2 => (fl(), prop_oneof![Just(0.0f64.to_bits()), Just((-0.0f64).to_bits())], 0u8..4, 0u8..5).prop_map(|(a, b, form, via)| FCase::Arith { op: 3, a, b, form, via }),
            3 => (fl(), fl(), 0u8..4, 0u8..3).prop_map(|(a, b, form, via)| FCase::Cmp { a, b, form, via }),
            1 => (fl(), 0u8..4, 0u8..3, 0i64..3).prop_map(|(a, form, via, d)| {
                // neighbours: next representable values
                let b = (a as i64).wrapping_add(d - 1) as u64;
                let b = if f64::from_bits(b).is_finite() { b } else { a };
                FCase::Cmp { a, b, form, via }
            }),
            3 => (0u8..14, fl(), fl(), any::<bool>()).prop_map(|(f, a, b, lit)| FCase::Math { f, a, b, lit }),
            2 => (prop_oneof![fl(), (-1000i64..1000, 0u32..8).prop_map(|(n, k)| (n as f64 + k as f64 / 8.0).to_bits()), (0u32..63, any::<bool>()).prop_map(|(s, neg)| { let v = (1u64 << s) as f64 - 0.5; (if neg { -v } else { v }).to_bits() })], any::<bool>(), any::<bool>())
                .prop_filter("in i64 range", |(a, _, _)| f64::from_bits(*a).abs() < 9.2e18)
                .prop_map(|(a, lit, method)| FCase::IntFromFloat { a, lit, method }),
            2 => (int_strategy(), any::<bool>(), any::<bool>()).prop_map(|(n, lit, method)| FCase::FloatFromInt { n, lit, method }),
            2 => lit_strategy().prop_map(|text| FCase::Literal { text }),
        ]
        .prop_map(normalise);
        proptest::collection::vec(one, 1..120).boxed()
    }
    fn fixed_cases(&self, tier: Tier, _f: &Findings) -> Vec<Self::Case> {
        let b = float_boundaries();
        let mut all = vec![];
        let mut k = 0u32;
        let step = tier.pick(3usize, 1usize);
        for op in 0u8..6 {
            for (i, &x) in b.iter().enumerate() {
                if op == 5 {
                    for form in 0..2 {
                        all.push(normalise(FCase::Arith { op, a: x.to_bits(), b: 0, form, via: 0 }));
                    }
                    continue;
                }
                for (j, &y) in b.iter().enumerate() {
                    if (i + j) % step != 0 && !(op == 3 && y == 0.0) {
                        continue;
                    }
                    k = k.wrapping_add(1);
                    all.push(normalise(FCase::Arith { op, a: x.to_bits(), b: y.to_bits(), form: (k % 4) as u8, via: ((k / 4) % 5) as u8 }));
                }
            }
        }
        for (i, &x) in b.iter().enumerate() {
            for (j, &y) in b.iter().enumerate() {
                if (i + j) % step != 0 {
                    continue;
                }
                k = k.wrapping_add(1);
                all.push(FCase::Cmp { a: x.to_bits(), b: y.to_bits(), form: (k % 4) as u8, via: ((k / 4) % 3) as u8 });
            }
            for fi in 0..14u8 {
                all.push(FCase::Math { f: fi, a: x.to_bits(), b: b[(i * 7 + 3) % b.len()].to_bits(), lit: i % 2 == 0 });
            }
            if x.abs() < 9.2e18 {
                all.push(FCase::IntFromFloat { a: x.to_bits(), lit: i % 2 == 0, method: i % 3 == 0 });
            }
        }
        for (i, n) in int_boundaries().into_iter().enumerate() {
            all.push(FCase::FloatFromInt { n, lit: i % 2 == 0, method: i % 3 == 0 });
        }
        for t in ["1.0", "1.00", "01.0", "001.5", "1_0.5", "1_000.000_1", "0.1", "0.10", "0.30000000000000004", "0.3", "123456789012345678901234567890.0", "0.000000000000000000000000000001", "9007199254740993.0", "4.9406564584124654e-324".replace("e-324", "").as_str()] {
            if t.replace('_', "").parse::<f64>().is_ok() {
                all.push(FCase::Literal { text: t.to_string() });
            }
        }
        all.chunks(150).map(|c| c.to_vec()).collect()
    }
    fn split(&self, case: &Self::Case) -> Vec<Self::Case> {
        case.iter().map(|c| vec![c.clone()]).collect()
    }
    fn judge(&self, cases: &Self::Case, env: &mut Env) -> Verdict {
        let cases: Vec<FCase> = cases.iter().cloned().map(normalise).collect();
        let bodies: Vec<String> = cases.iter().map(body).collect();
        let (src, outs) = try_exec!(run_batch(env, "", &bodies, &RunOpts::default()));
        if outs.len() != cases.len() {
            let r = &outs[0];
            if let Some(f) = crash_failure(r) {
                return Verdict::Fail(f);
            }
            return Verdict::Fail(Failure::new("VerdictMismatch", format!("float batch rejected by the compiler: {:?}", r.compile)).detail(json!({"src": src})));
        }
        let mut st = CaseStats::default();
        let mut first_fail = None;
        for (c, r) in cases.iter().zip(outs.iter()) {
            st.evals += 1;
            let exp = reference(c);
            let nt = nontrivial(c, &exp);
            if nt {
                st.nt(c);
            }
            st.label(kind_tag(c));
            let got_txt = r.stdout.trim_end_matches('\n').to_string();
            let verdict: Result<(), String> = if let Some(f) = crash_failure(r) {
                if let Some(k) = env.findings.attribute(&f) {
                    st.known_hits.push(k);
                } else if first_fail.is_none() {
                    first_fail = Some(f);
                }
                continue;
            } else {
                match (&exp, &r.end) {
                    (FExpect::Div0, RunEnd::Error { kind: ErrKind::DivisionByZero, .. }) => Ok(()),
                    (FExpect::Div0, other) => Err(format!("expected division by zero, got {other:?} output {got_txt:?}")),
                    (FExpect::Val(v), RunEnd::Done) => match parse_printed_float(&got_txt) {
                        Some(g) if fbits_eq(g, *v) => Ok(()),
                        Some(g) => Err(format!("expected {v:?} (bits {:#x}) got {g:?} (bits {:#x})", v.to_bits(), g.to_bits())),
                        None => Err(format!("unparseable float output {got_txt:?}")),
                    },
                    (FExpect::Int(n), RunEnd::Done) => {
                        if got_txt.parse::<i64>().ok() == Some(*n) { Ok(()) } else { Err(format!("expected {n} got {got_txt:?}")) }
                    }
                    (FExpect::Rows, RunEnd::Done) => match c {
                        FCase::Cmp { a, b, .. } => check_cmp(f(*a), f(*b), &r.stdout),
                        _ => unreachable!(),
                    },
                    (_, other) => Err(format!("unexpected end {other:?}")),
                }
            };
            if let Err(m) = verdict {
                let mut fl = Failure::new("OutcomeMismatch", format!("float {}: {m}", kind_tag(c))).feat(format!("kind:{}", kind_tag(c))).detail(json!({"case": c, "body": body(c)}));
                if let FCase::Arith { op, b, form, via, .. } = c {
                    if *op == 3 && f(*b) == 0.0 {
                        fl = fl.feat("divisor:zero");
                    }
                    fl = fl.feat(format!("form:{form}")).feat(format!("via:{via}"));
                    if *op == 5 {
                        fl = fl.feat("unary-minus");
                    }
                }
                match env.findings.attribute(&fl) {
                    Some(k) => st.known_hits.push(k),
                    None => {
                        if first_fail.is_none() {
                            first_fail = Some(fl);
                        }
                    }
                }
            }
            if st.sample.is_none() && nt {
                st.sample = Some(json!({"src": body(c), "expect": format!("{exp:?}"), "stdout": got_txt, "end": format!("{:?}", r.end).chars().take(60).collect::<String>()}));
            }
        }
        match first_fail {
            Some(f) => Verdict::Fail(f),
            None => Verdict::Pass(st),
        }
    }
}

pub fn run(ctx: &mut Ctx) {
    ctx.assume("reference = Rust f64 operations (the same libm the VM links), compared bit-exactly after a print->parse round trip; all NaNs are one class");
    ctx.assume("log is the natural logarithm; round is round-half-away-from-zero (Rust f64::round); int_from_float is only exercised for |x| < 9.2e18");
    ctx.assume("comparisons: only consistency laws plus agreement with the numeric order on non-NaN, not-both-zero operands are demanded");
    ctx.prop(&Floats);
}
