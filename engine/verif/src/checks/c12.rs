//! C12 — an accepted match is total; reported gaps are real.
//! Oracle: brute force. Every value of the scrutinee type (literal-carrying leaves: every literal
//! the arms mention plus fresh representatives) is matched against the arm list by the reference
//! matcher of `g::matchgen`. Accepted => every value matches some arm, statically and when the
//! compiled match is run on every value. Reported non-exhaustive => some value is unmatched and
//! every listed witness covers at least one unmatched value.

use crate::g::batch::run_batch;
use crate::g::matchgen::*;
use crate::harness::*;
use crate::proto::*;
use crate::try_exec;
use proptest::prelude::*;
use serde_json::json;

pub const SPAN: u32 = 48;

pub fn quick_cap(ty: &Ty) -> usize {
    // pool prefix used for the "all arm lists of length <= 2" layer
    match ty_kind(ty) {
        "bool" | "void" => 8,
        _ => 30,
    }
}

pub fn fixed_batches(tier: Tier) -> Vec<MBatch> {
    let tys = universe();
    let small = smallest_types();
    let mut out = vec![];
    match tier {
        Tier::Quick => {
            out.extend(enumerate_spans(1, quick_cap, SPAN, &tys));
            out.extend(enumerate_spans(2, quick_cap, SPAN, &tys));
            // the smallest types: everything up to length 3 over a short pool
            out.extend(enumerate_spans(3, |_| 8, SPAN, &small));
        }
        Tier::Thorough => {
            out.extend(enumerate_spans(1, |_| 60, SPAN, &tys));
            out.extend(enumerate_spans(2, |_| 60, SPAN, &tys));
            out.extend(enumerate_spans(3, |_| 22, SPAN, &tys));
            out.extend(enumerate_spans(4, |_| 8, SPAN, &small));
        }
    }
    out
}

pub fn random_batches(max_lists: usize) -> BoxedStrategy<MBatch> {
    proptest::collection::vec(rand_case(2, 4), 1..=max_lists).prop_map(MBatch::Lists).boxed()
}

/// the first line printed is `<arm index>[;name=value]*`
pub fn parse_arm_line(out: &str) -> Option<(usize, &str)> {
    let line = out.lines().next()?;
    let idx = line.split(';').next()?.parse::<usize>().ok()?;
    Some((idx, line))
}

fn nontrivial(c: &MCase) -> bool {
    c.arms.len() >= 2 && !c.arms.iter().all(is_literal_only) && !(c.arms.len() == 1 && matches!(c.arms[0], Pat::Wild))
}

pub struct Totality;

impl Totality {
    fn static_failure(c: &MCase, r: &StaticReport, ra: &RefAnalysis) -> Option<Failure> {
        let mk = |what: &str, msg: String| Failure::new("VerdictMismatch", msg).feat(format!("what:{what}")).feats(case_feats(c)).detail(json!({"match": case_text(c), "case": c, "missing": r.missing, "redundant": r.redundant, "other": r.other}));
        if !r.other.is_empty() {
            return Some(mk("other-diagnostic", format!("a generated match draws an unrelated diagnostic: {}", r.other[0])));
        }
        let unmatched = ra.unmatched();
        if let Some(wits) = &r.missing {
            if unmatched.is_empty() {
                return Some(mk("spurious-nonexhaustive", format!("reported as not covering every case, but every value of {} matches an arm", ty_text(&c.ty))));
            }
            if wits.is_empty() {
                return Some(mk("no-witness", "reported as not covering every case without listing a missing case".to_string()));
            }
            for w in wits {
                match parse_witness(w, &c.ty) {
                    Err(e) => return Some(mk("malformed-witness", format!("missing case `{w}` is not a pattern of {}: {e}", ty_text(&c.ty)))),
                    Ok(wp) => {
                        if !unmatched.iter().any(|v| wmatches(&wp, v)) {
                            return Some(mk("witness-covers-nothing", format!("missing case `{w}` covers no unmatched value of {}", ty_text(&c.ty))));
                        }
                    }
                }
            }
        } else if r.redundant.is_none() && !unmatched.is_empty() {
            return Some(mk("accepted-not-total", format!("accepted, but the value {} of {} matches no arm", val_expr(unmatched[0], &c.ty), ty_text(&c.ty))));
        }
        None
    }
}

impl Prop for Totality {
    type Case = MBatch;
    fn name(&self) -> &'static str {
        "totality"
    }
    fn rule(&self) -> &'static str {
        "one case = (scrutinee type from a 47-type universe, arm list); fixed layer = every arm list of length <= 2 (thorough: <= 3; <= 4 for bool/void/int/float/string/Color) over a per-type pattern pool, random layer = lists of 2-4 random patterns of depth <= 2; oracle = reference matcher over every value of the type; non-trivial = at least 2 arms, not all literal patterns; distinct by (type, arm list)"
    }
    fn n_cases(&self, tier: Tier) -> u32 {
        tier.pick(600, 6000)
    }
    fn strategy(&self, _tier: Tier, _f: &Findings) -> BoxedStrategy<Self::Case> {
        random_batches(40)
    }
    fn fixed_cases(&self, tier: Tier, _f: &Findings) -> Vec<Self::Case> {
        fixed_batches(tier)
    }
    fn exhaustive(&self, _tier: Tier) -> bool {
        true
    }
    fn split(&self, case: &Self::Case) -> Vec<Self::Case> {
        case.split()
    }
    fn judge(&self, batch: &Self::Case, env: &mut Env) -> Verdict {
        let cases = batch.expand();
        if let Some(bad) = cases.iter().find(|c| c.arms.is_empty() || !c.arms.iter().all(|p| well_formed(p, &c.ty))) {
            return Verdict::Inconclusive(format!("ill-formed case {}", case_text_safe(bad)));
        }
        let (src, an) = try_exec!(analyse_static(env, &cases));
        let reports = match an {
            Analysed::Fail(f) => {
                let d = f.detail.clone();
                return Verdict::Fail(f.detail(json!({"src": src, "diag": d})));
            }
            Analysed::Reports(r) => r,
        };
        let mut st = CaseStats::default();
        let mut first_fail: Option<Failure> = None;
        let findings = env.findings;
        let note = |f: Failure, st: &mut CaseStats, first_fail: &mut Option<Failure>| match findings.attribute(&f) {
            Some(k) => st.known_hits.push(k),
            None => {
                if first_fail.is_none() {
                    *first_fail = Some(f);
                }
            }
        };
        let mut refs = vec![];
        for (c, r) in cases.iter().zip(&reports) {
            st.evals += 1;
            let ra = analyse_ref(c);
            if nontrivial(c) {
                st.nt(c);
            }
            case_labels(c, &mut st);
            st.label(r.verdict());
            st.label(if ra.exhaustive() { "ref:total" } else { "ref:partial" });
            if let Some(f) = Self::static_failure(c, r, &ra) {
                note(f, &mut st, &mut first_fail);
            }
            if st.sample.is_none() && nontrivial(c) && r.missing.is_some() {
                st.sample = Some(json!({"match": case_text(c), "verdict": r.verdict(), "missing": r.missing, "unmatched_values": ra.unmatched().iter().map(|v| val_expr(v, &c.ty)).collect::<Vec<_>>()}));
            }
            refs.push(ra);
        }
        // dynamic half: run every accepted match on every value of its type
        let dynamic: Vec<(usize, &MCase, &Vec<Val>)> = cases.iter().enumerate().filter(|(i, _)| reports[*i].accepted() && refs[*i].exhaustive()).map(|(i, c)| (i, c, &refs[i].values)).collect();
        if !dynamic.is_empty() {
            let (items, bodies, index) = dynamic_program(&dynamic);
            let (dsrc, outs) = try_exec!(run_batch(env, &items, &bodies, &RunOpts::default()));
            if outs.len() != bodies.len() {
                let r = &outs[0];
                let f = crash_failure(r).unwrap_or_else(|| {
                    Failure::new("VerdictMismatch", format!("matches accepted one by one do not compile together: {}", strip_ansi(&format!("{:?}", r.compile)).chars().take(300).collect::<String>()))
                        .feat("what:accepted-does-not-compile")
                        .feats(dynamic.iter().flat_map(|(_, c, _)| case_feats(c)).collect::<std::collections::BTreeSet<_>>())
                });
                note(f.detail(json!({"src": dsrc})), &mut st, &mut first_fail);
            } else {
                for ((ci, vi), r) in index.iter().zip(outs.iter()) {
                    let c = &cases[*ci];
                    let v = &refs[*ci].values[*vi];
                    st.label("dynamic-run");
                    let fail = if let Some(f) = crash_failure(r) {
                        Some(f.feat("what:run-fault").feats(case_feats(c)))
                    } else if !matches!(r.end, RunEnd::Done) {
                        Some(Failure::new("OutcomeMismatch", format!("an accepted match ends with {:?}", r.end)).feat("what:run-error").feats(case_feats(c)))
                    } else {
                        match parse_arm_line(&r.stdout) {
                            None => Some(Failure::new("OutcomeMismatch", format!("no arm ran: output {:?}", r.stdout.chars().take(80).collect::<String>())).feat("what:no-arm").feats(case_feats(c))),
                            Some((k, _)) if k >= c.arms.len() || !matches(&c.arms[k], v) => {
                                Some(Failure::new("OutcomeMismatch", format!("arm {k} ran for the value {}, which it does not match", val_expr(v, &c.ty))).feat("what:wrong-arm").feats(case_feats(c)))
                            }
                            Some(_) => None,
                        }
                    };
                    if let Some(f) = fail {
                        note(f.detail(json!({"match": case_text(c), "case": c, "value": val_expr(v, &c.ty), "stdout": r.stdout, "end": format!("{:?}", r.end)})), &mut st, &mut first_fail);
                    }
                }
            }
        }
        match first_fail {
            Some(f) => Verdict::Fail(f),
            None => Verdict::Pass(st),
        }
    }
}

pub fn case_text_safe(c: &MCase) -> String {
    format!("{:?}", c).chars().take(300).collect()
}

pub fn run(ctx: &mut Ctx) {
    ctx.assume("values of int/float/string scrutinees are represented by every literal the arms mention plus fresh representatives (-1, 7.5, -0.0, \"zz\"); no pattern can denote a negative number");
    ctx.assume("literal patterns match by the language's == (floats by total order: 0.0 does not match -0.0)");
    ctx.assume("'accepted' = the function containing the match draws no diagnostic; a match reported only as redundant is neither accepted nor reported non-exhaustive");
    ctx.assume("witnesses are read from the rendered diagnostic with a type-directed parser of the DeconstructedPat display grammar");
    ctx.prop(&Totality);
}
