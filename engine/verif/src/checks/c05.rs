//! C05 — optimization and literal operands never change program behaviour.
//! (a) generated programs compiled with and without the optimizer must behave identically;
//! (b) every arithmetic/comparison case must give the same outcome in all four literal/variable
//!     operand forms and with the optimizer on and off.

use crate::checks::c02::{ProgCase, compare as _unused_compare, final_kind, tape_strategy};
use crate::checks::{c15, c16};
use crate::g::batch::batch_source;
use crate::g::prog::*;
use crate::g::progen::*;
use crate::g::values::*;
use crate::harness::*;
use crate::proto::*;
use crate::try_exec;
use proptest::prelude::*;
use serde::{Deserialize, Serialize};
use serde_json::json;

fn outcome_key(r: &RunOut) -> String {
    let end = match &r.end {
        RunEnd::Done => "done".to_string(),
        RunEnd::Error { kind, rendered } => format!("error:{}:{}", kind.tag(), rendered),
        RunEnd::Cap => "cap".to_string(),
        other => format!("{other:?}"),
    };
    format!("{}|{:?}|{}", r.stdout, r.final_value, end)
}

pub struct OptOnOff;

impl Prop for OptOnOff {
    type Case = ProgCase;
    fn name(&self) -> &'static str {
        "optimizer_on_off"
    }
    fn rule(&self) -> &'static str {
        "one case = a generated program compiled twice (optimizer on / off through hook H1); printed output, final value, error kind and rendered error location must be identical; non-trivial = both runs execute a different number of instructions (the optimizer changed the code) and the program prints something; distinct by program text"
    }
    fn n_cases(&self, tier: Tier) -> u32 {
        tier.pick(2000, 50000)
    }
    fn strategy(&self, tier: Tier, _f: &Findings) -> BoxedStrategy<Self::Case> {
        let fl = Flags::core(tier.pick(12, 25), tier.pick(3, 4));
        tape_strategy(tier.pick(400, 900)).prop_map(move |tape| ProgCase { tape, flags: fl.clone() }).boxed()
    }
    fn judge(&self, c: &Self::Case, env: &mut Env) -> Verdict {
        let _ = _unused_compare;
        let prog = generate(&c.tape, &c.flags);
        let src = print_prog(&prog);
        let opts = RunOpts { want_final: final_kind(&prog), max_steps: 3_000_000, ..RunOpts::default() };
        let variants = vec![Variant { optimizer_off: Some(false), ..Variant::sel(0) }, Variant { optimizer_off: Some(true), ..Variant::sel(0) }];
        let outs = try_exec!(env.run_var(&single(src.clone()), "main.abra", &opts, &variants));
        let mut st = CaseStats::one();
        for l in &prog.labels {
            st.label(l.clone());
        }
        let feats = || prog.labels.iter().map(|l| format!("uses:{l}")).collect::<Vec<_>>();
        for (i, r) in outs.iter().enumerate() {
            if let Some(f) = crash_failure(r) {
                return Verdict::Fail(f.feats(feats()).feat(if i == 0 { "optimizer:on" } else { "optimizer:off" }).detail(json!({"src": src})));
            }
        }
        let (on, off) = (&outs[0], &outs[1]);
        if on.compile.is_ok() != off.compile.is_ok() {
            return Verdict::Fail(Failure::new("VerdictMismatch", "compile verdict differs with the optimizer off").feats(feats()).detail(json!({"src": src})));
        }
        if !on.compile.is_ok() {
            st.discarded = 1;
            return Verdict::Pass(st);
        }
        if matches!(on.end, RunEnd::Cap) || matches!(off.end, RunEnd::Cap) {
            st.discarded = 1;
            return Verdict::Pass(st);
        }
        if outcome_key(on) != outcome_key(off) {
            return Verdict::Fail(
                Failure::new("OutcomeMismatch", "behaviour differs with the optimizer off")
                    .feats(feats())
                    .detail(json!({"src": src, "optimized": outcome_key(on), "unoptimized": outcome_key(off)})),
            );
        }
        if on.steps != off.steps && !on.stdout.is_empty() {
            st.nt(&src);
            st.sample = Some(json!({"src": src, "steps_optimized": on.steps, "steps_unoptimized": off.steps, "stdout": on.stdout}));
        }
        Verdict::Pass(st)
    }
}

#[derive(Clone, Debug, Serialize, Deserialize, PartialEq, Eq, Hash)]
pub enum FormCase {
    Int { op: u8, a: i64, b: i64, via: u8 },
    Float { op: u8, a: u64, b: u64, via: u8 },
    FloatCmp { a: u64, b: u64, via: u8 },
    IntCmp { a: i64, b: i64 },
}

fn forms_of(c: &FormCase) -> Vec<String> {
    // the bodies of the same operation in each literal/variable operand form
    match c {
        FormCase::Int { op, a, b, via } => (0..4u8)
            .map(|form| c15::body(&c15::normalise(c15::IntCase { op: *op, a: *a, b: *b, form, via: *via })))
            .collect(),
        FormCase::Float { op, a, b, via } => (0..4u8).map(|form| c16::body(&c16::normalise(c16::FCase::Arith { op: *op, a: *a, b: *b, form, via: *via }))).collect(),
        FormCase::FloatCmp { a, b, via } => (0..4u8).map(|form| c16::body(&c16::FCase::Cmp { a: *a, b: *b, form, via: *via })).collect(),
        FormCase::IntCmp { a, b } => (0..4u8)
            .map(|form| {
                let (al, bl) = (form & 1 == 1, form & 2 == 2);
                let mut s = String::new();
                if !al {
                    s.push_str(&format!("  let a = {a}\n"));
                }
                if !bl {
                    s.push_str(&format!("  let b = {b}\n"));
                }
                let ea = if al { int_lit(*a) } else { "a".into() };
                let eb = if bl { int_lit(*b) } else { "b".into() };
                s.push_str(&format!("  println(({ea} == {eb}) .. \" \" .. ({ea} != {eb}) .. \" \" .. ({ea} < {eb}) .. \" \" .. ({ea} <= {eb}) .. \" \" .. ({ea} > {eb}) .. \" \" .. ({ea} >= {eb}))"));
                s
            })
            .collect(),
    }
}

pub struct Forms;

impl Prop for Forms {
    type Case = Vec<FormCase>;
    fn name(&self) -> &'static str {
        "literal_vs_variable"
    }
    fn rule(&self) -> &'static str {
        "one case = an operation and two operand values; it is compiled in the four forms literal/literal, variable/literal, literal/variable, variable/variable, each with the optimizer on and off (8 runs); all 8 outcomes (printed result or runtime error kind) must be identical; non-trivial = an operand outside {-1,0,1} (ints) / outside [1e-3,1e3] or zero (floats); distinct by case"
    }
    fn n_cases(&self, tier: Tier) -> u32 {
        tier.pick(600, 12000)
    }
    fn strategy(&self, _tier: Tier, _f: &Findings) -> BoxedStrategy<Self::Case> {
        let fl = || float_strategy().prop_map(|x| x.to_bits());
        let zero = || prop_oneof![Just(0.0f64.to_bits()), Just((-0.0f64).to_bits())];
        let one = prop_oneof![
            4 => (0u8..6, int_strategy(), int_strategy(), 0u8..3).prop_map(|(op, a, b, via)| {
                let b = if op == 5 { (b.unsigned_abs() % 70) as i64 } else { b };
                FormCase::Int { op, a, b, via }
            }),
            4 => (0u8..5, fl(), fl(), 0u8..3).prop_map(|(op, a, b, via)| FormCase::Float { op, a, b, via }),
            2 => (fl(), zero(), 0u8..3).prop_map(|(a, b, via)| FormCase::Float { op: 3, a, b, via }),
            2 => (fl(), fl(), 0u8..3).prop_map(|(a, b, via)| FormCase::FloatCmp { a, b, via }),
            1 => (zero(), zero(), 0u8..3).prop_map(|(a, b, via)| FormCase::FloatCmp { a, b, via }),
            2 => (int_strategy(), int_strategy()).prop_map(|(a, b)| FormCase::IntCmp { a, b }),
        ];
        proptest::collection::vec(one, 1..40).boxed()
    }
    fn fixed_cases(&self, tier: Tier, _f: &Findings) -> Vec<Self::Case> {
        let mut all = vec![];
        let ib = int_boundaries();
        let fb = float_boundaries();
        let step = tier.pick(5usize, 1usize);
        for (i, &a) in ib.iter().enumerate() {
            for (j, &b) in ib.iter().enumerate() {
                if (i + j) % step != 0 {
                    continue;
                }
                for op in 0u8..6 {
                    if op == 5 && b < 0 {
                        continue;
                    }
                    all.push(FormCase::Int { op, a, b, via: ((i + j) % 3) as u8 });
                }
                all.push(FormCase::IntCmp { a, b });
            }
        }
        for (i, &a) in fb.iter().enumerate() {
            for (j, &b) in fb.iter().enumerate() {
                if (i + j) % (step * 2) != 0 && b != 0.0 {
                    continue;
                }
                for op in 0u8..5 {
                    all.push(FormCase::Float { op, a: a.to_bits(), b: b.to_bits(), via: ((i + j) % 3) as u8 });
                }
                all.push(FormCase::FloatCmp { a: a.to_bits(), b: b.to_bits(), via: ((i + j) % 3) as u8 });
            }
        }
        all.chunks(30).map(|c| c.to_vec()).collect()
    }
    fn split(&self, case: &Self::Case) -> Vec<Self::Case> {
        case.iter().map(|c| vec![c.clone()]).collect()
    }
    fn judge(&self, cases: &Self::Case, env: &mut Env) -> Verdict {
        let mut bodies = vec![];
        for c in cases {
            bodies.extend(forms_of(c));
        }
        let src = batch_source("", &bodies);
        let mut variants = vec![];
        for i in 0..bodies.len() {
            variants.push(Variant { optimizer_off: Some(false), ..Variant::sel(i as i64) });
            variants.push(Variant { optimizer_off: Some(true), ..Variant::sel(i as i64) });
        }
        let outs = try_exec!(env.run_var(&single(src.clone()), "main.abra", &RunOpts::default(), &variants));
        if outs.len() != variants.len() {
            return Verdict::Inconclusive("protocol".into());
        }
        if !outs[0].compile.is_ok() {
            if let Some(f) = crash_failure(&outs[0]) {
                return Verdict::Fail(f);
            }
            return Verdict::Fail(Failure::new("VerdictMismatch", format!("form batch rejected by the compiler: {:?}", outs[0].compile)).detail(json!({"src": src})));
        }
        let mut st = CaseStats::default();
        let mut first_fail = None;
        for (ci, c) in cases.iter().enumerate() {
            st.evals += 8;
            let nt = match c {
                FormCase::Int { a, b, .. } | FormCase::IntCmp { a, b } => !(-1..=1).contains(a) || !(-1..=1).contains(b),
                FormCase::Float { a, b, .. } | FormCase::FloatCmp { a, b, .. } => {
                    let odd = |x: u64| {
                        let v = f64::from_bits(x).abs();
                        !(1e-3..=1e3).contains(&v)
                    };
                    odd(*a) || odd(*b)
                }
            };
            if nt {
                st.nt(c);
            }
            st.label(match c {
                FormCase::Int { .. } => "int-arith",
                FormCase::Float { .. } => "float-arith",
                FormCase::FloatCmp { .. } => "float-cmp",
                FormCase::IntCmp { .. } => "int-cmp",
            });
            let rs = &outs[ci * 8..ci * 8 + 8];
            let mut fail = None;
            for r in rs {
                if let Some(f) = crash_failure(r) {
                    fail = Some(f);
                    break;
                }
            }
            if fail.is_none() {
                let key = |r: &RunOut| match &r.end {
                    RunEnd::Done => format!("value:{}", r.stdout.trim_end()),
                    RunEnd::Error { kind, .. } => format!("error:{}", kind.tag()),
                    other => format!("{other:?}"),
                };
                let k0 = key(&rs[0]);
                if let Some(pos) = rs.iter().position(|r| key(r) != k0) {
                    let names = ["lit/lit opt", "lit/lit noopt", "var-a.. "];
                    let _ = names;
                    let all: Vec<String> = rs.iter().map(key).collect();
                    let mut f = Failure::new("OutcomeMismatch", format!("operand forms disagree: form {} optimizer {} gives {} but form 0 optimized gives {}", pos / 2, if pos % 2 == 0 { "on" } else { "off" }, all[pos], k0))
                        .detail(json!({"case": c, "outcomes_by_form_and_optimizer": all, "bodies": forms_of(c)}));
                    if let FormCase::Float { op: 3, b, .. } = c {
                        if f64::from_bits(*b) == 0.0 {
                            f = f.feat("divisor:zero");
                        }
                    }
                    fail = Some(f);
                }
            }
            if let Some(f) = fail {
                match env.findings.attribute(&f) {
                    Some(k) => st.known_hits.push(k),
                    None => {
                        if first_fail.is_none() {
                            first_fail = Some(f);
                        }
                    }
                }
            }
            if st.sample.is_none() && nt {
                st.sample = Some(json!({"case": c, "forms": forms_of(c), "outcome": rs[0].stdout.trim_end()}));
            }
        }
        match first_fail {
            Some(f) => Verdict::Fail(f),
            None => Verdict::Pass(st),
        }
    }
}

/// constant-pool pressure: more than 65536 distinct integer and float literals followed by
/// immediate-operand instructions (immediates are indexed with 16 bits)
pub struct PoolPressure;

impl Prop for PoolPressure {
    type Case = u32;
    fn name(&self) -> &'static str {
        "constant_pool_pressure"
    }
    fn rule(&self) -> &'static str {
        "one case = a program with N distinct int literals (N up to 70000) followed by arithmetic with literal operands that the optimizer turns into immediate-operand instructions; the printed sums must equal the Rust-computed values with the optimizer on and off; non-trivial = N > 65536"
    }
    fn n_cases(&self, _tier: Tier) -> u32 {
        0
    }
    fn strategy(&self, _tier: Tier, _f: &Findings) -> BoxedStrategy<Self::Case> {
        Just(10u32).boxed()
    }
    fn fixed_cases(&self, tier: Tier, f: &Findings) -> Vec<Self::Case> {
        // while the finding is open only its probe (replays/C05/known-constant-pool-u16.json) exceeds the pool limit
        if f.is_open("constant-pool-u16") {
            return tier.pick(vec![300, 20000], vec![300, 20000, 60000]);
        }
        tier.pick(vec![300, 66000], vec![300, 65535, 65536, 65537, 66000, 70000])
    }
    fn judge(&self, n: &Self::Case, env: &mut Env) -> Verdict {
        let n = *n as i64;
        // distinct constants 1000..1000+n are summed in chunks; then operations with fresh literal operands
        let mut s = String::from("var acc = 0\n");
        let mut expect_acc: i64 = 0;
        let mut k = 0i64;
        while k < n {
            let mut line = String::from("acc = acc");
            for _ in 0..50 {
                if k >= n {
                    break;
                }
                let c = 1000 + k;
                line.push_str(&format!(" + {c}"));
                expect_acc += c;
                k += 1;
            }
            s.push_str(&line);
            s.push('\n');
        }
        s.push_str("println(acc)\n");
        let late = [(900_001i64, 900_002i64), (900_003, 7), (12, 900_004)];
        let mut expected = format!("{expect_acc}\n");
        for (i, (a, b)) in late.iter().enumerate() {
            s.push_str(&format!("let x{i} = {a}\nprintln(x{i} + {b})\nprintln(x{i} * 3 - {b})\nprintln(x{i} < {b})\nprintln(x{i} % {b})\n"));
            expected.push_str(&format!("{}\n{}\n{}\n{}\n", a + b, a * 3 - b, a < b, a.rem_euclid(*b)));
        }
        let opts = RunOpts { max_steps: 50_000_000, ..RunOpts::default() };
        let variants = vec![Variant { optimizer_off: Some(false), ..Variant::sel(0) }, Variant { optimizer_off: Some(true), ..Variant::sel(0) }];
        let outs = try_exec!(env.run_var(&single(s.clone()), "main.abra", &opts, &variants));
        let mut st = CaseStats::one();
        if n > 65536 {
            st.nt(&n);
        }
        st.sample = Some(json!({"distinct_int_literals": n, "expected_tail": expected.lines().rev().take(4).collect::<Vec<_>>()}));
        for (i, r) in outs.iter().enumerate() {
            if let Some(f) = crash_failure(r) {
                return Verdict::Fail(f.feat(format!("literals:{n}")).feat(if i == 0 { "optimizer:on" } else { "optimizer:off" }));
            }
            if !r.compile.is_ok() {
                return Verdict::Fail(Failure::new("VerdictMismatch", format!("pool-pressure program rejected: {:?}", r.compile).chars().take(300).collect::<String>()));
            }
            if !matches!(r.end, RunEnd::Done) || r.stdout != expected {
                return Verdict::Fail(
                    Failure::new("OutcomeMismatch", format!("program with {n} distinct literals computes wrong values (optimizer {})", if i == 0 { "on" } else { "off" }))
                        .feat(format!("literals:{n}"))
                        .feat(if n > 65000 { "pool:over-65536" } else { "pool:small" })
                        .detail(json!({"expected": expected, "got": r.stdout, "end": format!("{:?}", r.end).chars().take(200).collect::<String>()})),
                );
            }
        }
        Verdict::Pass(st)
    }
}

pub fn run(ctx: &mut Ctx) {
    ctx.assume("hook H1 (verif::set_optimizer_off) skips only the peephole optimizer pass");
    ctx.prop(&crate::g::srccase::SrcProp { name: "program" });
    ctx.prop(&Forms);
    ctx.prop(&PoolPressure);
    ctx.prop(&OptOnOff);
}
