//! C20 — assignment: `let` bindings and variables captured by a lambda cannot be assigned
//! (diagnostic); `var` bindings, array elements and struct fields can, and the assignment takes
//! effect; assignment to any other binding form is accepted with its plain effect or rejected
//! with a diagnostic — never a compiler crash.
//! The domain is a finite table: binding form x assignment operator x position.

use crate::harness::*;
use crate::proto::*;
use crate::try_exec;
use proptest::prelude::*;
use serde::{Deserialize, Serialize};
use serde_json::json;

pub const FORMS: [&str; 17] = [
    "let",
    "var",
    "destructured-let",
    "destructured-var",
    "for-binding",
    "parameter",
    "lambda-parameter",
    "match-binding",
    "or-pattern-binding",
    "captured-let",
    "captured-var",
    "struct-field",
    "array-element",
    "tuple-typed-var",
    "toplevel-var-in-fn",
    "var-captured-by-task",
    "captured-var-assign-only",
];
pub const OPS: [&str; 6] = ["=", "+=", "-=", "*=", "/=", "%="];
pub const POSITIONS: [&str; 5] = ["top-level", "fn-body", "lambda-body", "loop-body", "task-body"];

#[derive(Clone, Debug, Serialize, Deserialize, PartialEq, Eq, Hash)]
pub struct Cell {
    pub form: u8,
    pub op: u8,
    pub pos: u8,
    /// initial value and right-hand side (1..=99, 1..=9): no overflow, no zero divisor
    pub v0: i64,
    pub rhs: i64,
}

#[derive(Clone, Debug, PartialEq)]
pub enum Expect {
    /// check and compile answer with diagnostics
    Reject,
    /// accepted; running prints exactly this
    Accept(String),
    /// either of the two above
    Either(String),
    /// diagnostics, or accepted and runs to completion: only crash-freedom is demanded
    NoCrash,
}

impl Cell {
    pub fn normalise(mut self) -> Cell {
        self.form %= FORMS.len() as u8;
        self.op %= OPS.len() as u8;
        self.pos %= POSITIONS.len() as u8;
        self.v0 = self.v0.clamp(1, 99);
        self.rhs = self.rhs.clamp(1, 9);
        self
    }
    pub fn new_value(&self) -> i64 {
        match OPS[self.op as usize] {
            "=" => self.rhs,
            "+=" => self.v0 + self.rhs,
            "-=" => self.v0 - self.rhs,
            "*=" => self.v0 * self.rhs,
            "/=" => self.v0 / self.rhs,
            _ => self.v0.rem_euclid(self.rhs),
        }
    }
    pub fn expect(&self) -> Expect {
        let new = format!("{}\n", self.new_value());
        match FORMS[self.form as usize] {
            "let" | "destructured-let" | "captured-let" | "captured-var" | "captured-var-assign-only" => Expect::Reject,
            "var" | "destructured-var" | "struct-field" | "array-element" => Expect::Accept(new),
            "tuple-typed-var" => {
                if self.op == 0 {
                    Expect::Accept(format!("({}, 20)\n", self.rhs))
                } else {
                    // a tuple is not a number: the compound forms are ill-typed
                    Expect::NoCrash
                }
            }
            // the task works on its own copy: the plain effect is not visible outside
            "var-captured-by-task" => Expect::Either(format!("{}\n", self.v0)),
            _ => Expect::Either(new),
        }
    }
    /// (top-level items, top-level statements that must stay at top level, snippet statements)
    pub fn parts(&self) -> (String, String, Vec<String>) {
        let (v0, rhs, op) = (self.v0, self.rhs, OPS[self.op as usize]);
        let mut items = String::new();
        let mut top = String::new();
        let s: Vec<String> = match FORMS[self.form as usize] {
            "let" => vec![format!("let x = {v0}"), format!("x {op} {rhs}"), "println(x)".into()],
            "var" => vec![format!("var x = {v0}"), format!("x {op} {rhs}"), "println(x)".into()],
            "destructured-let" => vec![format!("let (x, y) = ({v0}, 20)"), format!("x {op} {rhs}"), "println(x)".into()],
            "destructured-var" => vec![format!("var (x, y) = ({v0}, 20)"), format!("x {op} {rhs}"), "println(x)".into()],
            "for-binding" => vec![format!("for x in [{v0}] {{"), format!("  x {op} {rhs}"), "  println(x)".into(), "}".into()],
            "parameter" => {
                items = format!("fn c20f(x: int) -> int {{\n  x {op} {rhs}\n  x\n}}\n");
                vec![format!("println(c20f({v0}))")]
            }
            "lambda-parameter" => vec!["let lf = (x: int) -> {".into(), format!("  x {op} {rhs}"), "  x".into(), "}".into(), format!("println(lf({v0}))")],
            "match-binding" => vec![format!("match {v0} {{"), "  x -> {".into(), format!("    x {op} {rhs}"), "    println(x)".into(), "  }".into(), "}".into()],
            "or-pattern-binding" => vec![
                format!("match ({v0}, 0) {{"),
                "  (x, 0) | (0, x) -> {".into(),
                format!("    x {op} {rhs}"),
                "    println(x)".into(),
                "  }".into(),
                "  _ -> println(\"none\")".into(),
                "}".into(),
            ],
            "captured-let" | "captured-var" => vec![
                format!("{} x = {v0}", if self.form == 9 { "let" } else { "var" }),
                "let lf = () -> {".into(),
                format!("  x {op} {rhs}"),
                "  x".into(),
                "}".into(),
                "println(lf())".into(),
            ],
            "captured-var-assign-only" => vec![format!("var x = {v0}"), "let lf = () -> {".into(), format!("  x {op} {rhs}"), "}".into(), "lf()".into(), "println(x)".into()],
            "struct-field" => {
                items = "type Bx = {\n  v: int\n}\n".into();
                vec![format!("let s = Bx({v0})"), format!("s.v {op} {rhs}"), "println(s.v)".into()]
            }
            "array-element" => vec![format!("let a = [{v0}, 20]"), format!("a[0] {op} {rhs}"), "println(a[0])".into()],
            "tuple-typed-var" => vec![format!("var t = ({v0}, 20)"), format!("t {op} ({rhs}, 20)"), "println(t)".into()],
            "toplevel-var-in-fn" => {
                top = format!("var gv = {v0}\n");
                items = format!("fn c20g() -> int {{\n  gv {op} {rhs}\n  gv\n}}\n");
                vec!["println(c20g())".into()]
            }
            "var-captured-by-task" => vec![
                format!("var x = {v0}"),
                "let fin: channel<int> = channel()".into(),
                "task {".into(),
                format!("  x {op} {rhs}"),
                "  fin.write(1)".into(),
                "}".into(),
                "let fw = fin.read()".into(),
                "println(x)".into(),
            ],
            _ => unreachable!(),
        };
        (items, top, s)
    }
    pub fn source(&self) -> String {
        let (items, top, stmts) = self.parts();
        let ind = |n: usize| stmts.iter().map(|l| format!("{}{l}\n", " ".repeat(n))).collect::<String>();
        let body = match POSITIONS[self.pos as usize] {
            "top-level" => ind(0),
            "fn-body" => format!("fn host() {{\n{}}}\nhost()\n", ind(2)),
            "lambda-body" => format!("let host = () -> {{\n{}}}\nhost()\n", ind(2)),
            "loop-body" => format!("for it in 1 {{\n{}}}\n", ind(2)),
            _ => format!("let done: channel<int> = channel()\ntask {{\n{}  done.write(1)\n}}\nlet dw = done.read()\n", ind(2)),
        };
        format!("{items}{top}{body}")
    }
}

pub fn all_cells() -> Vec<Cell> {
    let mut v = vec![];
    for form in 0..FORMS.len() as u8 {
        for op in 0..OPS.len() as u8 {
            for pos in 0..POSITIONS.len() as u8 {
                v.push(Cell { form, op, pos, v0: 10, rhs: 3 });
            }
        }
    }
    v
}

pub struct Table;

fn first_line(v: &FrontVerdict) -> String {
    match v {
        FrontVerdict::Diag(d) => norm_msg(d.lines().find(|l| !l.trim().is_empty()).unwrap_or("")),
        other => format!("{other:?}").chars().take(100).collect(),
    }
}

impl Prop for Table {
    type Case = Cell;
    fn name(&self) -> &'static str {
        "table"
    }
    fn rule(&self) -> &'static str {
        "one case = a cell of (binding form x assignment operator x position of the whole snippet) with an initial value and a right-hand side; fixed layer = the complete table of 17 forms x 6 operators x 5 positions with values (10, 3); random layer = the same cells with other values; oracle by form: let / destructured let / captured by a lambda => diagnostics from check and compile; var / destructured var / struct field / array element => accepted and the new value is printed; any other form => diagnostics, or accepted with the plain effect; never a panic; every cell is non-trivial; distinct by (cell, values)"
    }
    fn n_cases(&self, tier: Tier) -> u32 {
        tier.pick(300, 3000)
    }
    fn exhaustive(&self, _tier: Tier) -> bool {
        true
    }
    fn strategy(&self, _tier: Tier, _f: &Findings) -> BoxedStrategy<Self::Case> {
        (0u8..FORMS.len() as u8, 0u8..OPS.len() as u8, 0u8..POSITIONS.len() as u8, 1i64..100, 1i64..10).prop_map(|(form, op, pos, v0, rhs)| Cell { form, op, pos, v0, rhs }).boxed()
    }
    fn fixed_cases(&self, _tier: Tier, _f: &Findings) -> Vec<Self::Case> {
        all_cells()
    }
    fn judge(&self, c: &Self::Case, env: &mut Env) -> Verdict {
        let c = c.clone().normalise();
        let src = c.source();
        let exp = c.expect();
        let mut st = CaseStats::one();
        st.nt(&c);
        let (form, op, pos) = (FORMS[c.form as usize], OPS[c.op as usize], POSITIONS[c.pos as usize]);
        st.label(format!("form:{form}"));
        st.label(format!("pos:{pos}"));
        let feats = vec![format!("form:{form}"), format!("op:{op}"), format!("pos:{pos}")];
        let fail = |f: Failure, extra: serde_json::Value| Verdict::Fail(f.feats(feats.clone()).detail(json!({"src": src, "cell": c, "expect": format!("{exp:?}"), "observed": extra})));
        let (chk, cmp) = try_exec!(env.front(&single(src.clone()), "main.abra", true, true));
        for (which, v) in [("check", &chk), ("compile", &cmp)] {
            if let FrontVerdict::Panic(p) = v {
                return fail(Failure::new("HostPanic", norm_msg(&p.msg)).feat(format!("file:{}", base(&p.file))).feat(format!("phase:{which}")), json!({"panic": p}));
            }
        }
        let accepted = chk.is_ok() && cmp.is_ok();
        let rejected = chk.is_diag() && cmp.is_diag();
        if !accepted && !rejected {
            return fail(Failure::new("VerdictMismatch", format!("check and compile disagree on an assignment to a {form}: check={} compile={}", first_line(&chk), first_line(&cmp))), json!(null));
        }
        st.label(if accepted { "verdict:accepted" } else { "verdict:rejected" });
        match (&exp, accepted) {
            (Expect::Reject, true) => return fail(Failure::new("VerdictMismatch", format!("assignment `{op}` to a {form} ({pos}) is accepted; the property demands a diagnostic")), json!(null)),
            (Expect::Accept(_), false) => return fail(Failure::new("VerdictMismatch", format!("assignment `{op}` to a {form} ({pos}) is rejected: {}", first_line(&chk))), json!({"diagnostics": format!("{chk:?}")})),
            _ => {}
        }
        if accepted {
            let r = try_exec!(env.run1(&src, &RunOpts::default()));
            if let Some(f) = crash_failure(&r) {
                return fail(f, json!(null));
            }
            if !matches!(r.end, RunEnd::Done) {
                return fail(Failure::new("OutcomeMismatch", format!("accepted assignment to a {form} does not run to completion: {}", format!("{:?}", r.end).chars().take(120).collect::<String>())), json!({"stdout": r.stdout}));
            }
            match &exp {
                Expect::Accept(out) | Expect::Either(out) => {
                    if &r.stdout != out {
                        return fail(Failure::new("OutcomeMismatch", format!("assignment `{op}` to a {form} ({pos}): expected output {out:?} got {:?}", r.stdout)), json!({"stdout": r.stdout}));
                    }
                }
                _ => {}
            }
            st.sample = Some(json!({"src": src, "verdict": "accepted", "stdout": r.stdout}));
        } else {
            st.sample = Some(json!({"src": src, "verdict": "rejected", "diagnostic": first_line(&chk)}));
        }
        Verdict::Pass(st)
    }
}

pub fn run(ctx: &mut Ctx) {
    ctx.assume("`let (a, b) = ..` is a let binding and `var (a, b) = ..` a var binding; a variable is captured when the assignment sits in a lambda body and the declaration outside it");
    ctx.assume("binding forms the property does not name (loop variable, parameters, match and or-pattern bindings, a top-level var named inside a fn, a var captured by a task) may be rejected, or accepted with the plain effect (for the task: on its own copy)");
    ctx.assume("compound assignment to a tuple-typed var is ill-typed; only crash-freedom is demanded of it");
    ctx.prop(&crate::g::srccase::SrcProp { name: "program" });
    ctx.prop(&Table);
}
