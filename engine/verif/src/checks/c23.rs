//! C23 — `?` and `!` follow option/result semantics.

use crate::checks::c19::BiasedDifferential;
use crate::harness::*;

pub fn run(ctx: &mut Ctx) {
    ctx.assume("reference: e? yields the payload or returns none from the enclosing function at once; e! yields the payload or stops with a panic runtime error");
    ctx.prop(&crate::g::srccase::SrcProp { name: "program" });
    ctx.prop(&BiasedDifferential {
        name: "try_unwrap_differential",
        bias: 2,
        rule: "one case = a generated program biased towards option-returning functions using `?` in operand, argument, index and condition positions and `!` everywhere, with printed traces around them; outcome (output, final value, error kind) must equal the reference interpreter; non-trivial = a `?` applied to none at least once (early return taken), or both a successful `?` and a successful `!`; distinct by program text",
        quick: 6000,
        thorough: 80000,
    });
}
