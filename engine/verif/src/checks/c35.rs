//! C35 — go-to-definition and hover agree with the compiler.
//! Generated programs with nested scopes and shadowing are printed with a recorder that knows, for
//! every identifier occurrence, which declaration the scope model resolves it to (the same model the
//! reference interpreter uses and C02 validates behaviourally) and its declared type.

use crate::checks::c02::{ProgCase, tape_strategy};
use crate::g::prog::*;
use crate::g::progen::*;
use crate::harness::*;
use crate::proto::*;
use proptest::prelude::*;
use serde_json::json;

fn lsp_ty(p: &Prog, t: &T) -> Option<String> {
    Some(match t {
        T::Int => "int".into(),
        T::Bool => "bool".into(),
        T::Str => "string".into(),
        T::Void => "void".into(),
        T::Tup(ts) => format!("({})", ts.iter().map(|t| lsp_ty(p, t)).collect::<Option<Vec<_>>>()?.join(", ")),
        T::Arr(t) => format!("array<{}>", lsp_ty(p, t)?),
        T::Opt(t) => format!("option<{}>", lsp_ty(p, t)?),
        T::St(i) => p.structs[*i].name.clone(),
        T::En(i) => p.enums[*i].name.clone(),
        T::Fun(args, ret) => format!("fn({}) -> {}", args.iter().map(|t| lsp_ty(p, t)).collect::<Option<Vec<_>>>()?.join(", "), lsp_ty(p, ret)?),
    })
}

pub struct DefinitionAndHover;

impl Prop for DefinitionAndHover {
    type Case = ProgCase;
    fn name(&self) -> &'static str {
        "definition_and_hover"
    }
    fn rule(&self) -> &'static str {
        "one case = a generated program (non-ASCII string literals included) with nested scopes, shadowing, loop variables, match bindings, lambda and function parameters; for EVERY identifier occurrence the printer emitted (variables, assignment targets, lambda calls, function calls) definition_at must return exactly the byte range of the declaring occurrence the scope model resolves to (same name, innermost binding), and type_at on occurrences whose declared type is known must print that type (int, bool, string, void, tuples, array<T>, option<T>, struct/enum names, fn(..) -> ..); non-trivial = at least one queried identifier has >= 2 same-named declarations in enclosing scopes; distinct by program text"
    }
    fn n_cases(&self, tier: Tier) -> u32 {
        tier.pick(2500, 40000)
    }
    fn strategy(&self, tier: Tier, _f: &Findings) -> BoxedStrategy<Self::Case> {
        let mut fl = Flags::core(tier.pick(12, 22), 3);
        fl.bias = 3;
        tape_strategy(tier.pick(400, 800)).prop_map(move |tape| ProgCase { tape, flags: fl.clone() }).boxed()
    }
    fn judge(&self, c: &Self::Case, env: &mut Env) -> Verdict {
        let prog = generate(&c.tape, &c.flags);
        let (src, uses) = print_prog_rec(&prog, true);
        let mut st = CaseStats::one();
        if uses.is_empty() {
            st.discarded = 1;
            return Verdict::Pass(st);
        }
        let points: Vec<(String, usize)> = uses.iter().map(|u| ("main.abra".to_string(), u.offset)).collect();
        let r = match env.lsp(&single(src.clone()), "main.abra", false, points, true) {
            Exec::Ok(r) => r,
            Exec::Abort(f) => return Verdict::Fail(f.detail(json!({"src": src}))),
            Exec::Inconclusive(s) => return Verdict::Inconclusive(s),
        };
        if let Some(p) = &r.analysis_panic {
            return Verdict::Fail(Failure::new("HostPanic", norm_msg(&p.msg)).feat(format!("file:{}", base(&p.file))).detail(json!({"src": src, "panic": p})));
        }
        if let Some((_, off, kind, p)) = &r.query_panic {
            return Verdict::Fail(Failure::new("HostPanic", norm_msg(&p.msg)).feat(format!("file:{}", base(&p.file))).feat(format!("lsp:{kind}")).detail(json!({"src": src, "offset": off, "panic": p})));
        }
        if !r.diags.is_empty() {
            // the program is supposed to be valid; C02 reports generator/compiler disagreements
            st.discarded = 1;
            return Verdict::Pass(st);
        }
        if r.answers.len() != uses.len() {
            return Verdict::Inconclusive("lsp answered fewer points than asked".into());
        }
        st.evals = uses.len() as u64;
        let mut shadowed = false;
        let (mut hover_checked, mut hover_skipped) = (0u64, 0u64);
        for (u, a) in uses.iter().zip(r.answers.iter()) {
            let ctx = |what: &str| {
                let line = src[..u.offset].matches('\n').count() + 1;
                format!("{what} for `{}` at offset {} (line {line})", u.name, u.offset)
            };
            match &a.definition {
                Some((file, s, e)) if file == "main.abra" && (*s, *e) == u.decl => {}
                other => {
                    let got_text = other.as_ref().and_then(|(_, s, e)| src.get(*s..*e)).unwrap_or("");
                    return Verdict::Fail(
                        Failure::new("ModelMismatch", ctx(&format!("go-to-definition returns {:?} ({got_text:?}), the innermost visible declaration is at {:?}", other, u.decl)))
                            .feat(if u.visible_same_name >= 2 { "shadowed" } else { "unshadowed" })
                            .detail(json!({"src": src, "use": u, "answer": a})),
                    );
                }
            }
            if u.visible_same_name >= 2 {
                shadowed = true;
            }
            match u.ty.as_ref().and_then(|t| lsp_ty(&prog, t)) {
                Some(want) => {
                    hover_checked += 1;
                    if a.ty.as_deref() != Some(want.as_str()) {
                        return Verdict::Fail(Failure::new("ModelMismatch", ctx(&format!("hover reports {:?}, the declared type is {want}", a.ty))).feat("hover").detail(json!({"src": src, "use": u, "answer": a})));
                    }
                }
                None => hover_skipped += 1,
            }
        }
        st.labels.push(("hover-checked".into(), hover_checked));
        st.labels.push(("hover-skipped-unknown-type".into(), hover_skipped));
        if shadowed {
            st.nt(&src);
            let u = uses.iter().find(|u| u.visible_same_name >= 2).unwrap();
            st.sample = Some(json!({"src": src, "example_query": u, "queries": uses.len()}));
        }
        Verdict::Pass(st)
    }
}

pub fn run(ctx: &mut Ctx) {
    ctx.assume("the expected declaration of every occurrence comes from the generator's scope model (innermost binding), which the differential check C02 validates behaviourally on the same programs");
    ctx.assume("hover is compared only where the generator knows the declared type (let/var, parameters, loop counters, functions); pattern bindings are checked for go-to-definition only");
    ctx.prop(&DefinitionAndHover);
}
