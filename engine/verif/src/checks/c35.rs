//! C35 — go-to-definition and hover agree with the compiler.
//! Generated programs with nested scopes and shadowing are printed with a recorder that knows, for
//! every identifier occurrence, which declaration the scope model resolves it to (the same model the
//! reference interpreter uses and C02 validates behaviourally) and its declared type.

use crate::checks::c02::{ProgCase, tape_strategy};
use crate::g::prog::*;
use crate::g::progen::*;
use crate::harness::*;
use crate::proto::*;
use proptest::prelude::*;
use serde::{Deserialize, Serialize};
use serde_json::json;

fn lsp_ty(p: &Prog, t: &T) -> Option<String> {
    Some(match t {
        T::Int => "int".into(),
        T::Bool => "bool".into(),
        T::Str => "string".into(),
        T::Void => "void".into(),
        T::Tup(ts) => format!("({})", ts.iter().map(|t| lsp_ty(p, t)).collect::<Option<Vec<_>>>()?.join(", ")),
        T::Arr(t) => format!("array<{}>", lsp_ty(p, t)?),
        T::Opt(t) => format!("option<{}>", lsp_ty(p, t)?),
        T::St(i) => p.structs[*i].name.clone(),
        T::En(i) => p.enums[*i].name.clone(),
        T::Fun(args, ret) => format!("fn({}) -> {}", args.iter().map(|t| lsp_ty(p, t)).collect::<Option<Vec<_>>>()?.join(", "), lsp_ty(p, ret)?),
    })
}

pub struct DefinitionAndHover;

impl Prop for DefinitionAndHover {
    type Case = ProgCase;
    fn name(&self) -> &'static str {
        "definition_and_hover"
    }
    fn rule(&self) -> &'static str {
        "one case = a generated program (non-ASCII string literals included) with nested scopes, shadowing, loop variables, match bindings, lambda and function parameters; for EVERY identifier occurrence the printer emitted (variables, assignment targets, lambda calls, function calls) definition_at must return exactly the byte range of the declaring occurrence the scope model resolves to (same name, innermost binding), and type_at on occurrences whose declared type is known must print that type (int, bool, string, void, tuples, array<T>, option<T>, struct/enum names, fn(..) -> ..); non-trivial = at least one queried identifier has >= 2 same-named declarations in enclosing scopes; distinct by program text"
    }
    fn n_cases(&self, tier: Tier) -> u32 {
        tier.pick(2500, 40000)
    }
    fn strategy(&self, tier: Tier, _f: &Findings) -> BoxedStrategy<Self::Case> {
        let mut fl = Flags::core(tier.pick(12, 22), 3);
        fl.bias = 3;
        tape_strategy(tier.pick(400, 800)).prop_map(move |tape| ProgCase { tape, flags: fl.clone() }).boxed()
    }
    fn judge(&self, c: &Self::Case, env: &mut Env) -> Verdict {
        let prog = generate(&c.tape, &c.flags);
        let (src, uses) = print_prog_rec(&prog, true);
        let mut st = CaseStats::one();
        if uses.is_empty() {
            st.discarded = 1;
            return Verdict::Pass(st);
        }
        let points: Vec<(String, usize)> = uses.iter().map(|u| ("main.abra".to_string(), u.offset)).collect();
        let r = match env.lsp(&single(src.clone()), "main.abra", false, points, true) {
            Exec::Ok(r) => r,
            Exec::Abort(f) => return Verdict::Fail(f.detail(json!({"src": src}))),
            Exec::Inconclusive(s) => return Verdict::Inconclusive(s),
        };
        if let Some(p) = &r.analysis_panic {
            return Verdict::Fail(Failure::new("HostPanic", norm_msg(&p.msg)).feat(format!("file:{}", base(&p.file))).detail(json!({"src": src, "panic": p})));
        }
        if let Some((_, off, kind, p)) = &r.query_panic {
            return Verdict::Fail(Failure::new("HostPanic", norm_msg(&p.msg)).feat(format!("file:{}", base(&p.file))).feat(format!("lsp:{kind}")).detail(json!({"src": src, "offset": off, "panic": p})));
        }
        if !r.diags.is_empty() {
            // the program is supposed to be valid; C02 reports generator/compiler disagreements
            st.discarded = 1;
            return Verdict::Pass(st);
        }
        if r.answers.len() != uses.len() {
            return Verdict::Inconclusive("lsp answered fewer points than asked".into());
        }
        st.evals = uses.len() as u64;
        let mut shadowed = false;
        let (mut hover_checked, mut hover_skipped) = (0u64, 0u64);
        for (u, a) in uses.iter().zip(r.answers.iter()) {
            let ctx = |what: &str| {
                let line = src[..u.offset].matches('\n').count() + 1;
                format!("{what} for `{}` at offset {} (line {line})", u.name, u.offset)
            };
            match &a.definition {
                Some((file, s, e)) if file == "main.abra" && (*s, *e) == u.decl => {}
                other => {
                    let got_text = other.as_ref().and_then(|(_, s, e)| src.get(*s..*e)).unwrap_or("");
                    return Verdict::Fail(
                        Failure::new("ModelMismatch", ctx(&format!("go-to-definition returns {:?} ({got_text:?}), the innermost visible declaration is at {:?}", other, u.decl)))
                            .feat(if u.visible_same_name >= 2 { "shadowed" } else { "unshadowed" })
                            .detail(json!({"src": src, "use": u, "answer": a})),
                    );
                }
            }
            if u.visible_same_name >= 2 {
                shadowed = true;
            }
            match u.ty.as_ref().and_then(|t| lsp_ty(&prog, t)) {
                Some(want) => {
                    hover_checked += 1;
                    if a.ty.as_deref() != Some(want.as_str()) {
                        return Verdict::Fail(Failure::new("ModelMismatch", ctx(&format!("hover reports {:?}, the declared type is {want}", a.ty))).feat("hover").detail(json!({"src": src, "use": u, "answer": a})));
                    }
                }
                None => hover_skipped += 1,
            }
        }
        st.labels.push(("hover-checked".into(), hover_checked));
        st.labels.push(("hover-skipped-unknown-type".into(), hover_skipped));
        if shadowed {
            st.nt(&src);
            let u = uses.iter().find(|u| u.visible_same_name >= 2).unwrap();
            st.sample = Some(json!({"src": src, "example_query": u, "queries": uses.len()}));
        }
        Verdict::Pass(st)
    }
}


/// Signature scopes: default values of parameters are resolved in the scope AROUND the function
/// (they are evaluated at the call site), never against the function's own parameters.
#[derive(Clone, Debug, Serialize, Deserialize)]
pub struct SigCase {
    /// file-level functions: (name index, value)
    pub globals: Vec<(u8, i8)>,
    /// parameters: (name index, default kind, referenced global, constant)
    pub params: Vec<(u8, u8, u8, i8)>,
    /// index of the first parameter that has a default value
    pub first_default: u8,
    pub non_ascii: bool,
    pub method: bool,
}

const SIG_NAMES: [&str; 6] = ["scale", "base", "width", "k", "n", "step"];

struct SigUse {
    name: String,
    offset: usize,
    decl: (usize, usize),
    ty: &'static str,
    in_default: bool,
    shadow: bool,
}

fn build_sig(c: &SigCase) -> (String, Vec<SigUse>) {
    let mut src = String::new();
    let mut uses = vec![];
    if c.non_ascii {
        src.push_str("// défauts 日本語 😀\n");
    }
    let mut gl: Vec<(usize, (usize, usize))> = vec![];
    for (n, v) in &c.globals {
        let n = *n as usize % SIG_NAMES.len();
        if gl.iter().any(|g| g.0 == n) {
            continue;
        }
        src.push_str("fn ");
        let s = src.len();
        src.push_str(SIG_NAMES[n]);
        gl.push((n, (s, src.len())));
        src.push_str(&format!("() -> int = {}\n", *v as i64 + 200));
    }
    let mut ps: Vec<usize> = vec![];
    let mut params = vec![];
    for p in &c.params {
        let n = p.0 as usize % SIG_NAMES.len();
        if ps.contains(&n) {
            continue;
        }
        ps.push(n);
        params.push((n, p.1, p.2, p.3));
    }
    src.push_str("fn sig_id(a: int) -> int = a\nfn sig_add(a: int, b: int) -> int = a + b\n");
    if c.method {
        src.push_str("type Holder = {\n  v: int\n}\nextend Holder {\n  fn sig_f(self");
    } else {
        src.push_str("fn sig_f(");
    }
    let fd = c.first_default as usize % (params.len() + 1);
    let mut pdecl: Vec<(usize, (usize, usize))> = vec![];
    let mut pending = vec![];
    for (i, (n, kind, g, k)) in params.iter().enumerate() {
        if i > 0 || c.method {
            src.push_str(", ");
        }
        let s = src.len();
        src.push_str(SIG_NAMES[*n]);
        pdecl.push((*n, (s, src.len())));
        src.push_str(": int");
        if i >= fd {
            src.push_str(" = ");
            if gl.is_empty() || kind % 4 == 0 {
                src.push_str(&format!("{}", *k as i64 + 300));
            } else {
                // operators are avoided on purpose: HEAD rejects `g() + 1` in a default value ("Interface `Num` is not
                // implemented for type `int`"), which is outside this property; helper calls nest instead
                let refs = if kind % 4 == 3 && gl.len() > 1 { vec![*g as usize % gl.len(), (*g as usize + 1) % gl.len()] } else { vec![*g as usize % gl.len()] };
                src.push_str(if refs.len() == 2 { "sig_add(" } else if kind % 4 == 2 { "sig_id(" } else { "" });
                for (j, r) in refs.iter().enumerate() {
                    if j > 0 {
                        src.push_str(", ");
                    }
                    pending.push((src.len(), gl[*r].0, gl[*r].1));
                    src.push_str(SIG_NAMES[gl[*r].0]);
                    src.push_str("()");
                }
                src.push_str(if refs.len() == 2 || kind % 4 == 2 { ")" } else { "" });
            }
        }
    }
    for (off, n, decl) in pending {
        uses.push(SigUse { name: SIG_NAMES[n].into(), offset: off, decl, ty: "fn() -> int", in_default: true, shadow: pdecl.iter().any(|p| p.0 == n) });
    }
    src.push_str(") -> int {\n    0");
    for (n, decl) in &pdecl {
        src.push_str(" + ");
        uses.push(SigUse { name: SIG_NAMES[*n].into(), offset: src.len(), decl: *decl, ty: "int", in_default: false, shadow: gl.iter().any(|g| g.0 == *n) });
        src.push_str(SIG_NAMES[*n]);
    }
    src.push_str("\n}\n");
    if c.method {
        src.push_str("}\nlet sig_h = Holder(1)\n");
    }
    // body of a later function: the globals are visible again
    src.push_str("fn sig_after() -> int {\n    0");
    for (n, decl) in &gl {
        src.push_str(" + ");
        uses.push(SigUse { name: SIG_NAMES[*n].into(), offset: src.len(), decl: *decl, ty: "fn() -> int", in_default: false, shadow: false });
        src.push_str(SIG_NAMES[*n]);
        src.push_str("()");
    }
    src.push_str("\n}\n");
    let call = |nargs: usize| {
        let args = (0..nargs).map(|i| format!("{}", i + 1)).collect::<Vec<_>>().join(", ");
        if c.method { format!("println(sig_h.sig_f({args}))\n") } else { format!("println(sig_f({args}))\n") }
    };
    src.push_str(&call(fd));
    src.push_str(&call(params.len()));
    src.push_str("println(sig_after())\n");
    (src, uses)
}

pub struct SignatureScopes;

impl Prop for SignatureScopes {
    type Case = SigCase;
    fn name(&self) -> &'static str {
        "signature_scopes"
    }
    fn rule(&self) -> &'static str {
        "one case = a program with 1-3 file-level functions and a function or method whose 1-4 parameters are named from the same six-name pool, with default values (constants, `g()`, `sig_id(g())`, `sig_add(g(), h())`) that mention file-level functions which may share a name with an EARLIER or LATER parameter of the same signature; every identifier in a default value must go to the file-level declaration (defaults are evaluated at the call site, outside the parameter scope) and hover must say fn() -> int, every parameter use in the body must go to the parameter (hover int), and the same names in a later function body go to the file-level declarations again; non-trivial = a default value mentions a name that is also a parameter of the same signature; distinct by program text"
    }
    fn n_cases(&self, tier: Tier) -> u32 {
        tier.pick(1500, 20000)
    }
    fn strategy(&self, _tier: Tier, _f: &Findings) -> BoxedStrategy<Self::Case> {
        (proptest::collection::vec((0u8..6, any::<i8>()), 1..=3), proptest::collection::vec((0u8..6, 0u8..4, 0u8..3, any::<i8>()), 1..=4), 0u8..5, any::<bool>(), any::<bool>())
            .prop_map(|(globals, params, first_default, non_ascii, method)| SigCase { globals, params, first_default, non_ascii, method })
            .boxed()
    }
    fn judge(&self, c: &Self::Case, env: &mut Env) -> Verdict {
        let (src, uses) = build_sig(c);
        let mut st = CaseStats::one();
        let points: Vec<(String, usize)> = uses.iter().map(|u| ("main.abra".to_string(), u.offset)).collect();
        let r = match env.lsp(&single(src.clone()), "main.abra", false, points, true) {
            Exec::Ok(r) => r,
            Exec::Abort(f) => return Verdict::Fail(f.detail(json!({"src": src}))),
            Exec::Inconclusive(s) => return Verdict::Inconclusive(s),
        };
        if let Some(p) = &r.analysis_panic {
            return Verdict::Fail(Failure::new("HostPanic", norm_msg(&p.msg)).feat(format!("file:{}", base(&p.file))).detail(json!({"src": src, "panic": p})));
        }
        if let Some((_, off, kind, p)) = &r.query_panic {
            return Verdict::Fail(Failure::new("HostPanic", norm_msg(&p.msg)).feat(format!("file:{}", base(&p.file))).feat(format!("lsp:{kind}")).detail(json!({"src": src, "offset": off, "panic": p})));
        }
        if r.answers.len() != uses.len() {
            return Verdict::Inconclusive("lsp answered fewer points than asked".into());
        }
        st.evals = uses.len() as u64;
        // a rejected program still has a resolution for every name; hover is compared only when the program checks
        let accepted = r.diags.is_empty();
        st.labels.push((if accepted { "accepted".into() } else { "rejected-by-checker".into() }, 1));
        let mut nt = false;
        for (u, a) in uses.iter().zip(r.answers.iter()) {
            let place = if u.in_default { "default value" } else { "function body" };
            match &a.definition {
                Some((file, s, e)) if file == "main.abra" && (*s, *e) == u.decl => {}
                other => {
                    return Verdict::Fail(
                        Failure::new("ModelMismatch", format!("go-to-definition for `{}` in a {place} at offset {} returns {:?}, the declaration in scope there is at {:?}", u.name, u.offset, other, u.decl))
                            .feat(if u.in_default { "default-value" } else { "body" })
                            .feat(if u.shadow { "shadowed" } else { "unshadowed" })
                            .detail(json!({"src": src, "offset": u.offset, "answer": a})),
                    );
                }
            }
            if accepted && a.ty.as_deref() != Some(u.ty) {
                return Verdict::Fail(Failure::new("ModelMismatch", format!("hover for `{}` in a {place} at offset {} reports {:?}, the type is {}", u.name, u.offset, a.ty, u.ty)).feat("hover").detail(json!({"src": src, "offset": u.offset, "answer": a})));
            }
            if u.in_default && u.shadow {
                nt = true;
            }
        }
        if nt {
            st.nt(&src);
            st.sample = Some(json!({"src": src, "queries": uses.len()}));
        }
        Verdict::Pass(st)
    }
}

pub fn run(ctx: &mut Ctx) {
    ctx.assume("the expected declaration of every occurrence comes from the generator's scope model (innermost binding), which the differential check C02 validates behaviourally on the same programs");
    ctx.assume("hover is compared only where the generator knows the declared type (let/var, parameters, loop counters, functions); pattern bindings are checked for go-to-definition only");
    ctx.prop(&DefinitionAndHover);
    ctx.assume("signature_scopes: parameter default values are resolved outside the parameter scope (resolve_names_func_helper resolves them before registering any parameter; the translator evaluates them at the call site)");
    ctx.prop(&SignatureScopes);
}
