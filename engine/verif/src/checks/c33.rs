//! C33 — diagnostics point at the offending source text.

use crate::checks::c02::tape_strategy;
use crate::g::prog::print_prog;
use crate::g::progen::{Flags, generate};
use crate::harness::*;
use crate::proto::*;
use proptest::prelude::*;
use serde::{Deserialize, Serialize};
use serde_json::json;

#[derive(Clone, Debug, Serialize, Deserialize)]
pub struct DiagCase {
    pub tape: Vec<u16>,
    /// which error to inject (index into KINDS)
    pub kind: u8,
    /// where (fraction of the candidate insertion points)
    pub at: u16,
    pub non_ascii: bool,
    /// 0 = single file; 1 = also imports a file with non-ASCII text; 2 = also imports a very short file
    #[serde(default)]
    pub helper: u8,
}

const HELPERS: [&str; 2] = ["// ── hjälpfunktioner: größer, naïve, 日本語のコメント ──\nfn zz_helper_fn() -> int = 1\n", "fn zz_h() -> int = 1\n"];

fn helper_text(c: &DiagCase) -> Option<&'static str> {
    match c.helper % 3 {
        0 => None,
        k => Some(HELPERS[k as usize - 1]),
    }
}

struct Injection {
    text: &'static str,
    /// substring identifying the diagnostic this injection must produce (None = only generic predicates)
    message: Option<&'static str>,
    /// exact text the primary range must cover
    exact: Option<&'static str>,
    /// text the primary range must start with
    starts_with: Option<&'static str>,
    /// the range must lie inside this part of the injected text
    within: Option<&'static str>,
    at_end_of_file: bool,
}

const KINDS: [Injection; 12] = [
    Injection { text: "let inj_q0 = zz_undefined + 1\n", message: Some("Could not resolve identifier"), exact: Some("zz_undefined"), starts_with: None, within: None, at_end_of_file: false },
    Injection { text: "let inj_q1 = 1\ninj_q1 = 2\n", message: Some("Can't modify immutable variable"), exact: Some("inj_q1"), starts_with: None, within: Some("inj_q1 = 2"), at_end_of_file: false },
    Injection { text: "break\n", message: Some("must be in a loop"), exact: Some("break"), starts_with: None, within: None, at_end_of_file: false },
    Injection { text: "let inj_q3 = match true {\n  true -> 1\n}\n", message: Some("doesn't cover every case"), exact: None, starts_with: Some("match"), within: None, at_end_of_file: false },
    Injection { text: "let inj_q4 = match 7 {\n  _ -> 1\n  _ -> 2\n}\n", message: Some("redundant"), exact: None, starts_with: Some("match"), within: None, at_end_of_file: false },
    Injection { text: "let inj_q5 = 1 @ 2\n", message: Some("Unrecognized token"), exact: Some("@"), starts_with: None, within: None, at_end_of_file: false },
    Injection { text: "fn inj_f6(a: int) -> int {\n  a\n}\nlet inj_q6 = inj_f6(zz_named = 1)\n", message: Some("Could not resolve identifier"), exact: Some("zz_named"), starts_with: None, within: None, at_end_of_file: false },
    Injection { text: "let inj_q7: int = \"str\"\n", message: None, exact: None, starts_with: None, within: None, at_end_of_file: false },
    Injection { text: "fn inj_f8(a: int, b: int) -> int {\n  a + b\n}\nlet inj_q8 = inj_f8(1)\n", message: None, exact: None, starts_with: None, within: None, at_end_of_file: false },
    Injection { text: "let inj_q9 = \"a\\qb\"\n", message: Some("Unrecognized escape sequence"), exact: None, starts_with: None, within: Some("\"a\\qb\""), at_end_of_file: false },
    Injection { text: "let inj_q10 = (1 +", message: None, exact: None, starts_with: None, within: None, at_end_of_file: true },
    Injection { text: "let inj_q11 = \"caf\\é and \\日\"\n", message: Some("Unrecognized escape sequence"), exact: None, starts_with: None, within: Some("\"caf\\é and \\日\""), at_end_of_file: false },
];

/// (source, byte offset where the injected text starts)
fn build(c: &DiagCase) -> (String, usize) {
    let fl = Flags::core(8, 3);
    let base = print_prog(&generate(&c.tape, &fl));
    let inj = &KINDS[c.kind as usize % KINDS.len()];
    let mut src = String::new();
    if helper_text(c).is_some() {
        src.push_str("use zz_helper\n");
    }
    if c.non_ascii {
        src.push_str("// héllo 日本語 😀 ✓ — non-ASCII before everything\nlet inj_s = \"日本 é 😀\"\n");
    }
    if inj.at_end_of_file {
        src.push_str(&base);
        if !src.ends_with('\n') {
            src.push('\n');
        }
        let at = src.len();
        src.push_str(inj.text);
        return (src, at);
    }
    // candidate insertion points: starts of top-level lines that begin a statement or declaration
    let mut points = vec![0usize];
    let mut off = 0;
    let mut depth = 0i64;
    for line in base.split_inclusive('\n') {
        if depth == 0 && line.chars().next().map(|ch| ch.is_ascii_alphabetic()).unwrap_or(false) {
            points.push(off);
        }
        for ch in line.chars() {
            match ch {
                '{' | '(' | '[' => depth += 1,
                '}' | ')' | ']' => depth -= 1,
                _ => {}
            }
        }
        off += line.len();
    }
    points.push(base.len());
    points.sort();
    points.dedup();
    let p = points[pick_idx(c.at, points.len())];
    let prefix_len = src.len();
    src.push_str(&base[..p]);
    let at = prefix_len + p;
    src.push_str(inj.text);
    src.push_str(&base[p..]);
    (src, at)
}

pub struct DiagnosticRanges;

impl Prop for DiagnosticRanges {
    type Case = DiagCase;
    fn name(&self) -> &'static str {
        "diagnostic_ranges"
    }
    fn rule(&self) -> &'static str {
        "one case = a valid generated program with one injected error of 12 classes (unresolved identifier, assignment to let, break outside a loop, non-exhaustive match, redundant arm, unrecognized token, unknown named argument, type conflict, missing argument, bad escape sequence, bad escape of a multi-byte character, unexpected end of file) at a generated top-level position, optionally preceded by non-ASCII comment and string text, and in two thirds of the cases in a two-file program whose imported file (lexed after main) contains non-ASCII text or is shorter than the error's offset; every diagnostic from check_lsp().errors() must name a loaded file, lie within that file, have start <= end and sit on char boundaries; for the unambiguous classes the primary range must be exactly the identifier / token / keyword, start at `match`, or lie inside the offending string literal; non-trivial = multi-byte characters precede the error site; distinct by (program, injection)"
    }
    fn n_cases(&self, tier: Tier) -> u32 {
        tier.pick(3000, 50000)
    }
    fn strategy(&self, _tier: Tier, _f: &Findings) -> BoxedStrategy<Self::Case> {
        (tape_strategy(250), 0u8..KINDS.len() as u8, any::<u16>(), any::<bool>(), 0u8..3).prop_map(|(tape, kind, at, non_ascii, helper)| DiagCase { tape, kind, at, non_ascii, helper }).boxed()
    }
    fn fixed_cases(&self, _tier: Tier, _f: &Findings) -> Vec<Self::Case> {
        let mut v = vec![];
        for k in 0..KINDS.len() as u8 {
            for na in [false, true] {
                v.push(DiagCase { tape: vec![], kind: k, at: 40000, non_ascii: na, helper: 0 });
                v.push(DiagCase { tape: vec![30000; 60], kind: k, at: 65535, non_ascii: na, helper: 1 + (k % 2) });
                v.push(DiagCase { tape: vec![30000; 60], kind: k, at: 65535, non_ascii: na, helper: 0 });
            }
        }
        v
    }
    fn judge(&self, c: &Self::Case, env: &mut Env) -> Verdict {
        let (src, inj_at) = build(c);
        let inj = &KINDS[c.kind as usize % KINDS.len()];
        let mut files = single(src.clone());
        if let Some(h) = helper_text(c) {
            files.push(SrcFile { path: "zz_helper.abra".into(), text: h.into() });
        }
        let r = match env.lsp(&files, "main.abra", false, vec![], false) {
            Exec::Ok(r) => r,
            Exec::Abort(f) => return Verdict::Fail(f.detail(json!({"src": src}))),
            Exec::Inconclusive(s) => return Verdict::Inconclusive(s),
        };
        let mut st = CaseStats::one();
        st.label(format!("inject:{}", c.kind as usize % KINDS.len()));
        st.label(format!("imported-file:{}", ["none", "non-ascii", "short"][c.helper as usize % 3]));
        if let Some(p) = &r.analysis_panic {
            // crash-freedom of the analysis is C34's subject; report it here too, it hides the diagnostics
            return Verdict::Fail(Failure::new("HostPanic", norm_msg(&p.msg)).feat(format!("file:{}", base(&p.file))).detail(json!({"src": src, "panic": p})));
        }
        if r.diags.is_empty() {
            return Verdict::Fail(Failure::new("VerdictMismatch", format!("injected error {} produced no diagnostic", c.kind)).detail(json!({"src": src})));
        }
        st.evals = r.diags.len() as u64;
        let feat = |f: Failure| f.feat(format!("inject:{}", c.kind as usize % KINDS.len())).feat(if c.non_ascii { "non-ascii" } else { "ascii" });
        for d in &r.diags {
            let text: &str = match d.file.as_str() {
                "main.abra" => &src,
                "prelude.abra" => abra_core::PRELUDE,
                "zz_helper.abra" if helper_text(c).is_some() => helper_text(c).unwrap(),
                other => return Verdict::Fail(feat(Failure::new("RangeInvalid", format!("diagnostic names a file that was not loaded: {other}")).detail(json!({"src": src, "diag": d})))),
            };
            let bad = if d.start > d.end {
                Some("start > end")
            } else if d.end > text.len() {
                Some("range ends beyond the end of the file")
            } else if !text.is_char_boundary(d.start) || !text.is_char_boundary(d.end) {
                Some("range does not start/end on a character boundary")
            } else {
                None
            };
            if let Some(b) = bad {
                return Verdict::Fail(feat(Failure::new("RangeInvalid", format!("{b}: {}..{} in {} (len {}) for `{}`", d.start, d.end, d.file, text.len(), d.message)).feat(format!("predicate:{b}")).detail(json!({"src": src, "diag": d}))));
            }
        }
        if let Some(msg) = inj.message {
            let inj_end = inj_at + inj.text.len();
            let mine: Vec<&DiagOut> = r.diags.iter().filter(|d| d.message.contains(msg) && d.file == "main.abra").collect();
            let covered = |d: &&DiagOut| -> bool {
                let t = &src[d.start..d.end];
                if let Some(e) = inj.exact {
                    if t != e {
                        return false;
                    }
                }
                if let Some(s) = inj.starts_with {
                    if !t.starts_with(s) {
                        return false;
                    }
                }
                if let Some(w) = inj.within {
                    let Some(rel) = inj.text.find(w) else { return false };
                    let (a, b) = (inj_at + rel, inj_at + rel + w.len());
                    if d.start < a || d.end > b {
                        return false;
                    }
                }
                d.start >= inj_at && d.end <= inj_end
            };
            if mine.is_empty() {
                return Verdict::Fail(feat(Failure::new("VerdictMismatch", format!("no `{msg}` diagnostic for the injected error")).detail(json!({"src": src, "diags": r.diags}))));
            }
            if !mine.iter().any(covered) {
                let shown: Vec<String> = mine.iter().map(|d| format!("{}..{} = {:?}", d.start, d.end, src.get(d.start..d.end))).collect();
                return Verdict::Fail(feat(
                    Failure::new("RangeInvalid", format!("`{msg}`: the primary range does not cover the offending text (expected {:?}{:?}{:?} inside the injected lines at {inj_at}..{inj_end}); got {}", inj.exact, inj.starts_with, inj.within, shown.join("; ")))
                        .feat("predicate:covers")
                        .detail(json!({"src": src, "diags": mine})),
                ));
            }
        }
        if c.non_ascii || !src[..inj_at].is_ascii() {
            st.nt(&(src.clone(), c.kind));
            st.sample = Some(json!({"injected": inj.text, "at": inj_at, "diagnostics": r.diags.iter().take(2).collect::<Vec<_>>()}));
        }
        Verdict::Pass(st)
    }
}

pub fn run(ctx: &mut Ctx) {
    ctx.assume("'covers the construct' is asserted exactly only for classes where the construct is unambiguous; for type conflicts and arity errors (whose primary label may legitimately be either side) only the generic range predicates apply");
    ctx.prop(&DiagnosticRanges);
}
