//! C01 — accepted programs never hit an internal VM fault.
//! Validity predicate over runs of generated programs (all features on) under several budgets,
//! plus a metamorphic check that makes silent operand-stack leaks visible: the program body wrapped
//! in `for rep in K { .. }` must leave the same main-stack depth for K = 1 and K = 2 and print its
//! output exactly K times.

use crate::checks::c02::{ProgCase, tape_strategy};
use crate::g::prog::*;
use crate::g::progen::*;
use crate::harness::*;
use crate::proto::*;
use crate::try_exec;
use proptest::prelude::*;
use serde_json::json;

pub fn wrapped(p: &Prog, k: usize) -> String {
    // same declarations; main body (without its tail value) inside a counted loop
    let mut q = p.clone();
    let body = Block { stmts: q.main.stmts.clone(), tail: None };
    q.main = Block { stmts: vec![S::ForInt { var: "verif_rep".into(), n: E::Int(k as i64), body }], tail: None };
    q.final_ty = None;
    print_prog(&q)
}

pub fn documented_end(r: &RunOut) -> bool {
    matches!(r.end, RunEnd::Done | RunEnd::Cap | RunEnd::Error { kind: ErrKind::Panic(_) | ErrKind::ArrayOutOfBounds | ErrKind::IntegerOverflow | ErrKind::DivisionByZero, .. })
}

pub struct NoFault;

impl Prop for NoFault {
    type Case = ProgCase;
    fn name(&self) -> &'static str {
        "no_fault"
    }
    fn rule(&self) -> &'static str {
        "one case = a generated well-typed program with every feature enabled, run at budgets 1000, 1 and 7 and wrapped in a 1x / 2x repetition loop; it must end in Done, the step cap or one of the four documented runtime errors without any host panic, internal VM error or worker death; the 1x/2x runs must agree on main-stack depth and print the output once/twice; non-trivial = accepted, >= 30 instructions executed and >= 3 feature labels; distinct by program text"
    }
    fn n_cases(&self, tier: Tier) -> u32 {
        tier.pick(2500, 60000)
    }
    fn strategy(&self, tier: Tier, _f: &Findings) -> BoxedStrategy<Self::Case> {
        let fl = Flags::core(tier.pick(14, 28), tier.pick(3, 4));
        tape_strategy(tier.pick(450, 1000)).prop_map(move |tape| ProgCase { tape, flags: fl.clone() }).boxed()
    }
    fn judge(&self, c: &Self::Case, env: &mut Env) -> Verdict {
        let prog = generate(&c.tape, &c.flags);
        let src = print_prog(&prog);
        let mut st = CaseStats::one();
        for l in &prog.labels {
            st.label(l.clone());
        }
        let feats = || prog.labels.iter().map(|l| format!("uses:{l}")).collect::<Vec<_>>();
        let base_opts = RunOpts { max_steps: 2_000_000, ..RunOpts::default() };
        let variants = vec![Variant { budgets: vec![1000], ..Variant::sel(0) }, Variant { budgets: vec![1], ..Variant::sel(0) }, Variant { budgets: vec![7], ..Variant::sel(0) }];
        let outs = try_exec!(env.run_var(&single(src.clone()), "main.abra", &base_opts, &variants));
        let mut steps = 0;
        for (i, r) in outs.iter().enumerate() {
            if let Some(f) = crash_failure(r) {
                return Verdict::Fail(f.feats(feats()).feat(format!("budget:{}", [1000, 1, 7][i])).detail(json!({"src": src})));
            }
            if let FrontVerdict::Diag(_) = &r.compile {
                // rejected programs are outside this property (C02 reports generator/compiler disagreements)
                st.discarded = 1;
                return Verdict::Pass(st);
            }
            if !documented_end(r) {
                return Verdict::Fail(Failure::new("VmInternal", format!("undocumented end: {:?}", r.end).chars().take(200).collect::<String>()).feats(feats()).detail(json!({"src": src})));
            }
            steps = steps.max(r.steps);
        }
        // metamorphic stack-neutrality
        let (s1, s2) = (wrapped(&prog, 1), wrapped(&prog, 2));
        let r1 = try_exec!(env.run1(&s1, &base_opts));
        let r2 = try_exec!(env.run1(&s2, &base_opts));
        for (r, s) in [(&r1, &s1), (&r2, &s2)] {
            if let Some(f) = crash_failure(r) {
                return Verdict::Fail(f.feats(feats()).feat("wrapped").detail(json!({"src": s})));
            }
        }
        if matches!(r1.end, RunEnd::Done) && matches!(r2.end, RunEnd::Done) && r1.compile.is_ok() {
            st.label("wrapped:both-done");
            if r1.stats.main_stack_len != r2.stats.main_stack_len {
                return Verdict::Fail(
                    Failure::new("VmInternal", format!("operand stack depth depends on the trip count: {} after 1 repetition, {} after 2", r1.stats.main_stack_len, r2.stats.main_stack_len))
                        .feats(feats())
                        .feat("stack-leak")
                        .detail(json!({"src": s2})),
                );
            }
            if r2.stdout != format!("{}{}", r1.stdout, r1.stdout) {
                return Verdict::Fail(Failure::new("OutcomeMismatch", "two repetitions of the body do not print the output twice").feats(feats()).feat("wrapped").detail(json!({"src": s2, "once": r1.stdout, "twice": r2.stdout})));
            }
        }
        if steps >= 30 && prog.labels.len() >= 3 {
            st.nt(&src);
            st.sample = Some(json!({"src": src, "end": format!("{:?}", outs[0].end).chars().take(80).collect::<String>(), "steps": steps}));
        }
        Verdict::Pass(st)
    }
}


/// The nesting skeletons of C03 (loops, matches, blocks, lambdas and task blocks with break / continue /
/// return / ? / ! and every assignment form), executed: whatever the checker accepts must also RUN
/// without an internal fault.
pub struct SkeletonRun;

impl Prop for SkeletonRun {
    type Case = crate::checks::c03::SkelCase;
    fn name(&self) -> &'static str {
        "skeleton_no_fault"
    }
    fn rule(&self) -> &'static str {
        "one case = a type-plausible skeleton program of C03 (1-2 functions and a main body, each a random nesting of if / while / for / match / block / lambda / task with break, continue, return, ?, ! and every assignment operator on every target form); programs the compiler accepts are run for at most 300000 steps at budgets 1000 and 1; the run may finish, stop with a documented runtime error or reach the step cap (tasks may wait for each other), but must not end in an internal VM fault or host panic; non-trivial = accepted and the program contains a lambda or a task; distinct by program text"
    }
    fn n_cases(&self, tier: Tier) -> u32 {
        tier.pick(2500, 60000)
    }
    fn strategy(&self, tier: Tier, _f: &Findings) -> BoxedStrategy<Self::Case> {
        let d = tier.pick(3u8, 4u8);
        proptest::collection::vec(any::<u16>(), 6..tier.pick(120, 300)).prop_map(move |tape| crate::checks::c03::SkelCase { tape, max_depth: d }).boxed()
    }
    fn judge(&self, c: &Self::Case, env: &mut Env) -> Verdict {
        let (text, labels) = crate::checks::c03::skeleton(c);
        let mut st = CaseStats::one();
        let variants = vec![
            Variant { budgets: vec![1000], ..Variant::sel(0) },
            Variant { budgets: vec![1], ..Variant::sel(0) },
        ];
        let opts = RunOpts { max_steps: 300_000, max_calls: 400_000, ..RunOpts::default() };
        let outs = try_exec!(env.run_var(&single(text.clone()), "main.abra", &opts, &variants));
        st.evals = outs.len() as u64;
        let Some(first) = outs.first() else { return Verdict::Pass(st) };
        if matches!(first.compile, FrontVerdict::Diag(_)) {
            st.label("rejected");
            return Verdict::Pass(st);
        }
        if matches!(first.compile, FrontVerdict::Panic(_)) {
            // accepted-but-does-not-compile is C03's subject
            st.label("compile-panic-counted-for-C03");
            return Verdict::Pass(st);
        }
        for (r, v) in outs.iter().zip(variants.iter()) {
            if let Some(f) = crash_failure(r) {
                let mut f = f.feat(format!("budget:{}", v.budgets[0]));
                for l in labels.iter().filter(|l| l.starts_with("lambda-in") || l.starts_with("task-in") || l.contains("return") || l.contains("break") || l.contains("continue")) {
                    f = f.feat(format!("uses:{l}"));
                }
                return Verdict::Fail(f.detail(json!({"text": text, "end": format!("{:?}", r.end).chars().take(300).collect::<String>()})));
            }
            st.label(match &r.end {
                RunEnd::Done => "end:done",
                RunEnd::Error { .. } => "end:runtime-error",
                RunEnd::Cap => "end:cap",
                _ => "end:other",
            });
        }
        st.label("accepted");
        if labels.iter().any(|l| l.starts_with("lambda-in") || l.starts_with("task-in")) {
            st.nt(&text);
            if text.len() < 2500 {
                st.sample = Some(json!({"text": text}));
            }
        }
        Verdict::Pass(st)
    }
}

pub fn run(ctx: &mut Ctx) {
    ctx.assume("the worker is built with debug assertions, so every typed access checks its runtime tag");
    ctx.assume("a watchdog expiry or the step cap is inconclusive, never a violation");
    ctx.prop(&crate::g::srccase::SrcProp { name: "program" });
    ctx.prop(&NoFault);
    ctx.prop(&SkeletonRun);
}
