//! C24 — built-in equality, ordering and hashing are lawful.
//! Oracle: algebraic laws only (no concrete order is imposed).

use crate::g::batch::run_batch;
use crate::g::vals::*;
use crate::harness::*;
use crate::proto::*;
use crate::try_exec;
use proptest::prelude::*;
use serde::{Deserialize, Serialize};
use serde_json::json;

#[derive(Clone, Debug, Serialize, Deserialize, PartialEq, Eq, Hash)]
pub struct LawCase {
    pub ty: Ty,
    pub vals: Vec<Val>,
    /// false: operators; true: interface methods (Equal.equal, Ord.less_than, ...)
    pub methods: bool,
}

fn has_ord(ty: &Ty) -> bool {
    !ty.has_array()
}
fn has_hash(ty: &Ty) -> bool {
    !ty.has_float()
}

fn body(c: &LawCase) -> String {
    let mut s = String::new();
    let tn = c.ty.name();
    for (i, v) in c.vals.iter().enumerate() {
        s.push_str(&format!("  let v{i}: {tn} = {}\n", v.expr()));
    }
    let n = c.vals.len();
    for i in 0..n {
        for j in 0..n {
            let (a, b) = (format!("v{i}"), format!("v{j}"));
            let mut parts = vec![];
            if c.methods {
                parts.push(format!("Equal.equal({a}, {b})"));
                parts.push(format!("({a} != {b})"));
                if has_ord(&c.ty) {
                    parts.push(format!("Ord.less_than({a}, {b})"));
                    parts.push(format!("Ord.less_than_or_equal({a}, {b})"));
                    parts.push(format!("Ord.greater_than({a}, {b})"));
                    parts.push(format!("Ord.greater_than_or_equal({a}, {b})"));
                }
            } else {
                parts.push(format!("({a} == {b})"));
                parts.push(format!("({a} != {b})"));
                if has_ord(&c.ty) {
                    parts.push(format!("({a} < {b})"));
                    parts.push(format!("({a} <= {b})"));
                    parts.push(format!("({a} > {b})"));
                    parts.push(format!("({a} >= {b})"));
                }
            }
            s.push_str(&format!("  println({})\n", parts.join(" .. \" \" .. ")));
        }
    }
    if has_hash(&c.ty) {
        for i in 0..n {
            s.push_str(&format!("  println(Hash.hash(v{i}))\n"));
        }
    }
    s.push_str("  nil");
    s
}

struct Obs {
    /// [i][j] = [eq, ne, lt, le, gt, ge]
    m: Vec<Vec<Vec<bool>>>,
    hashes: Vec<i64>,
}

fn parse_obs(c: &LawCase, out: &str) -> Result<Obs, String> {
    let n = c.vals.len();
    let lines: Vec<&str> = out.lines().collect();
    let want = n * n + if has_hash(&c.ty) { n } else { 0 };
    if lines.len() != want {
        return Err(format!("expected {want} output lines, got {}", lines.len()));
    }
    let width = if has_ord(&c.ty) { 6 } else { 2 };
    let mut m = vec![vec![vec![]; n]; n];
    for i in 0..n {
        for j in 0..n {
            let bits: Result<Vec<bool>, String> = lines[i * n + j]
                .split(' ')
                .map(|t| match t {
                    "true" => Ok(true),
                    "false" => Ok(false),
                    o => Err(format!("bad token {o:?}")),
                })
                .collect();
            let bits = bits?;
            if bits.len() != width {
                return Err(format!("line {} has {} fields", i * n + j, bits.len()));
            }
            m[i][j] = bits;
        }
    }
    let mut hashes = vec![];
    if has_hash(&c.ty) {
        for i in 0..n {
            hashes.push(lines[n * n + i].parse::<i64>().map_err(|e| format!("bad hash: {e}"))?);
        }
    }
    Ok(Obs { m, hashes })
}

/// first violated law, as (law name, indices)
fn check_laws(c: &LawCase, o: &Obs) -> Option<(String, Vec<usize>)> {
    let n = c.vals.len();
    let ord = has_ord(&c.ty);
    let (eq, ne, lt, le, gt, ge) = (0, 1, 2, 3, 4, 5);
    for i in 0..n {
        if !o.m[i][i][eq] {
            return Some(("eq-reflexive".into(), vec![i]));
        }
        if ord && o.m[i][i][lt] {
            return Some(("lt-irreflexive".into(), vec![i]));
        }
        for j in 0..n {
            let x = &o.m[i][j];
            let y = &o.m[j][i];
            if x[eq] != y[eq] {
                return Some(("eq-symmetric".into(), vec![i, j]));
            }
            if x[ne] == x[eq] {
                return Some(("ne-is-not-eq".into(), vec![i, j]));
            }
            if ord {
                let count = [x[lt], x[eq], x[gt]].iter().filter(|b| **b).count();
                if count != 1 {
                    return Some(("trichotomy".into(), vec![i, j]));
                }
                if x[le] != !y[lt] {
                    return Some(("le-iff-not-reverse-lt".into(), vec![i, j]));
                }
                if x[ge] != y[le] {
                    return Some(("ge-iff-reverse-le".into(), vec![i, j]));
                }
                if x[gt] != y[lt] {
                    return Some(("gt-iff-reverse-lt".into(), vec![i, j]));
                }
            }
            if x[eq] && !o.hashes.is_empty() && o.hashes[i] != o.hashes[j] {
                return Some(("eq-implies-equal-hash".into(), vec![i, j]));
            }
            // identical expressions must be equal
            if c.vals[i] == c.vals[j] && !x[eq] && !matches!(c.ty, Ty::Float) && !c.ty.has_float() {
                return Some(("identical-literals-equal".into(), vec![i, j]));
            }
        }
    }
    for i in 0..n {
        for j in 0..n {
            for k in 0..n {
                if o.m[i][j][eq] && o.m[j][k][eq] && !o.m[i][k][eq] {
                    return Some(("eq-transitive".into(), vec![i, j, k]));
                }
                if ord {
                    if o.m[i][j][lt] && o.m[j][k][lt] && !o.m[i][k][lt] {
                        return Some(("lt-transitive".into(), vec![i, j, k]));
                    }
                    if o.m[i][j][eq] && o.m[i][k][lt] != o.m[j][k][lt] {
                        return Some(("eq-congruent-with-lt".into(), vec![i, j, k]));
                    }
                }
            }
        }
    }
    None
}

fn ty_tag(t: &Ty) -> String {
    match t {
        Ty::Tuple(ts) => format!("tuple{}", ts.len()),
        Ty::Array(_) => "array".into(),
        other => other.name(),
    }
}

pub struct Laws;

impl Prop for Laws {
    type Case = Vec<LawCase>;
    fn name(&self) -> &'static str {
        "laws"
    }
    fn rule(&self) -> &'static str {
        "one case = a built-in comparable type and 2..6 values of it; all ordered pairs evaluate == != < <= > >= (operators or interface methods) and Hash.hash; checked laws: reflexive/symmetric/transitive ==, != negation, trichotomy, <= iff not reverse <, >= iff reverse <=, > iff reverse <, transitive <, == congruent with <, == implies equal hash; non-trivial = the value list contains two distinct values; distinct by (type, values, spelling)"
    }
    fn n_cases(&self, tier: Tier) -> u32 {
        tier.pick(400, 8000)
    }
    fn strategy(&self, _tier: Tier, _f: &Findings) -> BoxedStrategy<Self::Case> {
        let one = ty_strategy(2).prop_flat_map(|ty| {
            let vs = val_strategy(&ty);
            (Just(ty), proptest::collection::vec(vs, 2..=5), any::<bool>(), proptest::collection::vec(any::<u16>(), 0..=2))
        })
        .prop_map(|(ty, mut vals, methods, dups)| {
            // duplicate some values so that equal pairs always occur
            for d in dups {
                let v = vals[pick_idx(d, vals.len())].clone();
                vals.push(v);
            }
            LawCase { ty, vals, methods }
        });
        proptest::collection::vec(one, 1..24).boxed()
    }
    fn fixed_cases(&self, tier: Tier, _f: &Findings) -> Vec<Self::Case> {
        // exhaustive: all values of bool, void, tuples up to arity 4 over {bool, void}, arrays of bool up to length 3
        let mut tys = vec![Ty::Bool, Ty::Void, Ty::Array(Box::new(Ty::Bool)), Ty::Array(Box::new(Ty::Void))];
        for arity in 2..=4usize {
            for mask in 0..(1u32 << arity) {
                let ts: Vec<Ty> = (0..arity).map(|i| if mask >> i & 1 == 1 { Ty::Bool } else { Ty::Void }).collect();
                tys.push(Ty::Tuple(ts));
            }
        }
        tys.push(Ty::Tuple(vec![Ty::Bool, Ty::Tuple(vec![Ty::Bool, Ty::Void])]));
        tys.push(Ty::Array(Box::new(Ty::Tuple(vec![Ty::Bool, Ty::Void]))));
        let mut cases = vec![];
        for ty in tys {
            let vals = all_values(&ty, tier.pick(2, 3));
            for methods in [false, true] {
                // all pairs and triples are covered when the full value list is one case; keep lists <= 16
                for chunk in vals.chunks(16) {
                    cases.push(LawCase { ty: ty.clone(), vals: chunk.to_vec(), methods });
                }
                if vals.len() > 16 {
                    // cross-chunk pairs: first and last halves interleaved
                    let mixed: Vec<Val> = vals.iter().step_by(2).take(16).cloned().collect();
                    cases.push(LawCase { ty: ty.clone(), vals: mixed, methods });
                }
            }
        }
        // boundary scalars
        let ints: Vec<Val> = [0i64, 1, -1, i64::MIN, i64::MAX, i64::MIN + 1, 2, 2].iter().map(|n| Val::Int(*n)).collect();
        let floats: Vec<Val> = [0.0f64, -0.0, 1.0, -1.0, f64::INFINITY, f64::NEG_INFINITY, f64::NAN, f64::MAX, 5e-324, 1.0]
            .iter()
            .map(|x| Val::Float(x.to_bits()))
            .collect();
        let strs: Vec<Val> = ["", "a", "ab", "b", "aa", "é", "e", "a\u{80}", "日", "ab"].iter().map(|s| Val::Str(s.to_string())).collect();
        for methods in [false, true] {
            cases.push(LawCase { ty: Ty::Int, vals: ints.clone(), methods });
            cases.push(LawCase { ty: Ty::Float, vals: floats.clone(), methods });
            cases.push(LawCase { ty: Ty::Str, vals: strs.clone(), methods });
        }
        cases.chunks(4).map(|c| c.to_vec()).collect()
    }
    fn split(&self, case: &Self::Case) -> Vec<Self::Case> {
        case.iter().map(|c| vec![c.clone()]).collect()
    }
    fn judge(&self, cases: &Self::Case, env: &mut Env) -> Verdict {
        let bodies: Vec<String> = cases.iter().map(body).collect();
        let (src, outs) = try_exec!(run_batch(env, "", &bodies, &RunOpts::default()));
        if outs.len() != cases.len() {
            let r = &outs[0];
            if let Some(f) = crash_failure(r) {
                return Verdict::Fail(f);
            }
            return Verdict::Fail(Failure::new("VerdictMismatch", format!("law batch rejected by the compiler: {:?}", r.compile)).detail(json!({"src": src})));
        }
        let mut st = CaseStats::default();
        let mut first_fail = None;
        for (c, r) in cases.iter().zip(outs.iter()) {
            let n = c.vals.len() as u64;
            st.evals += n * n;
            let distinct = c.vals.iter().any(|v| v != &c.vals[0]);
            if distinct {
                st.nt(c);
            }
            st.label(format!("ty:{}", ty_tag(&c.ty)));
            st.label(if c.methods { "spelling:methods" } else { "spelling:operators" });
            let fail = if let Some(f) = crash_failure(r) {
                Some(f)
            } else if !matches!(r.end, RunEnd::Done) {
                Some(Failure::new("OutcomeMismatch", format!("comparison program did not finish: {:?}", r.end)).feat(format!("ty:{}", ty_tag(&c.ty))))
            } else {
                match parse_obs(c, &r.stdout) {
                    Err(e) => Some(Failure::new("OutcomeMismatch", format!("unreadable output: {e}")).detail(json!({"stdout": r.stdout}))),
                    Ok(o) => check_laws(c, &o).map(|(law, idx)| {
                        let vals: Vec<String> = idx.iter().map(|i| c.vals[*i].expr()).collect();
                        Failure::new("LawViolation", format!("{law} fails for {} on ({})", c.ty.name(), vals.join(", ")))
                            .feat(format!("law:{law}"))
                            .feat(format!("ty:{}", c.ty.name()))
                            .detail(json!({"case": c, "stdout": r.stdout, "body": body(c)}))
                    }),
                }
            };
            if let Some(f) = fail {
                match env.findings.attribute(&f) {
                    Some(k) => st.known_hits.push(k),
                    None => {
                        if first_fail.is_none() {
                            first_fail = Some(f);
                        }
                    }
                }
            }
            if st.sample.is_none() && distinct {
                st.sample = Some(json!({"type": c.ty.name(), "values": c.vals.iter().map(|v| v.expr()).collect::<Vec<_>>(), "methods": c.methods, "first_output_line": r.stdout.lines().next()}));
            }
        }
        match first_fail {
            Some(f) => Verdict::Fail(f),
            None => Verdict::Pass(st),
        }
    }
}

pub fn run(ctx: &mut Ctx) {
    ctx.assume("only laws are checked; no concrete order is imposed on bool, void, NaN or -0.0");
    ctx.assume("NaN is obtained as sqrt(-1.0) and infinities as MAX * 10.0 because no literal exists");
    ctx.prop(&Laws);
}
