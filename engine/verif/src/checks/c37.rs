//! C37 — the interning set (`utils::id_set::IdSet`) is a sound, order-preserving id map.
//!
//! A case is a sequence (<= 200) of safe operations over up to 5 live sets of one element type
//! (u64 | String | Vec<u8>). The coordinator generates and shrinks; the `utilsan` worker (ASan
//! build) executes the sequence against the real type and a (HashMap<T,u32>, Vec<T>) model and
//! compares every observation: ids dense in insertion order and stable, lookups by id and by
//! value agree, iteration = insertion order, documented panics happen. A worker killed by
//! AddressSanitizer is a failure (HostAbort, abort:asan).

use super::utilsan::{self, Outcome};
use crate::harness::*;
use proptest::prelude::*;
use serde::{Deserialize, Serialize};
use serde_json::{Value, json};

pub const MAX_LIVE: usize = 5;
pub const MAX_OPS: usize = 200;

/// `s` selects a live set counted from the newest (0 = newest), clamped to the oldest.
/// `v` is an index into a universe of values of the element type (small => duplicates are common).
#[derive(Clone, Debug, Serialize, Deserialize, PartialEq, Eq, Hash)]
pub enum SOp {
    New { dflt: bool },
    Insert { s: u8, v: u8 },
    Lookup { s: u8, v: u8, probe: bool },
    /// id = pick_idx(id, len); `oob`: len + (id >> 14) instead (must panic)
    Index { s: u8, id: u16, oob: bool },
    IndexMut { s: u8, id: u16, oob: bool },
    Iter { s: u8, by_ref: bool },
    Debug { s: u8 },
    Len { s: u8 },
    Clear { s: u8 },
    Clone { s: u8 },
    Drop { s: u8 },
    IntoIter { s: u8, take: Option<u8> },
}

#[derive(Clone, Debug, Serialize, Deserialize, PartialEq, Eq, Hash)]
pub struct SetCase {
    /// 0 u64 | 1 String | 2 Vec<u8>
    pub ty: u8,
    pub ops: Vec<SOp>,
}

pub const TYS: [&str; 3] = ["u64", "String", "Vec<u8>"];

/// Coordinator-side shadow of one live set: enough to resolve selectors and classify the case.
#[derive(Clone, Debug)]
struct Shadow {
    slot: u32,
    /// distinct universe indices in insertion order
    vals: Vec<u8>,
    // buffer model of the documented growth policy (capacity 0 -> 2 -> 4 -> ...; a full buffer is
    // retired to the old-buffer list; clear keeps the current capacity)
    cap: usize,
    cur: usize,
    old_nonempty: u32,
    /// slot this set was cloned from, whether that original had >= 1 non-empty old buffer then
    clone_of: Option<u32>,
    orig_grown: bool,
    orig_killed: Option<&'static str>,
    used_after_kill: u32,
    /// clones of this set that were dropped/cleared while this one lives on
    clone_killed: bool,
    used_after_clone_killed: u32,
}

impl Shadow {
    fn new(slot: u32) -> Shadow {
        Shadow { slot, vals: vec![], cap: 0, cur: 0, old_nonempty: 0, clone_of: None, orig_grown: false, orig_killed: None, used_after_kill: 0, clone_killed: false, used_after_clone_killed: 0 }
    }
    fn push_model(&mut self, dup: bool) {
        if self.cur + 1 > self.cap {
            self.cap = self.cap.max(1) * 2;
            if self.cur > 0 {
                self.old_nonempty += 1;
            }
            self.cur = 0;
        }
        if !dup {
            self.cur += 1;
        }
    }
    fn insert(&mut self, v: u8) {
        let dup = self.vals.contains(&v);
        self.push_model(dup);
        if !dup {
            self.vals.push(v);
        }
    }
    fn clear(&mut self) {
        self.vals.clear();
        self.cur = 0;
        self.old_nonempty = 0;
    }
}

#[derive(Default, Debug)]
pub struct Resolved {
    pub ops: Vec<Value>,
    pub kinds: Vec<&'static str>,
    /// clone of a grown set, original then dropped / cleared / consumed, clone used afterwards
    pub nt_clone_kill_use: u32,
    pub small_clone_kill_use: u32,
    pub clone_killed_orig_used: u32,
    pub clones: u32,
    pub kills: Vec<&'static str>,
    pub max_len: usize,
    pub max_old_bufs: u32,
    pub dup_inserts: u32,
    pub oob: u32,
    pub implicit: u32,
}

/// Turn the relative case into the absolute request for the worker and classify it. Pure.
pub fn resolve(case: &SetCase) -> Resolved {
    let mut r = Resolved::default();
    let mut live: Vec<Shadow> = vec![]; // oldest first
    let mut next_slot = 0u32;
    let mut done_clone_kill: Vec<(bool, u32)> = vec![]; // finished clones: (orig_grown, used_after_kill)

    fn pick(live: &[Shadow], s: u8) -> usize {
        let n = live.len();
        n - 1 - (s as usize).min(n - 1)
    }
    // the original of every clone of `slot` was killed; the set `slot` itself, if it is a clone, leaves
    fn kill(live: &mut [Shadow], slot: u32, how: &'static str) {
        let parent = live.iter().find(|x| x.slot == slot).and_then(|x| x.clone_of);
        for x in live.iter_mut() {
            if x.clone_of == Some(slot) && x.orig_killed.is_none() {
                x.orig_killed = Some(how);
            }
            if Some(x.slot) == parent {
                x.clone_killed = true;
            }
        }
    }

    // every reading/extending op on a clone whose original is gone counts as "keeps using the clone"
    fn touch(x: &mut Shadow) {
        if x.clone_of.is_some() && x.orig_killed.is_some() {
            x.used_after_kill += 1;
        }
        if x.clone_killed {
            x.used_after_clone_killed += 1;
        }
    }

    for op in case.ops.iter().take(MAX_OPS) {
        let needs_set = !matches!(op, SOp::New { .. });
        if needs_set && live.is_empty() {
            r.ops.push(json!({"op": "new", "dst": next_slot, "dflt": false}));
            r.kinds.push("new");
            r.implicit += 1;
            live.push(Shadow::new(next_slot));
            next_slot += 1;
        }
        let creates = matches!(op, SOp::New { .. } | SOp::Clone { .. });
        if creates && live.len() >= MAX_LIVE {
            // make room: the oldest set is dropped (an ordinary drop for the worker and the classifier)
            let victim = live[0].slot;
            // never drop the set a Clone is about to read
            let idx = if let SOp::Clone { s } = op { if pick(&live, *s) == 0 { 1 } else { 0 } } else { 0 };
            let victim = if idx == 0 { victim } else { live[idx].slot };
            r.ops.push(json!({"op": "drop", "s": victim}));
            r.kinds.push("drop");
            r.kills.push("drop");
            r.implicit += 1;
            kill(&mut live, victim, "drop");
            let gone = live.remove(idx);
            if gone.clone_of.is_some() && gone.orig_killed.is_some() {
                done_clone_kill.push((gone.orig_grown, gone.used_after_kill));
            }
            if gone.clone_killed && gone.used_after_clone_killed > 0 {
                r.clone_killed_orig_used += 1;
            }
        }
        match op {
            SOp::New { dflt } => {
                r.ops.push(json!({"op": "new", "dst": next_slot, "dflt": dflt}));
                r.kinds.push("new");
                live.push(Shadow::new(next_slot));
                next_slot += 1;
            }
            SOp::Insert { s, v } => {
                let i = pick(&live, *s);
                touch(&mut live[i]);
                if live[i].vals.contains(v) {
                    r.dup_inserts += 1;
                }
                live[i].insert(*v);
                r.ops.push(json!({"op": "insert", "s": live[i].slot, "v": v}));
                r.kinds.push("insert");
            }
            SOp::Lookup { s, v, probe } => {
                let i = pick(&live, *s);
                touch(&mut live[i]);
                r.ops.push(json!({"op": "lookup", "s": live[i].slot, "v": v, "probe": probe}));
                r.kinds.push(if live[i].vals.contains(v) { "lookup-hit" } else { "lookup-miss" });
            }
            SOp::Index { s, id, oob } | SOp::IndexMut { s, id, oob } => {
                let i = pick(&live, *s);
                touch(&mut live[i]);
                let len = live[i].vals.len();
                let out = *oob || len == 0;
                let rid = if out { len + (*id >> 14) as usize } else { pick_idx(*id, len) };
                if out {
                    r.oob += 1;
                }
                let name = if matches!(op, SOp::Index { .. }) { "index" } else { "index_mut" };
                r.ops.push(json!({"op": name, "s": live[i].slot, "id": rid}));
                r.kinds.push(match (name, out) {
                    ("index", false) => "index",
                    ("index", true) => "index-oob",
                    (_, false) => "index_mut",
                    (_, true) => "index_mut-oob",
                });
            }
            SOp::Iter { s, by_ref } => {
                let i = pick(&live, *s);
                touch(&mut live[i]);
                r.ops.push(json!({"op": "iter", "s": live[i].slot, "by_ref": by_ref}));
                r.kinds.push("iter");
            }
            SOp::Debug { s } => {
                let i = pick(&live, *s);
                touch(&mut live[i]);
                r.ops.push(json!({"op": "debug", "s": live[i].slot}));
                r.kinds.push("debug");
            }
            SOp::Len { s } => {
                let i = pick(&live, *s);
                r.ops.push(json!({"op": "len", "s": live[i].slot}));
                r.kinds.push("len");
            }
            SOp::Clear { s } => {
                let i = pick(&live, *s);
                let slot = live[i].slot;
                r.ops.push(json!({"op": "clear", "s": slot}));
                r.kinds.push("clear");
                r.kills.push("clear");
                kill(&mut live, slot, "clear");
                // a cleared clone no longer holds cloned data: its lineage ends here
                if live[i].clone_of.is_some() && live[i].orig_killed.is_some() {
                    done_clone_kill.push((live[i].orig_grown, live[i].used_after_kill));
                }
                live[i].clone_of = None;
                live[i].orig_killed = None;
                live[i].used_after_kill = 0;
                live[i].clear();
            }
            SOp::Clone { s } => {
                let i = pick(&live, *s);
                touch(&mut live[i]);
                let mut c = Shadow::new(next_slot);
                for v in live[i].vals.clone() {
                    c.insert(v); // the clone is modelled as a re-insertion in order
                }
                c.clone_of = Some(live[i].slot);
                c.orig_grown = live[i].old_nonempty >= 1;
                r.ops.push(json!({"op": "clone", "s": live[i].slot, "dst": next_slot}));
                r.kinds.push("clone");
                r.clones += 1;
                live.push(c);
                next_slot += 1;
            }
            SOp::Drop { .. } | SOp::IntoIter { .. } => {
                let (s, how) = match op {
                    SOp::Drop { s } => (*s, "drop"),
                    SOp::IntoIter { s, .. } => (*s, "into_iter"),
                    _ => unreachable!(),
                };
                let i = pick(&live, s);
                let slot = live[i].slot;
                match op {
                    SOp::IntoIter { take, .. } => r.ops.push(json!({"op": "into_iter", "s": slot, "take": take})),
                    _ => r.ops.push(json!({"op": "drop", "s": slot})),
                }
                r.kinds.push(how);
                r.kills.push(how);
                kill(&mut live, slot, how);
                let gone = live.remove(i);
                if gone.clone_of.is_some() && gone.orig_killed.is_some() {
                    done_clone_kill.push((gone.orig_grown, gone.used_after_kill));
                }
                if gone.clone_killed && gone.used_after_clone_killed > 0 {
                    r.clone_killed_orig_used += 1;
                }
            }
        }
        for x in &live {
            r.max_len = r.max_len.max(x.vals.len());
            r.max_old_bufs = r.max_old_bufs.max(x.old_nonempty);
        }
    }
    for x in &live {
        if x.clone_of.is_some() && x.orig_killed.is_some() {
            done_clone_kill.push((x.orig_grown, x.used_after_kill));
        }
        if x.clone_killed && x.used_after_clone_killed > 0 {
            r.clone_killed_orig_used += 1;
        }
    }
    for (grown, used) in done_clone_kill {
        if used > 0 {
            if grown {
                r.nt_clone_kill_use += 1;
            } else {
                r.small_clone_kill_use += 1;
            }
        }
    }
    r
}

fn sel() -> impl Strategy<Value = u8> {
    prop_oneof![6 => Just(0u8), 3 => 1u8..3, 1 => 3u8..5]
}

fn val() -> impl Strategy<Value = u8> {
    prop_oneof![6 => 0u8..12, 3 => 0u8..48, 1 => any::<u8>()]
}

fn any_op() -> impl Strategy<Value = SOp> {
    prop_oneof![
        2 => any::<bool>().prop_map(|dflt| SOp::New { dflt }),
        30 => (sel(), val()).prop_map(|(s, v)| SOp::Insert { s, v }),
        8 => (sel(), val(), any::<bool>()).prop_map(|(s, v, probe)| SOp::Lookup { s, v, probe }),
        6 => (sel(), any::<u16>(), prop::bool::weighted(0.15)).prop_map(|(s, id, oob)| SOp::Index { s, id, oob }),
        4 => (sel(), any::<u16>(), prop::bool::weighted(0.1)).prop_map(|(s, id, oob)| SOp::IndexMut { s, id, oob }),
        4 => (sel(), any::<bool>()).prop_map(|(s, by_ref)| SOp::Iter { s, by_ref }),
        2 => sel().prop_map(|s| SOp::Debug { s }),
        2 => sel().prop_map(|s| SOp::Len { s }),
        3 => sel().prop_map(|s| SOp::Clear { s }),
        5 => sel().prop_map(|s| SOp::Clone { s }),
        4 => sel().prop_map(|s| SOp::Drop { s }),
        2 => (sel(), prop::option::of(0u8..6)).prop_map(|(s, take)| SOp::IntoIter { s, take }),
    ]
}

/// an op on the newest set that observes or extends it
fn use_op() -> impl Strategy<Value = SOp> {
    prop_oneof![
        3 => val().prop_map(|v| SOp::Insert { s: 0, v }),
        3 => (val(), any::<bool>()).prop_map(|(v, probe)| SOp::Lookup { s: 0, v, probe }),
        2 => any::<u16>().prop_map(|id| SOp::Index { s: 0, id, oob: false }),
        1 => any::<u16>().prop_map(|id| SOp::IndexMut { s: 0, id, oob: false }),
        1 => any::<bool>().prop_map(|by_ref| SOp::Iter { s: 0, by_ref }),
        1 => Just(SOp::Debug { s: 0 }),
    ]
}

/// fill the newest set (optionally a fresh one) past at least one buffer growth, clone it, kill
/// the original (now second-newest), keep using the clone
fn clone_kill_use() -> impl Strategy<Value = Vec<SOp>> {
    (any::<bool>(), proptest::collection::vec(val(), 3..14), 0u8..4, proptest::collection::vec(use_op(), 1..6)).prop_map(|(fresh, vals, how, uses)| {
        let mut ops = vec![];
        if fresh {
            ops.push(SOp::New { dflt: false });
        }
        for v in vals {
            ops.push(SOp::Insert { s: 0, v });
        }
        ops.push(SOp::Clone { s: 0 });
        ops.push(match how {
            0 | 1 => SOp::Drop { s: 1 },
            2 => SOp::Clear { s: 1 },
            _ => SOp::IntoIter { s: 1, take: None },
        });
        ops.extend(uses);
        ops
    })
}

/// many distinct values into the newest set: crosses several buffer growths (2, 4, 8, ... elements)
fn fill() -> impl Strategy<Value = Vec<SOp>> {
    (any::<u8>(), 4usize..40).prop_map(|(start, n)| (0..n).map(|k| SOp::Insert { s: 0, v: start.wrapping_add(k as u8) }).collect())
}

pub struct IdSetSeq;

impl IdSetSeq {
    fn fixed(ty: u8, n: u8, how: u8) -> SetCase {
        let mut ops = vec![SOp::New { dflt: false }];
        for v in 0..n {
            ops.push(SOp::Insert { s: 0, v: v + 1 });
        }
        ops.push(SOp::Clone { s: 0 });
        ops.push(match how {
            0 => SOp::Drop { s: 1 },
            1 => SOp::Clear { s: 1 },
            2 => SOp::IntoIter { s: 1, take: None },
            // the clone goes first, the original lives on
            _ => SOp::Drop { s: 0 },
        });
        ops.push(SOp::Lookup { s: 0, v: 1, probe: true });
        ops.push(SOp::Index { s: 0, id: 0, oob: false });
        ops.push(SOp::Iter { s: 0, by_ref: false });
        ops.push(SOp::Insert { s: 0, v: 200 });
        ops.push(SOp::Insert { s: 0, v: 1 });
        ops.push(SOp::IndexMut { s: 0, id: 0xFFFF, oob: false });
        SetCase { ty, ops }
    }
}

impl Prop for IdSetSeq {
    type Case = SetCase;
    fn name(&self) -> &'static str {
        "idset_seq"
    }
    fn rule(&self) -> &'static str {
        "one case = element type (u64|String|Vec<u8>) + a sequence of <= 200 safe IdSet operations over <= 5 live sets (new/default, insert new or duplicate, try_get_id/contains/get_id incl. the documented panic, index / index_mut by valid and out-of-range id, iter, &set iteration, Debug, len/is_empty, clear, clone, drop, into_iter fully or partially consumed), built from random operations mixed with fill and clone-kill-use phrases; every operation is followed by a full comparison of the touched sets with a (HashMap<T,u32>, Vec<T>) model inside an AddressSanitizer-instrumented worker; non-trivial = the sequence clones a set that, under the documented doubling policy, has >= 1 non-empty retired buffer, then drops, clears or consumes the original and afterwards operates on the clone at least once; distinct by the whole (type, sequence)"
    }
    fn n_cases(&self, tier: Tier) -> u32 {
        tier.pick(3000, 30000)
    }
    fn strategy(&self, _tier: Tier, _f: &Findings) -> BoxedStrategy<SetCase> {
        let chunk = prop_oneof![
            5 => proptest::collection::vec(any_op(), 1..14),
            2 => clone_kill_use(),
            1 => fill(),
        ];
        (0u8..3, proptest::collection::vec(chunk, 1..22))
            .prop_map(|(ty, chunks)| {
                let mut ops: Vec<SOp> = chunks.into_iter().flatten().collect();
                ops.truncate(MAX_OPS);
                SetCase { ty, ops }
            })
            .boxed()
    }
    fn fixed_cases(&self, _tier: Tier, _f: &Findings) -> Vec<SetCase> {
        let mut all = vec![];
        for ty in 0..3 {
            for n in [0u8, 1, 2, 3, 5, 9, 17, 33] {
                for how in 0..4 {
                    all.push(Self::fixed(ty, n, how));
                }
            }
        }
        all
    }
    /// a failing fixed case is narrowed to its shortest failing prefix
    fn split(&self, case: &SetCase) -> Vec<SetCase> {
        (1..case.ops.len()).map(|n| SetCase { ty: case.ty, ops: case.ops[..n].to_vec() }).collect()
    }
    fn judge(&self, case: &SetCase, env: &mut Env) -> Verdict {
        if case.ty > 2 {
            return Verdict::Inconclusive("case outside the domain (element type)".into());
        }
        let r = resolve(case);
        let req = json!({"kind": "idset", "ty": case.ty, "ops": r.ops});
        let class_feats = |f: Failure| -> Failure {
            let mut f = f.feat(format!("ty:{}", TYS[case.ty as usize]));
            if r.nt_clone_kill_use + r.small_clone_kill_use > 0 {
                f = f.feat("shape:clone-kill-use");
            }
            if r.clone_killed_orig_used > 0 {
                f = f.feat("shape:clone-killed-orig-used");
            }
            if r.clones == 0 {
                f = f.feat("shape:no-clone");
            }
            f
        };
        let resp = match utilsan::call(env, &req) {
            Exec::Ok(v) => v,
            Exec::Abort(mut f) => {
                let d = f.detail.take();
                return Verdict::Fail(class_feats(f).detail(json!({"worker": d, "request": req})));
            }
            Exec::Inconclusive(s) => return Verdict::Inconclusive(s),
        };
        let stats = match utilsan::outcome(&resp) {
            Err(e) => return Verdict::Inconclusive(e),
            Ok(Outcome::Bad { step, what }) => {
                let kind = r.kinds.get(step.max(0) as usize).copied().unwrap_or("end");
                let class = if what.starts_with("unexpected panic") { "HostPanic" } else { "ModelMismatch" };
                return Verdict::Fail(
                    class_feats(Failure::new(class, norm_msg(&what)).feat(format!("op:{kind}"))).detail(json!({"step": step, "what": what, "op": r.ops.get(step.max(0) as usize), "request": req})),
                );
            }
            Ok(Outcome::Ok(s)) => s,
        };
        let mut st = CaseStats::one();
        let nt = r.nt_clone_kill_use > 0;
        if nt {
            st.nt(case);
        }
        st.label(format!("ty:{}", TYS[case.ty as usize]));
        st.label(if nt {
            "class:clone-grown-kill-use (non-trivial)"
        } else if r.small_clone_kill_use > 0 {
            "class:clone-small-kill-use"
        } else if r.clones > 0 {
            "class:clone-without-kill-use"
        } else {
            "class:no-clone"
        });
        if r.clone_killed_orig_used > 0 {
            st.label("also:clone-killed-original-used");
        }
        for k in &r.kills {
            st.label(format!("kill:{k}"));
        }
        st.label(match r.ops.len() {
            0..=9 => "ops:0-9",
            10..=49 => "ops:10-49",
            50..=99 => "ops:50-99",
            _ => "ops:100-200",
        });
        st.label(match r.max_len {
            0..=2 => "maxlen:0-2",
            3..=8 => "maxlen:3-8",
            9..=32 => "maxlen:9-32",
            _ => "maxlen:33+",
        });
        st.label(format!("old-buffers:{}", r.max_old_bufs.min(6)));
        for k in &r.kinds {
            st.label(format!("op:{k}"));
        }
        if r.dup_inserts > 0 {
            st.label("has:duplicate-insert");
        }
        if stats.get("expected_panics").and_then(|v| v.as_u64()).unwrap_or(0) > 0 {
            st.label("has:documented-panic");
        }
        st.sample = Some(json!({"ty": TYS[case.ty as usize], "resolved_ops": r.ops, "worker_stats": stats}));
        Verdict::Pass(st)
    }
}

pub fn run(ctx: &mut Ctx) {
    ctx.assume("reference model: std HashMap<T,u32> + Vec<T>; Debug output is the debug_set rendering of the values in insertion order");
    ctx.assume("IndexMut is exercised only with hash-preserving writes (set[id] = set[id].clone()), the type's stated requirement; get_id of a missing value and indexing with id >= len are required to panic (documented / unwrap), and a panic is not undefined behaviour");
    ctx.assume("the non-trivial classification models the buffer policy in the source comments (capacity 2, doubling, clear keeps the current capacity, clone = re-insertion); it does not influence the verdict");
    utilsan::configure(ctx);
    if utilsan::bin().is_none() {
        ctx.harness_error("utilsan worker binary not found (./check builds engine/utilsan)");
        return;
    }
    if matches!(ctx.mode, Mode::Search) && !utilsan::preflight(ctx) {
        return;
    }
    ctx.prop(&IdSetSeq);
    // thorough tier: coverage-guided op sequences (ASan + the in-process model inside the target)
    let c = crate::campaign::Campaign { target: "fuzz_idset", sanitizer: "address", runs: 12_000, max_len: 400, jobs: 12, seeds: crate::campaign::byte_seeds(24, 400), dict: vec![] };
    crate::campaign::guided(ctx, &IdSetSeq, c, |b| Some(crate::fuzzside::idset_case(b)));
}
