//! C09 — channels deliver each value once, in order, as a valid independent copy.

use crate::g::kpn::*;
use crate::harness::*;
use crate::proto::*;
use crate::try_exec;
use proptest::prelude::*;
use serde::{Deserialize, Serialize};
use serde_json::json;

#[derive(Clone, Debug, Serialize, Deserialize)]
pub struct ChanCase {
    /// 0 = pipeline (one writer, one reader per channel), 1 = fan-in (several writers, one reader)
    pub shape: u8,
    pub kind: Kind,
    /// values sent, in order (pipeline) / per writer (fan-in: count only)
    pub values: Vec<Vec<i64>>,
    pub writers: u8,
    /// the writer task ends right after its last write, before the reader has read (needs channel-owned storage)
    pub early_finish: bool,
    /// the writing side mutates the value after writing it (visible to a copy-at-read implementation)
    #[serde(default)]
    pub post_write_mutation: bool,
    /// busy work done by the reader before it starts reading
    pub reader_delay: u8,
    pub budgets: Vec<Vec<u32>>,
    /// (gc start call, pace) schedules, run with quarantine on
    pub gc: Vec<(u32, u8)>,
}

fn ilit(n: i64) -> String {
    if n < 0 { format!("({n})") } else { n.to_string() }
}

pub fn pipeline(c: &ChanCase) -> (String, String) {
    let n = c.values.len();
    let proto = Mv::new(c.kind, &[], 0, "");
    let ty = proto.ty();
    let mut src = decls_for(c.kind);
    let mut exp = String::new();
    src.push_str(&format!("let c1: channel<{ty}> = channel()\nlet c2: channel<{ty}> = channel()\nlet ack: channel<int> = channel()\nlet done: channel<int> = channel()\n"));
    // stage task
    src.push_str(&format!("task {{\n  for i in {n} {{\n    let v = c1.read()\n"));
    // the stage passes on an object of its own heap: a mutated copy, or (immutable kinds) a re-created value
    let mut dummy = Mv::new(c.kind, &[0], 0, "d");
    let (fw, wv) = dummy.forward("v", 100, "    ");
    src.push_str(&fw);
    src.push_str(&format!("    c2.write({wv})\n"));
    if c.post_write_mutation {
        src.push_str(&dummy.mutate(&wv, 200, "    "));
    }
    src.push_str("  }\n  done.write(1)\n");
    if !c.early_finish {
        src.push_str("  let a = ack.read()\n");
    }
    src.push_str("}\n");
    // main: producer
    let mut mains = vec![];
    for (i, vals) in c.values.iter().enumerate() {
        let mut m = Mv::new(c.kind, vals, i as i64, &format!("t{i}"));
        src.push_str(&format!("let v{i}: {ty} = {}\nc1.write(v{i})\n", m.lit()));
        // what the stage receives = the value at write time; the writer's later mutation is invisible
        let mut received = m.clone();
        if c.post_write_mutation {
            src.push_str(&m.mutate(&format!("v{i}"), 300, ""));
        }
        received.forward("_", 100, "");
        mains.push((m, received));
    }
    if c.early_finish {
        // let the stage write everything and finish before the first read
        src.push_str("let d = done.read()\n");
    }
    if c.reader_delay > 0 || c.early_finish {
        let k = c.reader_delay as i64 + if c.early_finish { 40 } else { 0 };
        src.push_str(&format!("var busy = 0\nwhile busy < {k} {{\n  busy += 1\n}}\n"));
    }
    for (i, (m, received)) in mains.iter_mut().enumerate() {
        let obs = received.observe(&format!("r{i}"));
        src.push_str(&format!("let r{i} = c2.read()\n"));
        src.push_str(&format!("println({obs})\n"));
        exp.push_str(&format!("{}\n", received.rendered()));
        // the reader mutates its copy; then its own original must still show only its own mutation
        let mut rc = received.clone();
        src.push_str(&rc.mutate(&format!("r{i}"), 400, ""));
        let obs_own = m.observe(&format!("v{i}"));
        src.push_str(&format!("println({obs_own})\n"));
        exp.push_str(&format!("{}\n", m.rendered()));
    }
    if !c.early_finish {
        src.push_str("let d = done.read()\nack.write(1)\n");
    }
    src.push_str("println(\"end\")\n");
    exp.push_str("end\n");
    (src, exp)
}

pub fn fan_in(c: &ChanCase) -> String {
    let k = c.writers.max(1) as usize;
    let m = c.values.len().max(1);
    let mut src = String::new();
    src.push_str("let ch: channel<array<int>> = channel()\nlet ack: channel<int> = channel()\n");
    for w in 0..k {
        let post = if c.post_write_mutation { "    msg.push(99)\n" } else { "" };
        src.push_str(&format!("task {{\n  for j in {m} {{\n    let msg = [{w}, j]\n    ch.write(msg)\n{post}  }}\n  let a = ack.read()\n}}\n"));
    }
    src.push_str(&format!("for i in {} {{\n  let r = ch.read()\n  println(r[0] .. \":\" .. r[1] .. \":\" .. r.len())\n}}\n", k * m));
    src.push_str(&format!("for w in {k} {{\n  ack.write(1)\n}}\nprintln(\"end\")\n"));
    src
}

fn check_fan_in(c: &ChanCase, out: &str) -> Result<(), String> {
    let k = c.writers.max(1) as usize;
    let m = c.values.len().max(1);
    let lines: Vec<&str> = out.lines().collect();
    if lines.len() != k * m + 1 || lines.last() != Some(&"end") {
        return Err(format!("expected {} received values and `end`, got {} lines", k * m, lines.len()));
    }
    let mut next = vec![0usize; k];
    for l in &lines[..k * m] {
        let p: Vec<&str> = l.split(':').collect();
        let (Some(w), Some(j), Some(len)) = (p.first().and_then(|x| x.parse::<usize>().ok()), p.get(1).and_then(|x| x.parse::<usize>().ok()), p.get(2)) else {
            return Err(format!("unreadable line {l:?}"));
        };
        if *len != "2" {
            return Err(format!("received value {l:?} is not an independent copy of what was written (length {len})"));
        }
        if w >= k || next[w] != j {
            return Err(format!("writer {w}: expected message {} next, received {j} (lost, duplicated or reordered)", next.get(w).copied().unwrap_or(0)));
        }
        next[w] += 1;
    }
    if next.iter().any(|x| *x != m) {
        return Err("not every written value was received exactly once".into());
    }
    Ok(())
}

pub struct Channels;

impl Prop for Channels {
    type Case = ChanCase;
    fn name(&self) -> &'static str {
        "channels"
    }
    fn rule(&self) -> &'static str {
        "one case = a pipeline (main -> stage task -> main over two channels; the stage mutates what it received, forwards it, then mutates it again; main mutates what it sent and what it received) or a fan-in (1..4 writer tasks x M messages into one channel) for values of 12 heap kinds (arrays, nested arrays, structs, tuples, enum payloads, strings, options, payload-less variants, option<int>, a variant of a 300-variant enum, a struct holding scalar-payload enum objects); run at budgets 1000, 1, 3, generated budget sequences, and scripted GC schedules with quarantine; invariants: values are received exactly once, in order per writer, equal to what was written at write time, and later mutations on either side are invisible to the other; non-trivial = a heap value crosses a channel and the reader has to wait at least once; distinct by case"
    }
    fn n_cases(&self, tier: Tier) -> u32 {
        tier.pick(1200, 20000)
    }
    fn strategy(&self, _tier: Tier, f: &Findings) -> BoxedStrategy<Self::Case> {
        let early_ok = !f.is_open("chan-value-lives-in-writer-heap");
        (
            (prop_oneof![3 => Just(0u8), 1 => Just(1u8)], 0usize..KINDS.len(), proptest::collection::vec(proptest::collection::vec(-3i64..50, 0..3), 1..5), 1u8..5),
            (proptest::bool::weighted(0.3), proptest::bool::weighted(0.5), 0u8..30, proptest::collection::vec(proptest::collection::vec(prop_oneof![1u32..5, 1u32..200], 1..4), 0..3), proptest::collection::vec((0u32..600, 0u8..8), 0..4)),
        )
            .prop_map(move |((shape, k, values, writers), (early, post, reader_delay, budgets, gc))| ChanCase { shape, kind: KINDS[k], values, writers, early_finish: early && early_ok && shape == 0, post_write_mutation: post && early_ok, reader_delay, budgets, gc })
            .boxed()
    }
    fn fixed_cases(&self, _tier: Tier, f: &Findings) -> Vec<Self::Case> {
        let mut v = vec![];
        for k in KINDS {
            v.push(ChanCase { shape: 0, kind: k, values: vec![vec![1, 2], vec![], vec![3]], writers: 1, early_finish: false, post_write_mutation: !f.is_open("chan-value-lives-in-writer-heap"), reader_delay: 5, budgets: vec![vec![1, 2, 3]], gc: vec![(0, 6), (50, 2), (120, 4)] });
            if !f.is_open("chan-value-lives-in-writer-heap") {
                v.push(ChanCase { shape: 0, kind: k, values: vec![vec![1, 2], vec![3]], writers: 1, early_finish: true, post_write_mutation: true, reader_delay: 0, budgets: vec![], gc: vec![(10, 6)] });
            }
        }
        for w in 1..=4 {
            v.push(ChanCase { shape: 1, kind: Kind::ArrInt, values: vec![vec![]; 3], writers: w, early_finish: false, post_write_mutation: false, reader_delay: 0, budgets: vec![vec![1], vec![2, 5]], gc: vec![(20, 2)] });
        }
        v
    }
    fn judge(&self, c: &Self::Case, env: &mut Env) -> Verdict {
        let (src, exp) = if c.shape == 0 { pipeline(c) } else { (fan_in(c), String::new()) };
        let mut variants: Vec<Variant> = [1000u32, 1, 3].iter().map(|b| Variant { budgets: vec![*b], quarantine: Some(true), ..Variant::sel(0) }).collect();
        for b in &c.budgets {
            variants.push(Variant { budgets: b.clone(), quarantine: Some(true), ..Variant::sel(0) });
        }
        for (start, pace) in &c.gc {
            variants.push(Variant { budgets: vec![1000], gc: Some(GcSpec::StartAt { start: *start, pace: *pace & 6 }), quarantine: Some(true), ..Variant::sel(0) });
            variants.push(Variant { budgets: vec![1], gc: Some(GcSpec::Scripted { script: vec![1, *pace, 0, *pace, 1, 6], tail: *pace | 1 }), quarantine: Some(true), ..Variant::sel(0) });
        }
        let opts = RunOpts { max_steps: 3_000_000, max_calls: 3_000_000, ..RunOpts::default() };
        let outs = try_exec!(env.run_var(&single(src.clone()), "main.abra", &opts, &variants));
        let mut st = CaseStats::one();
        st.evals = outs.len() as u64;
        st.label(format!("kind:{:?}", c.kind));
        st.label(if c.shape == 0 { "shape:pipeline" } else { "shape:fan-in" });
        if c.early_finish {
            st.label("writer-finishes-before-read");
        }
        for (r, v) in outs.iter().zip(variants.iter()) {
            let sched = format!("budgets:{:?} gc:{:?}", v.budgets, v.gc);
            let tag = |f: Failure| {
                let mut f = f.feat(format!("kind:{:?}", c.kind)).feat(format!("sched:{sched}"));
                if c.early_finish {
                    f = f.feat("writer-finished-before-read");
                }
                if c.post_write_mutation {
                    f = f.feat("writer-mutates-after-write");
                }
                f.detail(json!({"src": src, "expected": exp}))
            };
            if let Some(f) = crash_failure(r) {
                return Verdict::Fail(tag(f));
            }
            if let FrontVerdict::Diag(d) = &r.compile {
                return Verdict::Fail(Failure::new("VerdictMismatch", format!("channel program rejected: {}", norm_msg(d.lines().find(|l| !l.trim().is_empty()).unwrap_or("")))).detail(json!({"src": src, "diag": d})));
            }
            if !matches!(r.end, RunEnd::Done) {
                return Verdict::Fail(tag(Failure::new("OutcomeMismatch", format!("channel program did not complete: {}", format!("{:?}", r.end).chars().take(120).collect::<String>()))));
            }
            if c.shape == 0 {
                if r.stdout != exp {
                    let (a, b): (Vec<&str>, Vec<&str>) = (exp.lines().collect(), r.stdout.lines().collect());
                    let i = a.iter().zip(b.iter()).position(|(x, y)| x != y).unwrap_or(a.len().min(b.len()));
                    return Verdict::Fail(tag(Failure::new("ModelMismatch", format!("channel semantics: line {i} expected {:?} got {:?}", a.get(i), b.get(i)))));
                }
            } else if let Err(m) = check_fan_in(c, &r.stdout) {
                return Verdict::Fail(tag(Failure::new("ModelMismatch", m)));
            }
        }
        st.nt(&src);
        st.sample = Some(json!({"src": src, "expected": exp}));
        Verdict::Pass(st)
    }
}

pub fn run(ctx: &mut Ctx) {
    ctx.level = "fault_enumeration".into();
    ctx.assume("freed objects are quarantined and poisoned (hook H3), so a read of a reclaimed value is detected deterministically");
    ctx.assume("pipeline outputs are schedule independent by construction; fan-in outputs are checked as per-writer FIFO + exactly-once");
    ctx.prop(&crate::g::srccase::SrcProp { name: "program" });
    ctx.prop(&Channels);
}
