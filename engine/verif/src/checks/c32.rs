//! C32 — runtime errors report the failing file, line and call stack.
//! Generated call chains (functions, member functions, lambdas, across files) with one failing
//! statement; the expected location list comes from the generator's own line bookkeeping.

use crate::harness::*;
use crate::proto::*;
use crate::try_exec;
use proptest::prelude::*;
use serde::{Deserialize, Serialize};
use serde_json::json;

#[derive(Clone, Debug, Serialize, Deserialize)]
pub struct TraceCase {
    /// frame kinds from the outermost callee to the innermost: 0 function, 1 member function, 2 function that calls through a lambda
    pub frames: Vec<u8>,
    /// index of the first frame that lives in lib1.abra / lib2.abra (frames before live in main.abra)
    pub split1: u8,
    pub split2: u8,
    /// 0 index out of bounds, 1 division by zero, 2 overflow, 3 panic, 4 unwrap of none
    pub failure: u8,
    /// padding lines inserted before each item / statement (comments, blank lines, extra lets)
    pub pads: Vec<u8>,
    pub non_ascii: bool,
}

struct FileBuf {
    name: String,
    text: String,
    line: u32,
}

impl FileBuf {
    fn new(name: &str) -> FileBuf {
        FileBuf { name: name.into(), text: String::new(), line: 1 }
    }
    /// append one line, return its line number
    fn ln(&mut self, s: &str) -> u32 {
        let l = self.line;
        self.text.push_str(s);
        self.text.push('\n');
        self.line += 1 + s.matches('\n').count() as u32;
        l
    }
}

struct Pads<'a> {
    p: &'a [u8],
    i: usize,
    non_ascii: bool,
}

impl<'a> Pads<'a> {
    fn emit(&mut self, f: &mut FileBuf, indent: &str) {
        let k = self.p.get(self.i).copied().unwrap_or(0);
        self.i += 1;
        for j in 0..(k % 4) {
            match (k / 4 + j) % 4 {
                0 => {
                    f.ln("");
                }
                1 => {
                    f.ln(&format!("{indent}// padding {}", if self.non_ascii { "é 日本 😀 λ" } else { "comment" }));
                }
                2 => {
                    f.ln(&format!("{indent}let pad{}_{} = {}", self.i, j, if self.non_ascii { "\"ünï 😀\"" } else { "\"pad\"" }));
                }
                _ => {
                    f.ln(&format!("{indent}/* block {} */", if self.non_ascii { "✓ ✗" } else { "c" }));
                }
            }
        }
    }
}

/// (files, expected user frames innermost first as (file, line, function), expected error tag)
pub fn build(c: &TraceCase) -> (Vec<SrcFile>, Vec<(String, u32, String)>, &'static str) {
    let d = c.frames.len().clamp(1, 6);
    let frames = &c.frames[..d];
    let s1 = (c.split1 as usize).min(d + 1).max(1);
    let s2 = (c.split2 as usize).clamp(s1, d + 1);
    let file_of = |i: usize| if i < s1 { 0 } else if i < s2 { 1 } else { 2 };
    let mut files = vec![FileBuf::new("main.abra"), FileBuf::new("lib1.abra"), FileBuf::new("lib2.abra")];
    let used1 = (0..d).any(|i| file_of(i) == 1);
    let used2 = (0..d).any(|i| file_of(i) == 2);
    if used1 || used2 {
        // main reaches everything it calls directly; lib1 calls into lib2
        if used1 {
            files[0].ln("use lib1");
        }
        if used2 {
            files[0].ln("use lib2");
            files[1].ln("use lib2");
        }
    }
    let mut pads = Pads { p: &c.pads, i: 0, non_ascii: c.non_ascii };
    // expected entries collected per frame: (file, line, function name)
    let mut expected_rev: Vec<(String, u32, String)> = vec![];
    // emit frames innermost first inside each file? order inside a file is irrelevant: emit outermost first
    let call_of = |i: usize, arg: &str| -> String {
        match frames[i] {
            1 => format!("Bx{i}(0).run{i}({arg})"),
            _ => format!("fr{i}({arg})"),
        }
    };
    let (fail_tag, fail_lines): (&'static str, Vec<String>) = match c.failure % 5 {
        0 => ("oob", vec!["let arr = [1, 2]".into(), "arr[n + 5]".into()]),
        1 => ("div0", vec!["let z = n - n".into(), "10 / z".into()]),
        2 => ("overflow", vec!["let big = 9223372036854775807".into(), "big + n".into()]),
        3 => ("panic", vec!["let msg = \"boom\"".into(), "panic(msg)".into()]),
        _ => ("panic", vec!["let o: option<int> = option.none".into(), "o!".into()]),
    };
    let mut entries: Vec<Vec<(String, u32, String)>> = vec![vec![]; d];
    for i in 0..d {
        let fi = file_of(i);
        let fname = files[fi].name.clone();
        let f = &mut files[fi];
        pads.emit(f, "");
        let (open, func_name) = match frames[i] {
            1 => {
                f.ln(&format!("type Bx{i} = {{"));
                f.ln("  v: int");
                f.ln("}");
                f.ln(&format!("extend Bx{i} {{"));
                (format!("  fn run{i}(self, n: int) -> int {{"), format!("run{i}"))
            }
            _ => (format!("fn fr{i}(n: int) -> int {{"), format!("fr{i}")),
        };
        let ind = if frames[i] == 1 { "    " } else { "  " };
        f.ln(&open);
        pads.emit(f, ind);
        if i + 1 == d {
            // innermost: the failing statement, either as the function's last expression or (for the
            // value-producing failures) bound by a `let` that is followed by further lines, so that the
            // failing instruction is the last one of its line and the next instruction belongs to another line
            f.ln(&format!("{ind}{}", fail_lines[0]));
            pads.emit(f, ind);
            let bind = c.failure % 5 != 3 && (c.failure / 5) % 2 == 1;
            let l = if bind {
                let l = f.ln(&format!("{ind}let q = {}", fail_lines[1]));
                pads.emit(f, ind);
                f.ln(&format!("{ind}let q2 = q + 1"));
                f.ln(&format!("{ind}q2"));
                l
            } else {
                f.ln(&format!("{ind}{}", fail_lines[1]))
            };
            entries[i].push((fname.clone(), l, func_name.clone()));
        } else if frames[i] == 2 {
            f.ln(&format!("{ind}let lam = (k: int) -> {{"));
            pads.emit(f, &format!("{ind}  "));
            let l1 = f.ln(&format!("{ind}  let r = {}", call_of(i + 1, "k + 1")));
            f.ln(&format!("{ind}  r + 1"));
            f.ln(&format!("{ind}}}"));
            pads.emit(f, ind);
            let l2 = f.ln(&format!("{ind}let out = lam(n)"));
            f.ln(&format!("{ind}out + 1"));
            // innermost first: the lambda's call site, then this function's call of the lambda
            entries[i].push((fname.clone(), l1, "<lambda>".into()));
            entries[i].push((fname.clone(), l2, func_name.clone()));
        } else {
            let l = f.ln(&format!("{ind}let r = {}", call_of(i + 1, "n + 1")));
            pads.emit(f, ind);
            f.ln(&format!("{ind}r + 1"));
            entries[i].push((fname.clone(), l, func_name.clone()));
        }
        if frames[i] == 1 {
            f.ln("  }");
            f.ln("}");
        } else {
            f.ln("}");
        }
    }
    pads.emit(&mut files[0], "");
    files[0].ln("println(\"start\")");
    pads.emit(&mut files[0], "");
    let lm = files[0].ln(&format!("println({})", call_of(0, "1")));
    files[0].ln("println(\"not reached\")");
    for i in (0..d).rev() {
        expected_rev.extend(entries[i].iter().cloned());
    }
    expected_rev.push(("main.abra".into(), lm, "<main>".into()));
    let srcs = files.into_iter().filter(|f| !f.text.is_empty()).map(|f| SrcFile { path: f.name, text: f.text }).collect();
    (srcs, expected_rev, fail_tag)
}

pub fn parse_traceback(rendered: &str) -> Vec<(String, u32, String)> {
    let mut out = vec![];
    let mut in_tb = false;
    for l in rendered.lines() {
        if l.trim() == "[traceback]" {
            in_tb = true;
            continue;
        }
        if !in_tb {
            continue;
        }
        let t = l.trim();
        let Some((loc, rest)) = t.split_once(" in `") else { continue };
        let loc = loc.trim();
        let Some((file, line)) = loc.rsplit_once(':') else { continue };
        out.push((file.to_string(), line.trim().parse().unwrap_or(0), rest.trim_end_matches('`').to_string()));
    }
    out
}

pub struct Tracebacks;

impl Prop for Tracebacks {
    type Case = TraceCase;
    fn name(&self) -> &'static str {
        "tracebacks"
    }
    fn rule(&self) -> &'static str {
        "one case = a call chain of depth 1..6 through functions, member functions and lambdas spread over 1..3 files, padded with generated comments / blank lines / extra statements (optionally non-ASCII), ending in one failing statement (index out of bounds, division by zero, overflow, panic, `!` on none; as the function's last expression or bound by a `let` with further statements after it); run with the optimizer on and off and at budgets 1000 and 1; the rendered error must have the expected kind and its traceback (prelude frames dropped) must equal the generator's list of (file, line, function) innermost first ending in <main>; non-trivial = depth >= 2 and the failing line is not line 1; distinct by case"
    }
    fn n_cases(&self, tier: Tier) -> u32 {
        tier.pick(2500, 40000)
    }
    fn strategy(&self, _tier: Tier, _f: &Findings) -> BoxedStrategy<Self::Case> {
        (proptest::collection::vec(0u8..3, 1..=6), 1u8..8, 1u8..8, 0u8..10, proptest::collection::vec(any::<u8>(), 0..40), any::<bool>())
            .prop_map(|(frames, split1, split2, failure, pads, non_ascii)| TraceCase { frames, split1, split2, failure, pads, non_ascii })
            .boxed()
    }
    fn judge(&self, c: &Self::Case, env: &mut Env) -> Verdict {
        let (files, expected, tag) = build(c);
        let variants = vec![
            Variant { optimizer_off: Some(false), budgets: vec![1000], ..Variant::sel(0) },
            Variant { optimizer_off: Some(true), budgets: vec![1000], ..Variant::sel(0) },
            Variant { optimizer_off: Some(false), budgets: vec![1], ..Variant::sel(0) },
        ];
        let outs = try_exec!(env.run_var(&files, "main.abra", &RunOpts::default(), &variants));
        let mut st = CaseStats::one();
        st.evals = outs.len() as u64;
        st.label(format!("depth:{}", c.frames.len()));
        st.label(format!("failure:{}", c.failure % 5));
        st.label(format!("files:{}", files.len()));
        if c.non_ascii {
            st.label("non-ascii");
        }
        for (r, v) in outs.iter().zip(variants.iter()) {
            let sched = format!("optimizer_off:{:?} budgets:{:?}", v.optimizer_off, v.budgets);
            if let Some(f) = crash_failure(r) {
                return Verdict::Fail(f.feat(sched).detail(json!({"files": files})));
            }
            if let FrontVerdict::Diag(d) = &r.compile {
                return Verdict::Fail(Failure::new("VerdictMismatch", format!("traceback program rejected: {}", norm_msg(d.lines().find(|l| !l.trim().is_empty()).unwrap_or("")))).detail(json!({"files": files, "diag": d})));
            }
            let RunEnd::Error { kind, rendered } = &r.end else {
                return Verdict::Fail(Failure::new("OutcomeMismatch", format!("expected a runtime error, got {:?}", r.end).chars().take(200).collect::<String>()).detail(json!({"files": files})));
            };
            if kind.tag() != tag {
                return Verdict::Fail(Failure::new("OutcomeMismatch", format!("expected error kind {tag}, got {}", kind.tag())).feat(sched).detail(json!({"files": files, "rendered": rendered})));
            }
            let got: Vec<(String, u32, String)> = parse_traceback(rendered).into_iter().filter(|e| e.0 != "prelude.abra").collect();
            if got != expected {
                let i = got.iter().zip(expected.iter()).position(|(a, b)| a != b).unwrap_or(got.len().min(expected.len()));
                return Verdict::Fail(
                    Failure::new("OutcomeMismatch", format!("traceback entry {i}: expected {:?}, got {:?}", expected.get(i), got.get(i)))
                        .feat(sched)
                        .feat(if c.non_ascii { "non-ascii" } else { "ascii" })
                        .detail(json!({"files": files, "expected": expected, "rendered": rendered})),
                );
            }
        }
        if c.frames.len() >= 2 && expected[0].1 != 1 {
            st.nt(&(files.clone(), c.failure));
            st.sample = Some(json!({"files": files, "expected_traceback": expected}));
        }
        Verdict::Pass(st)
    }
}

pub fn run(ctx: &mut Ctx) {
    ctx.assume("expected locations come from the generator's own line counter; for failures raised inside the prelude (`!`) only the user frames are compared");
    ctx.prop(&crate::g::srccase::SrcProp { name: "program" });
    ctx.prop(&Tracebacks);
}
