//! Code that runs INSIDE the libFuzzer targets of `engine/fuzz` (one function per target), plus the
//! byte -> case decoders shared with the checks that re-judge the saved inputs. A target aborts the
//! process when its oracle fails, which makes libFuzzer save the input.

use crate::checks::c04::front_phase;
use crate::checks::c37::{MAX_OPS, SOp, SetCase};
use crate::checks::c38::{ALIGNS, Al, ArenaCase, MAX_ALLOCS, SIZES};
use crate::proto::*;
use crate::worker;
use std::sync::Once;

static INIT: Once = Once::new();

/// libfuzzer-sys installs a panic hook that aborts on ANY panic; the oracles here catch panics and
/// decide themselves, so replace it with the worker's recording hook.
pub fn init() {
    INIT.call_once(worker::install_panic_hook);
}

fn on_big_stack<T: Send + 'static>(f: impl FnOnce() -> T + Send + 'static) -> T {
    std::thread::Builder::new().stack_size(512 << 20).spawn(f).expect("spawn").join().expect("target thread")
}

fn die(what: &str) -> ! {
    eprintln!("VERIF-FUZZ oracle failed: {what}");
    std::process::abort()
}

pub fn text_of(data: &[u8]) -> String {
    String::from_utf8_lossy(data).into_owned()
}

/// C04: compile_bytecode answers Ok or non-empty diagnostics; no panic in the front end.
pub fn compile(data: &[u8]) {
    init();
    let text = text_of(data);
    let v = on_big_stack(move || worker::front_compile(&single(text), "main.abra"));
    match v {
        FrontVerdict::Panic(p) if front_phase(&p.file) != "backend" => die(&format!("front-end panic: {} at {}:{}", p.msg, p.file, p.line)),
        FrontVerdict::Diag(d) if d.trim().is_empty() => die("compilation failed without any diagnostic"),
        _ => {}
    }
}

/// C34: analysis and every query at every offset return without panicking.
pub fn lsp(data: &[u8]) {
    init();
    let text = text_of(data);
    let r = on_big_stack(move || worker::exec_lsp(&single(text), "main.abra", true, &[], false));
    if let Some(p) = r.analysis_panic {
        die(&format!("analysis panic: {} at {}:{}", p.msg, p.file, p.line));
    }
    if let Some((_f, off, kind, p)) = r.query_panic {
        die(&format!("{kind} query at offset {off} panicked: {} at {}:{}", p.msg, p.file, p.line));
    }
}

struct Rd<'a> {
    d: &'a [u8],
    i: usize,
}

impl Rd<'_> {
    fn u8(&mut self) -> Option<u8> {
        let b = *self.d.get(self.i)?;
        self.i += 1;
        Some(b)
    }
    fn u16(&mut self) -> Option<u16> {
        Some(u16::from_le_bytes([self.u8()?, self.u8()?]))
    }
}

/// C37: bytes -> operation sequence (total: every byte string decodes, trailing partial ops are dropped)
pub fn idset_case(data: &[u8]) -> SetCase {
    let mut r = Rd { d: data, i: 0 };
    let ty = r.u8().unwrap_or(0) % 3;
    let mut ops = vec![];
    while ops.len() < MAX_OPS {
        let Some(k) = r.u8() else { break };
        let op = (|| {
            Some(match k % 13 {
                0 => SOp::New { dflt: r.u8()? & 1 == 1 },
                1 | 12 => SOp::Insert { s: r.u8()? % 6, v: r.u8()? },
                2 => {
                    let s = r.u8()?;
                    SOp::Lookup { s: s % 6, v: r.u8()?, probe: s & 0x80 != 0 }
                }
                3 => {
                    let s = r.u8()?;
                    SOp::Index { s: s % 6, id: r.u16()?, oob: s & 0xC0 == 0xC0 }
                }
                4 => {
                    let s = r.u8()?;
                    SOp::IndexMut { s: s % 6, id: r.u16()?, oob: s & 0xC0 == 0xC0 }
                }
                5 => {
                    let s = r.u8()?;
                    SOp::Iter { s: s % 6, by_ref: s & 0x80 != 0 }
                }
                6 => SOp::Debug { s: r.u8()? % 6 },
                7 => SOp::Len { s: r.u8()? % 6 },
                8 => SOp::Clear { s: r.u8()? % 6 },
                9 => SOp::Clone { s: r.u8()? % 6 },
                10 => SOp::Drop { s: r.u8()? % 6 },
                _ => {
                    let s = r.u8()?;
                    let take = if s & 0x80 != 0 { Some(r.u8()?) } else { None };
                    SOp::IntoIter { s: s % 6, take }
                }
            })
        })();
        match op {
            Some(o) => ops.push(o),
            None => break,
        }
    }
    SetCase { ty, ops }
}

/// C38: bytes -> constructor + allocation sequence
pub fn arena_case(data: &[u8]) -> ArenaCase {
    let mut r = Rd { d: data, i: 0 };
    let ctor = r.u8().unwrap_or(0) % 6;
    let mut allocs = vec![];
    while allocs.len() < MAX_ALLOCS {
        let Some(b) = r.u8() else { break };
        allocs.push(Al { size: SIZES[(b & 0x0f) as usize % SIZES.len()], align: ALIGNS[(b >> 4) as usize % ALIGNS.len()] });
    }
    ArenaCase { ctor, allocs }
}
