//! Wire types between coordinator and worker subprocesses (serde_json lines).

use serde::{Deserialize, Serialize};

#[derive(Serialize, Deserialize, Clone, Debug, PartialEq, Eq, Hash)]
pub struct SrcFile {
    pub path: String,
    pub text: String,
}

pub fn single(text: impl Into<String>) -> Vec<SrcFile> {
    vec![SrcFile { path: "main.abra".into(), text: text.into() }]
}

#[derive(Serialize, Deserialize, Clone, Debug, PartialEq, Eq, Hash, Default)]
pub enum GcSpec {
    #[default]
    Default,
    Disabled,
    Scripted { script: Vec<u8>, tail: u8 },
    /// start a cycle at the `start`-th maybe_gc call, then use `pace` for every later call
    StartAt { start: u32, pace: u8 },
}

#[derive(Serialize, Deserialize, Clone, Copy, Debug, PartialEq, Eq, Hash, Default)]
pub enum FinalKind {
    #[default]
    None,
    Int,
    Float,
    Bool,
    Str,
}

#[derive(Serialize, Deserialize, Clone, Debug, PartialEq, Eq, Hash)]
pub enum ScalarTy {
    Int,
    Float,
    Bool,
    Str,
    Void,
}

#[derive(Serialize, Deserialize, Clone, Debug, PartialEq)]
pub enum Scalar {
    Int(i64),
    Float(u64), // bits
    Bool(bool),
    Str(String),
    Void,
}

/// A user-declared `#host` function the runner must service.
#[derive(Serialize, Deserialize, Clone, Debug, PartialEq)]
pub struct HostDecl {
    pub name: String,
    pub args: Vec<ScalarTy>,
    pub ret: ScalarTy,
    /// values returned on successive calls (cycled); must match `ret`
    pub returns: Vec<Scalar>,
}

#[derive(Serialize, Deserialize, Clone, Debug, PartialEq)]
pub struct RunOpts {
    /// step budgets for successive run_n_steps calls (cycled). Empty = [1000].
    pub budgets: Vec<u32>,
    /// extra run_n_steps calls made before servicing each pending host call (cycled)
    pub delays: Vec<u8>,
    pub optimizer_off: bool,
    pub gc: GcSpec,
    pub quarantine: bool,
    /// cap on total instructions (sum of steps_consumed)
    pub max_steps: u64,
    /// cap on run_n_steps calls
    pub max_calls: u64,
    pub readline: Vec<String>,
    pub args: Vec<String>,
    pub want_final: FinalKind,
    /// record (budget, status, steps_consumed) for each call (first 4096)
    pub record_calls: bool,
    pub host: Vec<HostDecl>,
    /// extra run_n_steps calls made after the end state was first reported (C11 persistence)
    pub extra_calls_after_end: u8,
}

impl Default for RunOpts {
    fn default() -> Self {
        RunOpts {
            budgets: vec![1000],
            delays: vec![],
            optimizer_off: false,
            gc: GcSpec::Default,
            quarantine: false,
            max_steps: 20_000_000,
            max_calls: 5_000_000,
            readline: vec![],
            args: vec![],
            want_final: FinalKind::None,
            record_calls: false,
            host: vec![],
            extra_calls_after_end: 0,
        }
    }
}

#[derive(Serialize, Deserialize, Clone, Debug, PartialEq)]
pub struct Variant {
    pub sel: i64,
    /// empty = keep the base budgets
    pub budgets: Vec<u32>,
    pub gc: Option<GcSpec>,
    pub quarantine: Option<bool>,
    pub optimizer_off: Option<bool>,
    #[serde(default)]
    pub delays: Option<Vec<u8>>,
}

impl Variant {
    pub fn sel(sel: i64) -> Variant {
        Variant { sel, budgets: vec![], gc: None, quarantine: None, optimizer_off: None, delays: None }
    }
}

#[derive(Serialize, Deserialize, Clone, Debug, PartialEq)]
pub struct PanicInfo {
    pub msg: String,
    pub file: String,
    pub line: u32,
}

#[derive(Serialize, Deserialize, Clone, Debug, PartialEq)]
pub enum FrontVerdict {
    Ok,
    /// rendered diagnostics (ErrorSummary Display)
    Diag(String),
    Panic(PanicInfo),
    NotRun,
}

impl FrontVerdict {
    pub fn is_ok(&self) -> bool {
        matches!(self, FrontVerdict::Ok)
    }
    pub fn is_diag(&self) -> bool {
        matches!(self, FrontVerdict::Diag(_))
    }
    pub fn is_panic(&self) -> bool {
        matches!(self, FrontVerdict::Panic(_))
    }
}

#[derive(Serialize, Deserialize, Clone, Debug, PartialEq)]
pub enum ErrKind {
    Panic(String),
    ArrayOutOfBounds,
    IntegerOverflow,
    DivisionByZero,
    /// anything else reported through MainThreadError (internal)
    Other(String),
}

impl ErrKind {
    pub fn tag(&self) -> &'static str {
        match self {
            ErrKind::Panic(_) => "panic",
            ErrKind::ArrayOutOfBounds => "oob",
            ErrKind::IntegerOverflow => "overflow",
            ErrKind::DivisionByZero => "div0",
            ErrKind::Other(_) => "other",
        }
    }
}

#[derive(Serialize, Deserialize, Clone, Debug, PartialEq)]
pub enum RunEnd {
    Done,
    Error { kind: ErrKind, rendered: String },
    /// step or call cap reached
    Cap,
    /// Rust panic inside the VM or the runner (includes fail() internal errors and VERIF-UAF)
    HostPanic(PanicInfo),
    /// not run because compilation did not succeed
    NotRun,
}

#[derive(Serialize, Deserialize, Clone, Debug, PartialEq)]
pub struct CallRec {
    pub budget: u32,
    /// D done, H pending host, O out of steps, E error
    pub status: char,
    pub consumed: u32,
}

#[derive(Serialize, Deserialize, Clone, Debug, PartialEq)]
pub struct HostCallRec {
    pub name: String,
    pub args: Vec<Scalar>,
}

#[derive(Serialize, Deserialize, Clone, Debug, PartialEq, Default)]
pub struct RunStats {
    pub gc_calls: u64,
    pub cycles_started: u64,
    pub cycles_completed: u64,
    pub objects_freed: u64,
    pub peak_heap: u64,
    pub main_stack_len: u64,
    pub main_live_objects: u64,
    pub main_heap_size: u64,
    /// bytes allocated by the process between creating the runtime and the end of the run, still live at the
    /// end (the runtime not yet dropped): everything every task of the runtime still holds, plus the run's log
    #[serde(default)]
    pub runtime_live_bytes: i64,
}

#[derive(Serialize, Deserialize, Clone, Debug, PartialEq)]
pub struct RunOut {
    pub compile: FrontVerdict,
    pub end: RunEnd,
    pub stdout: String,
    pub stderr: String,
    pub final_value: Option<Scalar>,
    pub steps: u64,
    pub calls: u64,
    pub call_log: Vec<CallRec>,
    pub host_log: Vec<HostCallRec>,
    /// statuses observed on the extra calls after the end
    pub after_end: Vec<char>,
    pub stats: RunStats,
}

#[derive(Serialize, Deserialize, Clone, Debug, PartialEq)]
pub struct DiagOut {
    pub message: String,
    pub file: String,
    pub start: usize,
    pub end: usize,
    pub secondary: Vec<(String, usize, usize, String)>,
}

#[derive(Serialize, Deserialize, Clone, Debug, PartialEq)]
pub enum LspQueryKind {
    Definition,
    Type,
    Completions,
}

#[derive(Serialize, Deserialize, Clone, Debug, PartialEq)]
pub struct LspAnswer {
    pub file: String,
    pub offset: usize,
    /// (file, start, end)
    pub definition: Option<(String, usize, usize)>,
    pub ty: Option<String>,
    pub completions: Vec<String>,
}

#[derive(Serialize, Deserialize, Clone, Debug, PartialEq)]
pub struct LspOut {
    /// panic in check_lsp / errors()
    pub analysis_panic: Option<PanicInfo>,
    pub diags: Vec<DiagOut>,
    /// first query that panicked: (file, offset, kind, info)
    pub query_panic: Option<(String, usize, String, PanicInfo)>,
    pub queries_run: u64,
    pub answers: Vec<LspAnswer>,
}

#[derive(Serialize, Deserialize, Clone, Debug, PartialEq)]
pub enum Req {
    Ping,
    Run { files: Vec<SrcFile>, main: String, opts: RunOpts },
    /// compile once, run once per selector (host fn `verif_sel() -> int` returns it)
    RunMany { files: Vec<SrcFile>, main: String, opts: RunOpts, selectors: Vec<i64> },
    /// compile once, then one fresh runtime per variant (selector + overrides of the base opts)
    RunVar { files: Vec<SrcFile>, main: String, opts: RunOpts, variants: Vec<Variant> },
    /// check and/or compile only
    Front { files: Vec<SrcFile>, main: String, check: bool, compile: bool },
    /// check_lsp + errors(); optionally queries. `all_offsets`: every byte offset 0..=len(+1) of every user file
    Lsp { files: Vec<SrcFile>, main: String, all_offsets: bool, points: Vec<(String, usize)>, want_answers: bool },
    /// check-specific request executed by checks::worker_custom
    Custom { check: String, payload: serde_json::Value },
}

#[derive(Serialize, Deserialize, Clone, Debug, PartialEq)]
pub enum Resp {
    Pong,
    Run(RunOut),
    RunMany(Vec<RunOut>),
    Front { check: FrontVerdict, compile: FrontVerdict },
    Lsp(LspOut),
    Custom(serde_json::Value),
    /// the worker itself caught a panic outside any instrumented region
    WorkerPanic(PanicInfo),
}
