//! verif: property-based verification engine for anandrav/abra.
//!   verif check <ID> [--tier quick|thorough]
//!   verif replay <ID> <file>
//!   verif worker            (internal)

use verif::harness::{Ctx, Mode, Tier};
use verif::{alloc_count, checks, proto, worker};

#[global_allocator]
static GLOBAL: alloc_count::Counting = alloc_count::Counting;

fn usage() -> ! {
    eprintln!("usage: verif check <ID> [--tier quick|thorough] | verif replay <ID> <file> | verif list");
    std::process::exit(2)
}

fn main() {
    let args: Vec<String> = std::env::args().collect();
    if args.len() < 2 {
        usage();
    }
    match args[1].as_str() {
        "worker" => worker::worker_main(),
        "skel" => {
            let n: u16 = args.get(2).and_then(|s| s.parse().ok()).unwrap_or(1);
            print!("{}", checks::c03::dump_example(n));
        }
        "lspdump" => {
            // debugging aid: print definition/type answers at the start of every identifier
            let text = std::fs::read_to_string(&args[2]).expect("read");
            worker::install_panic_hook();
            let files = proto::single(text.clone());
            let mut pts = vec![];
            let b = text.as_bytes();
            for i in 0..b.len() {
                let is_id = |c: u8| c.is_ascii_alphanumeric() || c == b'_';
                if is_id(b[i]) && (i == 0 || !is_id(b[i - 1])) {
                    pts.push(("main.abra".to_string(), i));
                }
            }
            let out = worker::exec_lsp(&files, "main.abra", false, &pts, true);
            for a in out.answers {
                let end = (a.offset..text.len()).find(|j| !(b[*j].is_ascii_alphanumeric() || b[*j] == b'_')).unwrap_or(text.len());
                println!("{:4} {:12} def={:?} type={:?}", a.offset, &text[a.offset..end], a.definition.map(|d| (d.1, d.2)), a.ty);
            }
        }
        "list" => {
            for id in checks::ids() {
                println!("{id}");
            }
        }
        "check" | "replay" => {
            if args.len() < 3 {
                usage();
            }
            let id = args[2].clone();
            let mut tier = match std::env::var("VERIF_TIER").ok().as_deref() {
                Some("thorough") => Tier::Thorough,
                _ => Tier::Quick,
            };
            let mut i = 3;
            let mut file = None;
            while i < args.len() {
                match args[i].as_str() {
                    "--tier" => {
                        i += 1;
                        tier = match args.get(i).map(|s| s.as_str()) {
                            Some("thorough") => Tier::Thorough,
                            Some("quick") => Tier::Quick,
                            _ => usage(),
                        };
                    }
                    s => file = Some(s.to_string()),
                }
                i += 1;
            }
            let seed: u64 = std::env::var("VERIF_SEED").ok().and_then(|s| s.trim().parse::<i128>().ok()).map(|v| v as u64).unwrap_or(1);
            let mode = if args[1] == "replay" {
                let Some(f) = file else { usage() };
                let body = std::fs::read_to_string(&f).unwrap_or_else(|e| {
                    eprintln!("HARNESS-ERROR cannot read {f}: {e}");
                    std::process::exit(2)
                });
                let v: serde_json::Value = serde_json::from_str(&body).unwrap_or_else(|e| {
                    eprintln!("HARNESS-ERROR cannot parse {f}: {e}");
                    std::process::exit(2)
                });
                Mode::Replay { sub: v.get("sub").and_then(|s| s.as_str()).map(|s| s.to_string()), case: v.get("case").cloned().unwrap_or(serde_json::Value::Null), path: f }
            } else {
                Mode::Search
            };
            // quiet panics in the coordinator's own threads are still bugs: keep default hook here
            let mut ctx = Ctx::new(&id, tier, seed, mode);
            if !checks::run(&id, &mut ctx) {
                eprintln!("HARNESS-ERROR unknown check id {id}");
                std::process::exit(2);
            }
            std::process::exit(ctx.finish());
        }
        _ => usage(),
    }
}
