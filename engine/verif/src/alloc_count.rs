//! Counting global allocator (worker side evidence for C07: live heap bytes of the process).
use std::alloc::{GlobalAlloc, Layout, System};
use std::sync::atomic::{AtomicI64, AtomicU64, Ordering};

pub struct Counting;

pub static LIVE_BYTES: AtomicI64 = AtomicI64::new(0);
pub static LIVE_BLOCKS: AtomicI64 = AtomicI64::new(0);
pub static TOTAL_ALLOCS: AtomicU64 = AtomicU64::new(0);

unsafe impl GlobalAlloc for Counting {
    unsafe fn alloc(&self, layout: Layout) -> *mut u8 {
        let p = unsafe { System.alloc(layout) };
        if !p.is_null() {
            LIVE_BYTES.fetch_add(layout.size() as i64, Ordering::Relaxed);
            LIVE_BLOCKS.fetch_add(1, Ordering::Relaxed);
            TOTAL_ALLOCS.fetch_add(1, Ordering::Relaxed);
        }
        p
    }
    unsafe fn dealloc(&self, ptr: *mut u8, layout: Layout) {
        LIVE_BYTES.fetch_sub(layout.size() as i64, Ordering::Relaxed);
        LIVE_BLOCKS.fetch_sub(1, Ordering::Relaxed);
        unsafe { System.dealloc(ptr, layout) }
    }
    unsafe fn realloc(&self, ptr: *mut u8, layout: Layout, new_size: usize) -> *mut u8 {
        let p = unsafe { System.realloc(ptr, layout, new_size) };
        if !p.is_null() {
            LIVE_BYTES.fetch_add(new_size as i64 - layout.size() as i64, Ordering::Relaxed);
        }
        p
    }
}

pub fn live() -> (i64, i64) {
    (LIVE_BYTES.load(Ordering::Relaxed), LIVE_BLOCKS.load(Ordering::Relaxed))
}
