//! Coordinator side: a handle to one long-lived worker subprocess.

use crate::proto::{Req, Resp};
use std::collections::VecDeque;
use std::io::{BufRead, BufReader, Write};
use std::process::{Child, ChildStdin, Command, Stdio};
use std::sync::mpsc::{Receiver, RecvTimeoutError, channel};
use std::sync::{Arc, Mutex};
use std::time::Duration;

#[derive(Debug, Clone)]
pub enum WorkerFail {
    /// worker process died while handling the request
    Died { status: String, stderr_tail: String },
    /// per-case watchdog expired (never a violation)
    Timeout,
}

pub struct Worker {
    child: Option<Child>,
    stdin: Option<ChildStdin>,
    rx: Option<Receiver<String>>,
    stderr_tail: Arc<Mutex<VecDeque<String>>>,
    pub respawns: u64,
    pub requests: u64,
    pub watchdog: Duration,
}

impl Worker {
    pub fn new() -> Worker {
        let mut w = Worker {
            child: None,
            stdin: None,
            rx: None,
            stderr_tail: Arc::new(Mutex::new(VecDeque::new())),
            respawns: 0,
            requests: 0,
            watchdog: Duration::from_secs(60),
        };
        w.spawn();
        w
    }

    fn spawn(&mut self) {
        let exe = std::env::current_exe().expect("current_exe");
        let mut child = Command::new(exe)
            .arg("worker")
            .stdin(Stdio::piped())
            .stdout(Stdio::piped())
            .stderr(Stdio::piped())
            .env("RUST_BACKTRACE", "0")
            .spawn()
            .expect("spawn worker");
        let stdin = child.stdin.take().unwrap();
        let stdout = child.stdout.take().unwrap();
        let stderr = child.stderr.take().unwrap();
        let (tx, rx) = channel::<String>();
        std::thread::spawn(move || {
            let mut r = BufReader::new(stdout);
            loop {
                let mut line = String::new();
                match r.read_line(&mut line) {
                    Ok(0) | Err(_) => break,
                    Ok(_) => {
                        if tx.send(line).is_err() {
                            break;
                        }
                    }
                }
            }
        });
        let tail = Arc::new(Mutex::new(VecDeque::new()));
        let tail2 = tail.clone();
        std::thread::spawn(move || {
            let r = BufReader::new(stderr);
            for line in r.lines() {
                let Ok(line) = line else { break };
                let mut t = tail2.lock().unwrap();
                t.push_back(line);
                while t.len() > 30 {
                    t.pop_front();
                }
            }
        });
        self.stderr_tail = tail;
        self.child = Some(child);
        self.stdin = Some(stdin);
        self.rx = Some(rx);
    }

    fn kill(&mut self) -> String {
        let mut status = String::from("unknown");
        self.stdin = None;
        if let Some(mut c) = self.child.take() {
            // give a dying process a moment to be reaped so we get its real status
            for _ in 0..50 {
                match c.try_wait() {
                    Ok(Some(s)) => {
                        status = format!("{s}");
                        break;
                    }
                    _ => std::thread::sleep(Duration::from_millis(2)),
                }
            }
            let _ = c.kill();
            if let Ok(s) = c.wait() {
                if status == "unknown" {
                    status = format!("{s} (killed)");
                }
            }
        }
        self.rx = None;
        status
    }

    pub fn call(&mut self, req: &Req) -> Result<Resp, WorkerFail> {
        if self.child.is_none() {
            self.spawn();
        }
        self.requests += 1;
        let mut line = serde_json::to_string(req).expect("serialize request");
        line.push('\n');
        let write_ok = self.stdin.as_mut().map(|s| s.write_all(line.as_bytes()).and_then(|_| s.flush()).is_ok()).unwrap_or(false);
        if !write_ok {
            let status = self.kill();
            let tail = self.take_tail();
            self.respawns += 1;
            self.spawn();
            return Err(WorkerFail::Died { status, stderr_tail: tail });
        }
        match self.rx.as_ref().unwrap().recv_timeout(self.watchdog) {
            Ok(l) => match serde_json::from_str::<Resp>(&l) {
                Ok(r) => Ok(r),
                Err(e) => {
                    let status = self.kill();
                    self.respawns += 1;
                    self.spawn();
                    Err(WorkerFail::Died { status: format!("bad response ({e}); {status}"), stderr_tail: l.chars().take(300).collect() })
                }
            },
            Err(RecvTimeoutError::Timeout) => {
                self.kill();
                self.respawns += 1;
                self.spawn();
                Err(WorkerFail::Timeout)
            }
            Err(RecvTimeoutError::Disconnected) => {
                std::thread::sleep(Duration::from_millis(20));
                let status = self.kill();
                let tail = self.take_tail();
                self.respawns += 1;
                self.spawn();
                Err(WorkerFail::Died { status, stderr_tail: tail })
            }
        }
    }

    fn take_tail(&mut self) -> String {
        let t = self.stderr_tail.lock().unwrap();
        t.iter().cloned().collect::<Vec<_>>().join("\n")
    }
}

impl Drop for Worker {
    fn drop(&mut self) {
        self.stdin = None;
        if let Some(mut c) = self.child.take() {
            let _ = c.kill();
            let _ = c.wait();
        }
    }
}
