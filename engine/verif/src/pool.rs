//! Coordinator side: a handle to one long-lived worker subprocess.

use crate::proto::{Req, Resp};
use std::collections::VecDeque;
use std::io::{BufRead, BufReader, Write};
use std::path::PathBuf;
use std::process::{Child, ChildStdin, Command, Stdio};
use std::sync::mpsc::{Receiver, RecvTimeoutError, channel};
use std::sync::{Arc, Mutex};
use std::time::Duration;

#[derive(Debug, Clone)]
pub enum WorkerFail {
    /// worker process died while handling the request
    Died { status: String, stderr_tail: String },
    /// per-case watchdog expired (never a violation)
    Timeout,
}

pub struct Worker {
    child: Option<Child>,
    stdin: Option<ChildStdin>,
    rx: Option<Receiver<String>>,
    stderr_tail: Arc<Mutex<VecDeque<String>>>,
    stderr_pins: Arc<Mutex<Vec<String>>>,
    stderr_done: Arc<std::sync::atomic::AtomicBool>,
    /// None = this executable with the argument `worker`; Some = another binary (auxiliary worker)
    cmd: Option<(PathBuf, Vec<String>)>,
    envs: Vec<(String, String)>,
    pub respawns: u64,
    pub requests: u64,
    pub watchdog: Duration,
}

impl Worker {
    pub fn new() -> Worker {
        let mut w = Worker {
            child: None,
            stdin: None,
            rx: None,
            stderr_tail: Arc::new(Mutex::new(VecDeque::new())),
            stderr_pins: Arc::new(Mutex::new(Vec::new())),
            stderr_done: Arc::new(std::sync::atomic::AtomicBool::new(true)),
            cmd: None,
            envs: vec![],
            respawns: 0,
            requests: 0,
            watchdog: Duration::from_secs(60),
        };
        w.spawn();
        w
    }

    /// A worker running another binary that speaks one-JSON-line-per-request (see `call_raw`).
    /// It is spawned lazily on the first call, so `env` can still be applied.
    pub fn with_command(path: impl Into<PathBuf>, args: &[&str]) -> Worker {
        Worker {
            child: None,
            stdin: None,
            rx: None,
            stderr_tail: Arc::new(Mutex::new(VecDeque::new())),
            stderr_pins: Arc::new(Mutex::new(Vec::new())),
            stderr_done: Arc::new(std::sync::atomic::AtomicBool::new(true)),
            cmd: Some((path.into(), args.iter().map(|s| s.to_string()).collect())),
            envs: vec![],
            respawns: 0,
            requests: 0,
            watchdog: Duration::from_secs(60),
        }
    }

    /// Extra environment variable for the subprocess (effective from the next spawn).
    pub fn env(mut self, k: &str, v: &str) -> Worker {
        self.envs.push((k.to_string(), v.to_string()));
        self
    }

    fn spawn(&mut self) {
        let (exe, args) = match &self.cmd {
            Some((p, a)) => (p.clone(), a.clone()),
            None => {
                // if the binary was rebuilt while this coordinator runs, /proc/self/exe reads "<path> (deleted)":
                // the rebuilt binary at the same path speaks the same protocol
                let exe = std::env::current_exe().expect("current_exe");
                let exe = match exe.to_str().and_then(|s| s.strip_suffix(" (deleted)")) {
                    Some(s) => std::path::PathBuf::from(s),
                    None => exe,
                };
                (exe, vec!["worker".to_string()])
            }
        };
        let mut child = Command::new(&exe)
            .args(&args)
            .envs(self.envs.iter().map(|(k, v)| (k.as_str(), v.as_str())))
            .stdin(Stdio::piped())
            .stdout(Stdio::piped())
            .stderr(Stdio::piped())
            .env("RUST_BACKTRACE", "0")
            .spawn()
            .unwrap_or_else(|e| panic!("spawn worker {}: {e}", exe.display()));
        let stdin = child.stdin.take().unwrap();
        let stdout = child.stdout.take().unwrap();
        let stderr = child.stderr.take().unwrap();
        let (tx, rx) = channel::<String>();
        std::thread::spawn(move || {
            let mut r = BufReader::new(stdout);
            loop {
                let mut line = String::new();
                match r.read_line(&mut line) {
                    Ok(0) | Err(_) => break,
                    Ok(_) => {
                        if tx.send(line).is_err() {
                            break;
                        }
                    }
                }
            }
        });
        let tail = Arc::new(Mutex::new(VecDeque::new()));
        let tail2 = tail.clone();
        let pins = Arc::new(Mutex::new(Vec::new()));
        let pins2 = pins.clone();
        let done = Arc::new(std::sync::atomic::AtomicBool::new(false));
        let done2 = done.clone();
        std::thread::spawn(move || {
            let r = BufReader::new(stderr);
            for line in r.lines() {
                let Ok(line) = line else { break };
                let mut t = tail2.lock().unwrap();
                // the headline of a sanitizer report comes long before its last 30 lines: pin it
                if line.contains("AddressSanitizer") {
                    let mut p = pins2.lock().unwrap();
                    if p.len() < 4 {
                        p.push(line.clone());
                    }
                }
                t.push_back(line);
                while t.len() > 30 {
                    t.pop_front();
                }
            }
            done2.store(true, std::sync::atomic::Ordering::SeqCst);
        });
        self.stderr_done = done;
        self.stderr_tail = tail;
        self.stderr_pins = pins;
        self.child = Some(child);
        self.stdin = Some(stdin);
        self.rx = Some(rx);
    }

    fn kill(&mut self) -> String {
        let mut status = String::from("unknown");
        self.stdin = None;
        if let Some(mut c) = self.child.take() {
            // give a dying process a moment to be reaped so we get its real status
            for _ in 0..50 {
                match c.try_wait() {
                    Ok(Some(s)) => {
                        status = format!("{s}");
                        break;
                    }
                    _ => std::thread::sleep(Duration::from_millis(2)),
                }
            }
            let _ = c.kill();
            if let Ok(s) = c.wait() {
                if status == "unknown" {
                    status = format!("{s} (killed)");
                }
            }
        }
        self.rx = None;
        status
    }

    pub fn call(&mut self, req: &Req) -> Result<Resp, WorkerFail> {
        let line = serde_json::to_string(req).expect("serialize request");
        let l = self.call_raw(&line)?;
        match serde_json::from_str::<Resp>(&l) {
            Ok(r) => Ok(r),
            Err(e) => {
                let status = self.kill();
                self.respawns += 1;
                self.spawn();
                Err(WorkerFail::Died { status: format!("bad response ({e}); {status}"), stderr_tail: l.chars().take(300).collect() })
            }
        }
    }

    /// Send one line (without the newline), return the response line.
    pub fn call_raw(&mut self, request: &str) -> Result<String, WorkerFail> {
        if self.child.is_none() {
            self.spawn();
        }
        self.requests += 1;
        let mut line = request.to_string();
        line.push('\n');
        let write_ok = self.stdin.as_mut().map(|s| s.write_all(line.as_bytes()).and_then(|_| s.flush()).is_ok()).unwrap_or(false);
        if !write_ok {
            let status = self.kill();
            let tail = self.take_tail();
            self.respawns += 1;
            self.spawn();
            return Err(WorkerFail::Died { status, stderr_tail: tail });
        }
        match self.rx.as_ref().unwrap().recv_timeout(self.watchdog) {
            Ok(l) => Ok(l),
            Err(RecvTimeoutError::Timeout) => {
                self.kill();
                self.respawns += 1;
                self.spawn();
                Err(WorkerFail::Timeout)
            }
            Err(RecvTimeoutError::Disconnected) => {
                std::thread::sleep(Duration::from_millis(20));
                let status = self.kill();
                let tail = self.take_tail();
                self.respawns += 1;
                self.spawn();
                Err(WorkerFail::Died { status, stderr_tail: tail })
            }
        }
    }

    fn take_tail(&mut self) -> String {
        // called after kill(): the pipe is closed, let the reader thread drain what was written
        for _ in 0..250 {
            if self.stderr_done.load(std::sync::atomic::Ordering::SeqCst) {
                break;
            }
            std::thread::sleep(Duration::from_millis(2));
        }
        let t = self.stderr_tail.lock().unwrap();
        let pins = self.stderr_pins.lock().unwrap();
        let mut lines: Vec<String> = pins.iter().filter(|p| !t.contains(p)).cloned().collect();
        if !lines.is_empty() {
            lines.push("[...]".into());
        }
        lines.extend(t.iter().cloned());
        lines.join("\n")
    }
}

impl Drop for Worker {
    fn drop(&mut self) {
        self.stdin = None;
        if let Some(mut c) = self.child.take() {
            let _ = c.kill();
            let _ = c.wait();
        }
    }
}
