//! Worker subprocess: executes one request at a time against the real abra_core.

use crate::proto::*;
use abra_core::vm::{Runtime, RuntimeStatusKind, VmGreenThread};
use abra_core::{FileData, FileProvider, VmType};
use std::cell::RefCell;
use std::collections::HashMap;
use std::io::{BufRead, Write};
use std::panic::{AssertUnwindSafe, catch_unwind};
use std::path::{Path, PathBuf};

thread_local! {
    static LAST_PANIC: RefCell<Option<PanicInfo>> = const { RefCell::new(None) };
}

pub fn install_panic_hook() {
    std::panic::set_hook(Box::new(|info| {
        let msg = if let Some(s) = info.payload().downcast_ref::<&str>() {
            (*s).to_string()
        } else if let Some(s) = info.payload().downcast_ref::<String>() {
            s.clone()
        } else {
            "<non-string panic>".to_string()
        };
        let (file, line) = info
            .location()
            .map(|l| (l.file().to_string(), l.line()))
            .unwrap_or(("?".into(), 0));
        LAST_PANIC.with(|p| *p.borrow_mut() = Some(PanicInfo { msg, file, line }));
    }));
}

pub fn take_panic() -> PanicInfo {
    LAST_PANIC
        .with(|p| p.borrow_mut().take())
        .unwrap_or(PanicInfo { msg: "<unknown panic>".into(), file: "?".into(), line: 0 })
}

/// Run `f`, converting a panic into Err(PanicInfo).
pub fn guarded<T>(f: impl FnOnce() -> T) -> Result<T, PanicInfo> {
    LAST_PANIC.with(|p| *p.borrow_mut() = None);
    match catch_unwind(AssertUnwindSafe(f)) {
        Ok(v) => Ok(v),
        Err(_) => Err(take_panic()),
    }
}

#[derive(Debug)]
struct StrError(String);
impl std::fmt::Display for StrError {
    fn fmt(&self, f: &mut std::fmt::Formatter<'_>) -> std::fmt::Result {
        write!(f, "{}", self.0)
    }
}
impl std::error::Error for StrError {}

/// In-memory files first, then the repository's standard modules directory.
pub struct MemProvider {
    files: HashMap<PathBuf, String>,
    modules_dir: PathBuf,
}

impl MemProvider {
    pub fn new(files: &[SrcFile]) -> Box<Self> {
        let mut m = HashMap::new();
        for f in files {
            m.insert(PathBuf::from(&f.path), f.text.clone());
        }
        Box::new(MemProvider { files: m, modules_dir: PathBuf::from("/repo/modules") })
    }
}

impl FileProvider for MemProvider {
    fn search_for_file(&self, path: &Path, _is_root: bool) -> Result<FileData, Box<dyn std::error::Error>> {
        let mut package_name = path.to_owned();
        package_name.set_extension("");
        if let Some(c) = self.files.get(path) {
            return Ok(FileData::new(package_name, path.into(), c.clone()));
        }
        if path == Path::new("prelude.abra") {
            return Ok(FileData::new(package_name, path.into(), abra_core::PRELUDE.into()));
        }
        let p = self.modules_dir.join(path);
        if let Ok(c) = std::fs::read_to_string(&p) {
            return Ok(FileData::new(package_name, path.into(), c));
        }
        Err(Box::new(StrError(format!("could not find file `{}`", path.display()))))
    }
}

pub fn front_check(files: &[SrcFile], main: &str) -> FrontVerdict {
    match guarded(|| abra_core::check(main, MemProvider::new(files))) {
        Ok(Ok(())) => FrontVerdict::Ok,
        Ok(Err(e)) => FrontVerdict::Diag(format!("{e}")),
        Err(p) => FrontVerdict::Panic(p),
    }
}

pub fn front_compile(files: &[SrcFile], main: &str) -> FrontVerdict {
    match guarded(|| abra_core::compile_bytecode(main, MemProvider::new(files))) {
        Ok(Ok(_)) => FrontVerdict::Ok,
        Ok(Err(e)) => FrontVerdict::Diag(format!("{e}")),
        Err(p) => FrontVerdict::Panic(p),
    }
}

fn apply_hooks(opts: &RunOpts) {
    use abra_core::verif;
    verif::reset();
    verif::set_optimizer_off(opts.optimizer_off);
    verif::set_quarantine(opts.quarantine);
    match &opts.gc {
        GcSpec::Default => verif::set_gc_mode(verif::GcMode::Default),
        GcSpec::Disabled => verif::set_gc_mode(verif::GcMode::Disabled),
        GcSpec::Scripted { script, tail } => {
            verif::set_gc_mode(verif::GcMode::Scripted { script: script.clone(), tail: *tail })
        }
        GcSpec::StartAt { start, pace } => {
            let n = (*start as usize).min(4_000_000);
            let mut script = vec![0u8; n];
            script.push(1);
            verif::set_gc_mode(verif::GcMode::Scripted { script, tail: *pace & !1 })
        }
    }
}

fn parse_err_kind(rendered: &str) -> ErrKind {
    let first = rendered.lines().next().unwrap_or("");
    if let Some(rest) = first.strip_prefix("panic: `") {
        return ErrKind::Panic(rest.strip_suffix('`').unwrap_or(rest).to_string());
    }
    match first {
        "error: indexed past the end of an array" => ErrKind::ArrayOutOfBounds,
        "error: integer overflow/underflow" => ErrKind::IntegerOverflow,
        "error: division by zero" => ErrKind::DivisionByZero,
        _ => {
            // a panic message may span lines; VmError Display prints kind then newline
            if rendered.starts_with("panic: `") {
                let end = rendered.find("`\n[traceback]").unwrap_or(rendered.len());
                ErrKind::Panic(rendered[8..end].to_string())
            } else {
                ErrKind::Other(first.to_string())
            }
        }
    }
}

struct HostTable {
    /// sorted by name, index = host func id
    entries: Vec<HostEntry>,
}

enum HostEntry {
    Print,
    Eprint,
    Readline,
    GetArgs,
    User(usize),
}

fn build_host_table(opts: &RunOpts) -> HostTable {
    let mut names: Vec<(String, HostEntry)> = vec![
        ("print_string".into(), HostEntry::Print),
        ("eprint_string".into(), HostEntry::Eprint),
        ("readline".into(), HostEntry::Readline),
        ("get_args".into(), HostEntry::GetArgs),
    ];
    for (i, h) in opts.host.iter().enumerate() {
        names.push((h.name.clone(), HostEntry::User(i)));
    }
    names.sort_by(|a, b| a.0.cmp(&b.0));
    HostTable { entries: names.into_iter().map(|x| x.1).collect() }
}

fn pop_scalar(vm: &mut VmGreenThread, ty: &ScalarTy) -> Scalar {
    match ty {
        ScalarTy::Int => Scalar::Int(vm.pop_int()),
        ScalarTy::Float => Scalar::Float(vm.pop_float().to_bits()),
        ScalarTy::Bool => Scalar::Bool(<bool as VmType>::from_vm(vm)),
        ScalarTy::Str => Scalar::Str(<String as VmType>::from_vm(vm)),
        // a void argument occupies no stack slot
        ScalarTy::Void => Scalar::Void,
    }
}

fn push_scalar(vm: &mut VmGreenThread, v: &Scalar) {
    match v {
        Scalar::Int(n) => vm.push_int(*n),
        Scalar::Float(b) => vm.push_float(f64::from_bits(*b)),
        Scalar::Bool(b) => vm.push_bool(*b),
        Scalar::Str(s) => vm.push_str(s.clone()),
        Scalar::Void => {}
    }
}

struct RunState {
    stdout: String,
    stderr: String,
    host_log: Vec<HostCallRec>,
    readline_i: usize,
    user_ret_i: Vec<usize>,
}

fn service_host_calls(rt: &mut Runtime, table: &HostTable, opts: &RunOpts, st: &mut RunState) {
    for thread in rt.iter_threads_mut() {
        if let Some(id) = thread.get_pending_host_func() {
            let vm: &mut VmGreenThread = &mut *thread;
            match table.entries.get(id as usize) {
                Some(HostEntry::Print) => {
                    let s = <String as VmType>::from_vm(vm);
                    st.stdout.push_str(&s);
                }
                Some(HostEntry::Eprint) => {
                    let s = <String as VmType>::from_vm(vm);
                    st.stderr.push_str(&s);
                }
                Some(HostEntry::Readline) => {
                    let s = if opts.readline.is_empty() {
                        String::new()
                    } else {
                        opts.readline[st.readline_i % opts.readline.len()].clone()
                    };
                    st.readline_i += 1;
                    s.to_vm(vm);
                }
                Some(HostEntry::GetArgs) => {
                    opts.args.clone().to_vm(vm);
                }
                Some(HostEntry::User(i)) => {
                    let decl = &opts.host[*i];
                    let mut args = Vec::new();
                    for ty in decl.args.iter().rev() {
                        args.push(pop_scalar(vm, ty));
                    }
                    args.reverse();
                    if st.host_log.len() < 4096 {
                        st.host_log.push(HostCallRec { name: decl.name.clone(), args });
                    }
                    if !decl.returns.is_empty() {
                        let k = st.user_ret_i[*i] % decl.returns.len();
                        st.user_ret_i[*i] += 1;
                        push_scalar(vm, &decl.returns[k]);
                    }
                }
                None => panic!("VERIF-RUNNER unknown host function id {id}"),
            }
            vm.clear_pending_host_func();
        }
    }
}

fn collect_stats(rt: Option<&Runtime>) -> RunStats {
    let c = abra_core::verif::counters();
    let mut s = RunStats {
        gc_calls: c.gc_calls,
        cycles_started: c.cycles_started,
        cycles_completed: c.cycles_completed,
        objects_freed: c.objects_freed,
        peak_heap: c.peak_heap_size as u64,
        ..Default::default()
    };
    if let Some(rt) = rt {
        if let Ok(ts) = guarded(|| rt.main().verif_stats()) {
            s.main_stack_len = ts.value_stack_len as u64;
            s.main_live_objects = ts.live_objects as u64;
            s.main_heap_size = ts.heap_size as u64;
        }
    }
    s
}

fn empty_out() -> RunOut {
    RunOut {
        compile: FrontVerdict::NotRun,
        end: RunEnd::NotRun,
        stdout: String::new(),
        stderr: String::new(),
        final_value: None,
        steps: 0,
        calls: 0,
        call_log: vec![],
        host_log: vec![],
        after_end: vec![],
        stats: RunStats::default(),
    }
}

pub fn compile_for_run(files: &[SrcFile], main: &str, opts: &RunOpts) -> Result<abra_core::verif::CompiledProgram, FrontVerdict> {
    apply_hooks(opts);
    match guarded(|| abra_core::compile_bytecode(main, MemProvider::new(files))) {
        Ok(Ok(p)) => Ok(p),
        Ok(Err(e)) => Err(FrontVerdict::Diag(format!("{e}"))),
        Err(p) => Err(FrontVerdict::Panic(p)),
    }
}

pub fn exec_run(files: &[SrcFile], main: &str, opts: &RunOpts) -> RunOut {
    match compile_for_run(files, main, opts) {
        Ok(p) => run_program(p, opts),
        Err(v) => {
            let mut out = empty_out();
            out.compile = v;
            out
        }
    }
}

/// Compile once, then run a fresh runtime per selector; the host function `verif_sel`
/// (declared by the program) returns the selector.
pub fn exec_run_many(files: &[SrcFile], main: &str, opts: &RunOpts, selectors: &[i64]) -> Vec<RunOut> {
    let program = match compile_for_run(files, main, opts) {
        Ok(p) => p,
        Err(v) => {
            let mut out = empty_out();
            out.compile = v;
            return vec![out];
        }
    };
    let mut outs = Vec::with_capacity(selectors.len());
    for &sel in selectors {
        let mut o = opts.clone();
        o.host.retain(|h| h.name != "verif_sel");
        o.host.push(HostDecl { name: "verif_sel".into(), args: vec![], ret: ScalarTy::Int, returns: vec![Scalar::Int(sel)] });
        apply_hooks(&o);
        outs.push(run_program(program.clone(), &o));
    }
    outs
}

/// Like exec_run_many, with per-run overrides. `optimizer_off` overrides need their own compilation,
/// so variants are grouped by that flag.
pub fn exec_run_var(files: &[SrcFile], main: &str, opts: &RunOpts, variants: &[Variant]) -> Vec<RunOut> {
    let mut programs: [Option<Result<abra_core::verif::CompiledProgram, FrontVerdict>>; 2] = [None, None];
    let mut outs = Vec::with_capacity(variants.len());
    for v in variants {
        let off = v.optimizer_off.unwrap_or(opts.optimizer_off);
        let slot = off as usize;
        if programs[slot].is_none() {
            let mut o = opts.clone();
            o.optimizer_off = off;
            programs[slot] = Some(compile_for_run(files, main, &o));
        }
        match programs[slot].as_ref().unwrap() {
            Err(fv) => {
                let mut out = empty_out();
                out.compile = fv.clone();
                outs.push(out);
            }
            Ok(program) => {
                let mut o = opts.clone();
                o.optimizer_off = off;
                if !v.budgets.is_empty() {
                    o.budgets = v.budgets.clone();
                }
                if let Some(g) = &v.gc {
                    o.gc = g.clone();
                }
                if let Some(q) = v.quarantine {
                    o.quarantine = q;
                }
                if let Some(d) = &v.delays {
                    o.delays = d.clone();
                }
                o.host.retain(|h| h.name != "verif_sel");
                o.host.push(HostDecl { name: "verif_sel".into(), args: vec![], ret: ScalarTy::Int, returns: vec![Scalar::Int(v.sel)] });
                apply_hooks(&o);
                outs.push(run_program(program.clone(), &o));
            }
        }
    }
    outs
}

pub fn run_program(program: abra_core::verif::CompiledProgram, opts: &RunOpts) -> RunOut {
    let mut out = empty_out();
    out.compile = FrontVerdict::Ok;
    let table = build_host_table(opts);
    let budgets: Vec<u32> = if opts.budgets.is_empty() { vec![1000] } else { opts.budgets.clone() };
    let mut st = RunState {
        stdout: String::new(),
        stderr: String::new(),
        host_log: vec![],
        readline_i: 0,
        user_ret_i: vec![0; opts.host.len()],
    };
    let live_before = crate::alloc_count::live().0;
    let mut rt = match guarded(|| Runtime::new(program)) {
        Ok(rt) => rt,
        Err(p) => {
            out.end = RunEnd::HostPanic(p);
            return out;
        }
    };
    let mut bi = 0usize;
    let mut di = 0usize;
    let mut steps = 0u64;
    let mut calls = 0u64;
    let mut call_log = Vec::new();
    let res = guarded(|| {
        let next_budget = |bi: &mut usize| {
            let b = budgets[*bi % budgets.len()];
            *bi += 1;
            b
        };
        loop {
            if steps >= opts.max_steps || calls >= opts.max_calls {
                return RunEnd::Cap;
            }
            let b = next_budget(&mut bi);
            let status = rt.run_n_steps(b);
            calls += 1;
            steps += status.steps_consumed as u64;
            let code = match &status.kind {
                RuntimeStatusKind::Done => 'D',
                RuntimeStatusKind::PendingHostFunc => 'H',
                RuntimeStatusKind::OutOfSteps => 'O',
                RuntimeStatusKind::MainThreadError(_) => 'E',
            };
            if opts.record_calls && call_log.len() < 4096 {
                call_log.push(CallRec { budget: b, status: code, consumed: status.steps_consumed });
            }
            match status.kind {
                RuntimeStatusKind::Done => return RunEnd::Done,
                RuntimeStatusKind::MainThreadError(e) => {
                    let rendered = format!("{e}");
                    return RunEnd::Error { kind: parse_err_kind(&rendered), rendered };
                }
                RuntimeStatusKind::OutOfSteps => {}
                RuntimeStatusKind::PendingHostFunc => {
                    let d = if opts.delays.is_empty() {
                        0
                    } else {
                        let d = opts.delays[di % opts.delays.len()];
                        di += 1;
                        d
                    };
                    for _ in 0..d {
                        let b = next_budget(&mut bi);
                        let s2 = rt.run_n_steps(b);
                        calls += 1;
                        steps += s2.steps_consumed as u64;
                        let code = match &s2.kind {
                            RuntimeStatusKind::Done => 'D',
                            RuntimeStatusKind::PendingHostFunc => 'H',
                            RuntimeStatusKind::OutOfSteps => 'O',
                            RuntimeStatusKind::MainThreadError(_) => 'E',
                        };
                        if opts.record_calls && call_log.len() < 4096 {
                            call_log.push(CallRec { budget: b, status: code, consumed: s2.steps_consumed });
                        }
                        match s2.kind {
                            RuntimeStatusKind::Done => return RunEnd::Done,
                            RuntimeStatusKind::MainThreadError(e) => {
                                let rendered = format!("{e}");
                                return RunEnd::Error { kind: parse_err_kind(&rendered), rendered };
                            }
                            _ => {}
                        }
                    }
                    service_host_calls(&mut rt, &table, opts, &mut st);
                }
            }
        }
    });
    out.steps = steps;
    out.calls = calls;
    out.call_log = call_log;
    let mut poisoned_runtime = false;
    match res {
        Ok(end) => out.end = end,
        Err(p) => {
            out.end = RunEnd::HostPanic(p);
            poisoned_runtime = true;
        }
    }
    if !poisoned_runtime {
        if matches!(out.end, RunEnd::Done) && opts.want_final != FinalKind::None {
            let fk = opts.want_final;
            match guarded(|| {
                let top = rt.top();
                let m = rt.main();
                match fk {
                    FinalKind::Int => Scalar::Int(top.get_int(m)),
                    FinalKind::Float => Scalar::Float(top.get_float(m).to_bits()),
                    FinalKind::Bool => Scalar::Bool(top.get_bool(m)),
                    FinalKind::Str => Scalar::Str(top.view_string(m).to_string()),
                    FinalKind::None => Scalar::Void,
                }
            }) {
                Ok(v) => out.final_value = Some(v),
                Err(p) => {
                    out.end = RunEnd::HostPanic(PanicInfo { msg: format!("reading final value: {}", p.msg), ..p });
                }
            }
        }
        if opts.extra_calls_after_end > 0 && matches!(out.end, RunEnd::Done | RunEnd::Error { .. }) {
            let r = guarded(|| {
                let mut v = vec![];
                for _ in 0..opts.extra_calls_after_end {
                    let s = rt.run_n_steps(7);
                    v.push(match s.kind {
                        RuntimeStatusKind::Done => 'D',
                        RuntimeStatusKind::PendingHostFunc => 'H',
                        RuntimeStatusKind::OutOfSteps => 'O',
                        RuntimeStatusKind::MainThreadError(_) => 'E',
                    });
                }
                v
            });
            match r {
                Ok(v) => out.after_end = v,
                Err(p) => {
                    out.after_end = vec!['P'];
                    out.stderr.push_str(&format!("[after-end panic: {}]", p.msg));
                    poisoned_runtime = true;
                }
            }
        }
    }
    out.stdout = st.stdout;
    out.stderr.insert_str(0, &st.stderr);
    out.host_log = st.host_log;
    out.stats = collect_stats(if poisoned_runtime { None } else { Some(&rt) });
    out.stats.runtime_live_bytes = crate::alloc_count::live().0 - live_before;
    if poisoned_runtime {
        // heap may be inconsistent: never run destructors over it
        std::mem::forget(rt);
        abra_core::verif::leak_quarantine();
        abra_core::verif::reset();
    } else {
        match guarded(move || drop(rt)) {
            Ok(()) => abra_core::verif::reset(),
            Err(p) => {
                abra_core::verif::leak_quarantine();
                abra_core::verif::reset();
                if !matches!(out.end, RunEnd::HostPanic(_)) {
                    out.end = RunEnd::HostPanic(PanicInfo { msg: format!("dropping runtime: {}", p.msg), ..p });
                }
            }
        }
    }
    out
}

pub fn exec_lsp(files: &[SrcFile], main: &str, all_offsets: bool, points: &[(String, usize)], want_answers: bool) -> LspOut {
    let mut out = LspOut { analysis_panic: None, diags: vec![], query_panic: None, queries_run: 0, answers: vec![] };
    let res = match guarded(|| abra_core::check_lsp(main, MemProvider::new(files))) {
        Ok(r) => r,
        Err(p) => {
            out.analysis_panic = Some(p);
            return out;
        }
    };
    let name_of = |res: &abra_core::LspAnalysisResult, id: u32| -> String {
        res.file_db.get(id).map(|f| f.absolute_path.to_string_lossy().to_string()).unwrap_or_else(|_| format!("<file {id}>"))
    };
    match guarded(|| res.errors()) {
        Ok(errs) => {
            for e in errs {
                out.diags.push(DiagOut {
                    message: e.message.clone(),
                    file: name_of(&res, e.file_id),
                    start: e.range.start,
                    end: e.range.end,
                    secondary: e.secondary_labels.iter().map(|(f, r, m)| (name_of(&res, *f), r.start, r.end, m.clone())).collect(),
                });
            }
        }
        Err(p) => {
            out.analysis_panic = Some(p);
            return out;
        }
    }
    let mut pts: Vec<(String, usize)> = points.to_vec();
    if all_offsets {
        for f in files {
            for o in 0..=f.text.len() + 1 {
                pts.push((f.path.clone(), o));
            }
        }
    }
    for (path, off) in pts {
        let Some(fid) = res.file_id_for_path(Path::new(&path)) else { continue };
        let mut ans = LspAnswer { file: path.clone(), offset: off, definition: None, ty: None, completions: vec![] };
        macro_rules! q {
            ($kind:expr, $e:expr) => {
                match guarded(|| $e) {
                    Ok(v) => {
                        out.queries_run += 1;
                        Some(v)
                    }
                    Err(p) => {
                        if out.query_panic.is_none() {
                            out.query_panic = Some((path.clone(), off, $kind.to_string(), p));
                        }
                        None
                    }
                }
            };
        }
        if let Some(d) = q!("definition", res.definition_at(fid, off)) {
            ans.definition = d.map(|d| (name_of(&res, d.file_id), d.range.start, d.range.end));
        }
        if let Some(t) = q!("type", res.type_at(fid, off)) {
            ans.ty = t;
        }
        if let Some(c) = q!("completions", res.completions_at(fid, off)) {
            ans.completions = c.into_iter().map(|c| c.label).collect();
        }
        if out.query_panic.is_some() {
            break;
        }
        if want_answers {
            out.answers.push(ans);
        }
    }
    out
}

pub fn handle(req: Req) -> Resp {
    match req {
        Req::Ping => Resp::Pong,
        Req::Run { files, main, opts } => Resp::Run(exec_run(&files, &main, &opts)),
        Req::RunVar { files, main, opts, variants } => Resp::RunMany(exec_run_var(&files, &main, &opts, &variants)),
        Req::RunMany { files, main, opts, selectors } => Resp::RunMany(exec_run_many(&files, &main, &opts, &selectors)),
        Req::Front { files, main, check, compile } => {
            abra_core::verif::reset();
            let c = if check { front_check(&files, &main) } else { FrontVerdict::NotRun };
            let k = if compile { front_compile(&files, &main) } else { FrontVerdict::NotRun };
            Resp::Front { check: c, compile: k }
        }
        Req::Lsp { files, main, all_offsets, points, want_answers } => {
            abra_core::verif::reset();
            Resp::Lsp(exec_lsp(&files, &main, all_offsets, &points, want_answers))
        }
        Req::Custom { check, payload } => match guarded(|| crate::checks::worker_custom(&check, payload)) {
            Ok(v) => Resp::Custom(v),
            Err(p) => Resp::WorkerPanic(p),
        },
    }
}

/// Worker main loop: one JSON request per line on stdin, one JSON response per line on stdout.
pub fn worker_main() {
    install_panic_hook();
    let handle_thread = std::thread::Builder::new()
        .stack_size(512 << 20)
        .spawn(|| {
            let stdin = std::io::stdin();
            let stdout = std::io::stdout();
            let mut line = String::new();
            loop {
                line.clear();
                match stdin.lock().read_line(&mut line) {
                    Ok(0) | Err(_) => return,
                    Ok(_) => {}
                }
                let resp = match serde_json::from_str::<Req>(&line) {
                    Ok(req) => match guarded(|| handle(req)) {
                        Ok(r) => r,
                        Err(p) => Resp::WorkerPanic(p),
                    },
                    Err(e) => Resp::WorkerPanic(PanicInfo { msg: format!("bad request: {e}"), file: "proto".into(), line: 0 }),
                };
                let s = serde_json::to_string(&resp).unwrap();
                let mut o = stdout.lock();
                let _ = o.write_all(s.as_bytes());
                let _ = o.write_all(b"\n");
                let _ = o.flush();
            }
        })
        .unwrap();
    let _ = handle_thread.join();
}
