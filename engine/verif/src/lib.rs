//! Library half of the verification engine: generators, oracles, coordinator and worker code.
//! The `verif` binary (main.rs) is the command-line front; `engine/fuzz` links this library so that
//! the coverage-guided targets judge inputs with exactly the worker code the checks use.

pub mod alloc_count;
pub mod campaign;
pub mod checks;
pub mod fuzzside;
pub mod g;
pub mod harness;
pub mod pool;
pub mod proto;
pub mod worker;
