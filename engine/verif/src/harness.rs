//! Generic property driver: seeded proptest search on K runner threads, each owning one
//! worker subprocess; regression/replay tier; known-finding attribution; evidence.

use crate::pool::{Worker, WorkerFail};
use crate::proto::*;
use proptest::strategy::BoxedStrategy;
use proptest::test_runner::{Config, RngAlgorithm, RngSeed, TestCaseError, TestError, TestRunner};
use serde::de::DeserializeOwned;
use serde::{Deserialize, Serialize};
use serde_json::{Value, json};
use std::collections::{BTreeMap, HashSet};
use std::fmt::Debug;
use std::hash::{Hash, Hasher};
use std::path::PathBuf;
use std::sync::Mutex;
use std::time::Instant;

pub const K_THREADS: usize = 12;

#[derive(Clone, Copy, Debug, PartialEq, Eq)]
pub enum Tier {
    Quick,
    Thorough,
}

impl Tier {
    pub fn pick<T>(self, q: T, t: T) -> T {
        match self {
            Tier::Quick => q,
            Tier::Thorough => t,
        }
    }
    pub fn name(self) -> &'static str {
        match self {
            Tier::Quick => "quick",
            Tier::Thorough => "thorough",
        }
    }
}

pub fn root() -> PathBuf {
    PathBuf::from(std::env::var("VERIF_ROOT").unwrap_or_else(|_| "/verif".into()))
}

pub fn hash64<T: Hash + ?Sized>(t: &T) -> u64 {
    let mut h = std::collections::hash_map::DefaultHasher::new();
    t.hash(&mut h);
    h.finish()
}

pub fn mix(seed: u64, s: &str, k: u64) -> u64 {
    // splitmix-style, stable across runs and platforms
    let mut x = seed ^ 0x9E37_79B9_7F4A_7C15;
    for b in s.bytes() {
        x = (x ^ b as u64).wrapping_mul(0x100_0000_01B3);
    }
    x ^= k.wrapping_mul(0xBF58_476D_1CE4_E5B9);
    x ^= x >> 30;
    x = x.wrapping_mul(0xBF58_476D_1CE4_E5B9);
    x ^= x >> 27;
    x = x.wrapping_mul(0x94D0_49BB_1331_11EB);
    x ^ (x >> 31)
}

// ---------------------------------------------------------------------------------------------
// failures and findings

#[derive(Clone, Debug, Serialize, Deserialize)]
pub struct Failure {
    /// HostPanic | HostAbort | VmInternal | UseAfterFree | OutcomeMismatch | VerdictMismatch |
    /// LawViolation | ModelMismatch | RangeInvalid | MemoryGrowth | ...
    pub class: String,
    /// normalised message (panic message, mismatch summary)
    pub msg: String,
    /// structural features of the failing input computed by the check
    pub features: Vec<String>,
    pub detail: Value,
}

impl Failure {
    pub fn new(class: &str, msg: impl Into<String>) -> Failure {
        Failure { class: class.into(), msg: msg.into(), features: vec![], detail: Value::Null }
    }
    pub fn feat(mut self, f: impl Into<String>) -> Failure {
        self.features.push(f.into());
        self
    }
    pub fn feats(mut self, f: impl IntoIterator<Item = String>) -> Failure {
        self.features.extend(f);
        self
    }
    pub fn detail(mut self, d: Value) -> Failure {
        self.detail = d;
        self
    }
}

#[derive(Clone, Debug, Deserialize)]
pub struct Signature {
    pub class: Vec<String>,
    #[serde(default)]
    pub msg_contains: Vec<String>,
    #[serde(default)]
    pub features: Vec<String>,
}

#[derive(Clone, Debug, Deserialize)]
pub struct Finding {
    pub key: String,
    pub properties: Vec<String>,
    pub status: String,
    pub what: String,
    /// property id -> probe replay file (relative to /verif)
    #[serde(default)]
    pub probes: BTreeMap<String, String>,
    /// one or more alternative signatures
    pub signatures: Vec<Signature>,
}

#[derive(Clone, Debug, Deserialize, Default)]
pub struct FindingsFile {
    #[serde(default)]
    pub findings: Vec<Finding>,
    #[serde(default)]
    pub fixed: Vec<String>,
}

pub struct Findings {
    pub property: String,
    pub open: Vec<Finding>,
}

impl Findings {
    pub fn load(property: &str) -> Findings {
        let p = root().join("known_findings.json");
        let ff: FindingsFile = match std::fs::read_to_string(&p) {
            Ok(s) => serde_json::from_str(&s).unwrap_or_else(|e| {
                eprintln!("HARNESS-ERROR cannot parse known_findings.json: {e}");
                std::process::exit(2)
            }),
            Err(_) => FindingsFile::default(),
        };
        Findings {
            property: property.to_string(),
            open: ff.findings.into_iter().filter(|f| f.status == "open" && f.properties.iter().any(|p| p == property)).collect(),
        }
    }

    /// Is the finding `key` open for this property? Generators use this to exclude its trigger.
    pub fn is_open(&self, key: &str) -> bool {
        self.open.iter().any(|f| f.key == key)
    }

    pub fn attribute(&self, f: &Failure) -> Option<String> {
        for fd in &self.open {
            for sig in &fd.signatures {
                if sig.class.iter().any(|c| c == &f.class)
                    && sig.msg_contains.iter().all(|m| f.msg.contains(m.as_str()))
                    && sig.features.iter().all(|x| f.features.iter().any(|y| y == x))
                {
                    return Some(fd.key.clone());
                }
            }
        }
        None
    }
}

// ---------------------------------------------------------------------------------------------
// verdicts and per-case statistics

#[derive(Clone, Debug, Default)]
pub struct CaseStats {
    pub evals: u64,
    /// hash keys of the distinct non-trivial sub-cases this case contained
    pub nontrivial: Vec<u64>,
    pub labels: Vec<(String, u64)>,
    pub discarded: u64,
    pub excluded: Vec<(String, u64)>,
    pub known_hits: Vec<String>,
    pub sample: Option<Value>,
}

impl CaseStats {
    pub fn one() -> CaseStats {
        CaseStats { evals: 1, ..Default::default() }
    }
    pub fn label(&mut self, l: impl Into<String>) {
        let l = l.into();
        if let Some(e) = self.labels.iter_mut().find(|e| e.0 == l) {
            e.1 += 1;
        } else {
            self.labels.push((l, 1));
        }
    }
    pub fn nt<T: Hash + ?Sized>(&mut self, key: &T) {
        self.nontrivial.push(hash64(key));
    }
}

pub enum Verdict {
    Pass(CaseStats),
    Fail(Failure),
    /// watchdog or harness trouble; never a violation
    Inconclusive(String),
}

pub struct Env<'a> {
    pub w: &'a mut Worker,
    pub findings: &'a Findings,
    pub tier: Tier,
}

pub enum Exec<T> {
    Ok(T),
    Abort(Failure),
    Inconclusive(String),
}

thread_local! {
    /// per-thread auxiliary workers (other binaries than the abra worker), by key
    static AUX: std::cell::RefCell<BTreeMap<String, Worker>> = const { std::cell::RefCell::new(BTreeMap::new()) };
}

/// A dead worker as a failure: class HostAbort, feature `abort:<kind>` (+ `asan:<report kind>`).
pub fn died_failure(status: &str, stderr_tail: &str) -> Failure {
    let cls = classify_abort(stderr_tail);
    let mut f = Failure::new("HostAbort", format!("{cls}; status={status}")).feat(format!("abort:{cls}"));
    if cls == "asan" {
        // "==1==ERROR: AddressSanitizer: heap-use-after-free on address ..."
        if let Some(kind) = stderr_tail.split("AddressSanitizer: ").nth(1).and_then(|r| r.split_whitespace().next()) {
            f.msg = format!("asan {kind}; status={status}");
            f = f.feat(format!("asan:{kind}"));
        }
    }
    f.detail(json!({"status": status, "stderr_tail": stderr_tail}))
}

impl<'a> Env<'a> {
    fn call(&mut self, req: &Req) -> Exec<Resp> {
        match self.w.call(req) {
            Ok(Resp::WorkerPanic(p)) => Exec::Abort(Failure::new("HostPanic", norm_msg(&p.msg)).feat(format!("file:{}", base(&p.file))).detail(json!({"panic": p}))),
            Ok(r) => Exec::Ok(r),
            Err(WorkerFail::Timeout) => Exec::Inconclusive("watchdog".into()),
            Err(WorkerFail::Died { status, stderr_tail }) => Exec::Abort(died_failure(&status, &stderr_tail)),
        }
    }

    /// One JSON request to this runner thread's auxiliary worker `key` (created by `make` on
    /// first use, e.g. `Worker::with_command(..)`; it lives as long as the thread). Same mapping
    /// as for the abra worker: death = `HostAbort` failure, watchdog = inconclusive.
    pub fn aux(&mut self, key: &str, make: &dyn Fn() -> Worker, payload: &Value) -> Exec<Value> {
        let line = payload.to_string();
        let r = AUX.with(|m| {
            let mut m = m.borrow_mut();
            let w = m.entry(key.to_string()).or_insert_with(make);
            w.call_raw(&line)
        });
        match r {
            Ok(l) => match serde_json::from_str::<Value>(&l) {
                Ok(v) => Exec::Ok(v),
                Err(e) => Exec::Inconclusive(format!("protocol: unparseable response from {key}: {e}")),
            },
            Err(WorkerFail::Timeout) => Exec::Inconclusive("watchdog".into()),
            Err(WorkerFail::Died { status, stderr_tail }) => Exec::Abort(died_failure(&status, &stderr_tail)),
        }
    }

    pub fn run(&mut self, files: &[SrcFile], main: &str, opts: &RunOpts) -> Exec<RunOut> {
        match self.call(&Req::Run { files: files.to_vec(), main: main.into(), opts: opts.clone() }) {
            Exec::Ok(Resp::Run(r)) => Exec::Ok(r),
            Exec::Ok(_) => Exec::Inconclusive("protocol".into()),
            Exec::Abort(f) => Exec::Abort(f),
            Exec::Inconclusive(s) => Exec::Inconclusive(s),
        }
    }

    pub fn run_many(&mut self, files: &[SrcFile], main: &str, opts: &RunOpts, selectors: &[i64]) -> Exec<Vec<RunOut>> {
        match self.call(&Req::RunMany { files: files.to_vec(), main: main.into(), opts: opts.clone(), selectors: selectors.to_vec() }) {
            Exec::Ok(Resp::RunMany(r)) => Exec::Ok(r),
            Exec::Ok(_) => Exec::Inconclusive("protocol".into()),
            Exec::Abort(f) => Exec::Abort(f),
            Exec::Inconclusive(s) => Exec::Inconclusive(s),
        }
    }

    pub fn run_var(&mut self, files: &[SrcFile], main: &str, opts: &RunOpts, variants: &[Variant]) -> Exec<Vec<RunOut>> {
        match self.call(&Req::RunVar { files: files.to_vec(), main: main.into(), opts: opts.clone(), variants: variants.to_vec() }) {
            Exec::Ok(Resp::RunMany(r)) => Exec::Ok(r),
            Exec::Ok(_) => Exec::Inconclusive("protocol".into()),
            Exec::Abort(f) => Exec::Abort(f),
            Exec::Inconclusive(s) => Exec::Inconclusive(s),
        }
    }

    pub fn run1(&mut self, src: &str, opts: &RunOpts) -> Exec<RunOut> {
        self.run(&single(src), "main.abra", opts)
    }

    pub fn front(&mut self, files: &[SrcFile], main: &str, check: bool, compile: bool) -> Exec<(FrontVerdict, FrontVerdict)> {
        match self.call(&Req::Front { files: files.to_vec(), main: main.into(), check, compile }) {
            Exec::Ok(Resp::Front { check, compile }) => Exec::Ok((check, compile)),
            Exec::Ok(_) => Exec::Inconclusive("protocol".into()),
            Exec::Abort(f) => Exec::Abort(f),
            Exec::Inconclusive(s) => Exec::Inconclusive(s),
        }
    }

    pub fn lsp(&mut self, files: &[SrcFile], main: &str, all_offsets: bool, points: Vec<(String, usize)>, want_answers: bool) -> Exec<LspOut> {
        match self.call(&Req::Lsp { files: files.to_vec(), main: main.into(), all_offsets, points, want_answers }) {
            Exec::Ok(Resp::Lsp(r)) => Exec::Ok(r),
            Exec::Ok(_) => Exec::Inconclusive("protocol".into()),
            Exec::Abort(f) => Exec::Abort(f),
            Exec::Inconclusive(s) => Exec::Inconclusive(s),
        }
    }

    pub fn custom(&mut self, check: &str, payload: Value) -> Exec<Value> {
        match self.call(&Req::Custom { check: check.into(), payload }) {
            Exec::Ok(Resp::Custom(v)) => Exec::Ok(v),
            Exec::Ok(_) => Exec::Inconclusive("protocol".into()),
            Exec::Abort(f) => Exec::Abort(f),
            Exec::Inconclusive(s) => Exec::Inconclusive(s),
        }
    }
}

/// `try_exec!(env.run(..))` unwraps Exec inside a judge function returning Verdict.
#[macro_export]
macro_rules! try_exec {
    ($e:expr) => {
        match $e {
            $crate::harness::Exec::Ok(v) => v,
            $crate::harness::Exec::Abort(f) => return $crate::harness::Verdict::Fail(f),
            $crate::harness::Exec::Inconclusive(s) => return $crate::harness::Verdict::Inconclusive(s),
        }
    };
}

pub fn base(path: &str) -> String {
    // keep the last two components: "statics/typecheck.rs", "src/vm.rs"
    let parts: Vec<&str> = path.split('/').collect();
    let n = parts.len();
    if n >= 2 { format!("{}/{}", parts[n - 2], parts[n - 1]) } else { path.to_string() }
}

/// Normalise a panic message: digits -> #, backquoted/quoted identifiers kept, length capped.
pub fn norm_msg(m: &str) -> String {
    let mut out = String::new();
    let mut last_hash = false;
    for c in m.chars().take(400) {
        if c.is_ascii_digit() {
            if !last_hash {
                out.push('#');
            }
            last_hash = true;
        } else {
            out.push(c);
            last_hash = false;
        }
    }
    out
}

fn classify_abort(stderr: &str) -> &'static str {
    if stderr.contains("AddressSanitizer") {
        "asan"
    } else if stderr.contains("unsafe precondition") {
        "unsafe-precondition"
    } else if stderr.contains("misaligned pointer dereference") {
        "misaligned-pointer"
    } else if stderr.contains("stack overflow") || stderr.contains("has overflowed its stack") {
        "stack-overflow"
    } else if stderr.contains("memory allocation of") {
        "alloc-failure"
    } else if stderr.contains("double free") || stderr.contains("corrupted") || stderr.contains("free():") || stderr.contains("malloc") {
        "heap-corruption"
    } else if stderr.contains("panic in a function that cannot unwind") || stderr.contains("panicked") {
        "abort-panic"
    } else {
        "signal"
    }
}

/// Map a finished run to a crash-class Failure, if it is one (used by every check).
pub fn crash_failure(r: &RunOut) -> Option<Failure> {
    if let FrontVerdict::Panic(p) = &r.compile {
        return Some(Failure::new("HostPanic", norm_msg(&p.msg)).feat(format!("file:{}", base(&p.file))).feat("phase:compile").detail(json!({"panic": p})));
    }
    match &r.end {
        RunEnd::HostPanic(p) => {
            let class = if p.msg.starts_with("VERIF-UAF") {
                "UseAfterFree"
            } else if p.msg.starts_with("error: expected type") || p.msg.starts_with("internal error") || p.msg.contains("ffi is not enabled") {
                "VmInternal"
            } else {
                "HostPanic"
            };
            // fail() panics carry the rendered VmError; keep only the first line
            let first = p.msg.lines().next().unwrap_or("").to_string();
            Some(Failure::new(class, norm_msg(&first)).feat(format!("file:{}", base(&p.file))).feat("phase:vm").detail(json!({"panic": p})))
        }
        RunEnd::Error { kind: ErrKind::Other(s), rendered } => Some(Failure::new("VmInternal", norm_msg(s)).feat("phase:vm").detail(json!({"rendered": rendered}))),
        _ => None,
    }
}

// ---------------------------------------------------------------------------------------------
// the property interface

pub trait Prop: Sync {
    type Case: Serialize + DeserializeOwned + Debug + Clone + Send + Sync + 'static;
    fn name(&self) -> &'static str;
    /// random search space
    fn strategy(&self, tier: Tier, findings: &Findings) -> BoxedStrategy<Self::Case>;
    fn n_cases(&self, tier: Tier) -> u32;
    /// cases that are always run (exhaustive layers, boundary grids)
    fn fixed_cases(&self, _tier: Tier, _findings: &Findings) -> Vec<Self::Case> {
        vec![]
    }
    /// does the fixed-case list enumerate a finite space completely at this tier?
    fn exhaustive(&self, _tier: Tier) -> bool {
        false
    }
    fn judge(&self, case: &Self::Case, env: &mut Env) -> Verdict;
    fn rule(&self) -> &'static str;
    /// smaller cases a failing fixed case can be narrowed to (batches -> singletons)
    fn split(&self, _case: &Self::Case) -> Vec<Self::Case> {
        vec![]
    }
}

#[derive(Serialize, Deserialize)]
struct ReplayFile {
    property: String,
    sub: String,
    #[serde(default)]
    note: String,
    case: Value,
    #[serde(default)]
    failure: Value,
}

#[derive(Default)]
struct PropAcc {
    evals: u64,
    cases: u64,
    nontrivial: HashSet<u64>,
    labels: BTreeMap<String, u64>,
    discarded: u64,
    excluded: BTreeMap<String, u64>,
    known_hits: BTreeMap<String, u64>,
    inconclusive: u64,
    samples: Vec<Value>,
    exhaustive: bool,
    rule: String,
    regressions: u64,
}

impl PropAcc {
    fn absorb(&mut self, s: CaseStats) {
        self.cases += 1;
        self.evals += s.evals;
        let had_nt = !s.nontrivial.is_empty();
        for k in s.nontrivial {
            self.nontrivial.insert(k);
        }
        for (l, n) in s.labels {
            *self.labels.entry(l).or_insert(0) += n;
        }
        self.discarded += s.discarded;
        for (l, n) in s.excluded {
            *self.excluded.entry(l).or_insert(0) += n;
        }
        for k in s.known_hits {
            *self.known_hits.entry(k).or_insert(0) += 1;
        }
        if let Some(v) = s.sample {
            if self.samples.len() < 4 && had_nt {
                self.samples.push(v);
            }
        }
    }
}

pub enum Mode {
    Search,
    Replay { sub: Option<String>, case: Value, path: String },
}

pub struct Ctx {
    pub id: String,
    pub tier: Tier,
    pub seed: u64,
    pub mode: Mode,
    pub findings: Findings,
    pub level: String,
    pub assumptions: Vec<String>,
    start: Instant,
    props: Vec<(String, PropAcc)>,
    violations: Vec<(String, String)>, // (replay path, summary)
    known_printed: HashSet<String>,
    harness_errors: Vec<String>,
    pub extra: BTreeMap<String, Value>,
}

impl Ctx {
    pub fn new(id: &str, tier: Tier, seed: u64, mode: Mode) -> Ctx {
        Ctx {
            id: id.to_string(),
            tier,
            seed,
            mode,
            findings: Findings::load(id),
            level: "exploration".into(),
            assumptions: vec![],
            start: Instant::now(),
            props: vec![],
            violations: vec![],
            known_printed: HashSet::new(),
            harness_errors: vec![],
            extra: BTreeMap::new(),
        }
    }

    pub fn assume(&mut self, s: &str) {
        self.assumptions.push(s.to_string());
    }

    /// Record a harness problem (exit code 2 unless a violation is also found).
    pub fn harness_error(&mut self, s: impl Into<String>) {
        self.harness_errors.push(s.into());
    }

    fn replay_dir(&self) -> PathBuf {
        root().join("replays").join(&self.id)
    }

    fn write_found(&self, sub: &str, case: &Value, failure: &Failure) -> String {
        let dir = self.replay_dir().join("found");
        let _ = std::fs::create_dir_all(&dir);
        let rf = ReplayFile { property: self.id.clone(), sub: sub.to_string(), note: format!("{}: {}", failure.class, failure.msg), case: case.clone(), failure: serde_json::to_value(failure).unwrap_or(Value::Null) };
        let body = serde_json::to_string_pretty(&rf).unwrap();
        let name = format!("{}-{:016x}.json", sub, hash64(&serde_json::to_string(case).unwrap()));
        let path = dir.join(name);
        let _ = std::fs::write(&path, body);
        path.to_string_lossy().to_string()
    }

    fn report_violation(&mut self, sub: &str, case: &Value, failure: &Failure, existing_path: Option<String>) {
        let path = existing_path.unwrap_or_else(|| self.write_found(sub, case, failure));
        println!("VIOLATION property={} replay={}", self.id, path);
        println!("  sub={} class={} msg={}", sub, failure.class, failure.msg.chars().take(300).collect::<String>());
        if !failure.features.is_empty() {
            println!("  features={}", failure.features.join(","));
        }
        self.violations.push((path, format!("{}: {}", failure.class, failure.msg)));
    }

    fn known_line(&mut self, key: &str) {
        if self.known_printed.insert(key.to_string()) {
            let what = self.findings.open.iter().find(|f| f.key == key).map(|f| f.what.clone()).unwrap_or_default();
            println!("KNOWN-FINDING: property={} {} [{}]", self.id, what, key);
        }
    }

    /// Run one sub-property in the current mode.
    pub fn prop<P: Prop>(&mut self, p: &P) {
        let name = p.name().to_string();
        if let Mode::Replay { sub, case, path } = &self.mode {
            if sub.as_deref().map(|s| s == name).unwrap_or(true) {
                let (case, path) = (case.clone(), path.clone());
                match serde_json::from_value::<P::Case>(case.clone()) {
                    Ok(c) => {
                        let mut w = Worker::new();
                        let v = {
                            let mut env = Env { w: &mut w, findings: &self.findings, tier: self.tier };
                            p.judge(&c, &mut env)
                        };
                        match v {
                            Verdict::Pass(_) => println!("REPLAY property={} sub={} result=pass", self.id, name),
                            Verdict::Inconclusive(s) => println!("REPLAY property={} sub={} result=inconclusive ({s})", self.id, name),
                            Verdict::Fail(f) => {
                                println!("REPLAY property={} sub={} result=fail", self.id, name);
                                println!("{}", serde_json::to_string_pretty(&f).unwrap_or_default());
                                if let Some(k) = self.findings.attribute(&f) {
                                    self.known_line(&k);
                                } else {
                                    self.report_violation(&name, &case, &f, Some(path));
                                }
                            }
                        }
                    }
                    Err(e) => {
                        if sub.is_some() {
                            self.harness_errors.push(format!("replay case does not parse for sub {name}: {e}"));
                        }
                    }
                }
            }
            return;
        }

        let t0 = Instant::now();
        let mut acc = PropAcc { rule: p.rule().to_string(), ..Default::default() };

        // --- regression tier + known-finding probes ------------------------------------------
        let mut reg_files: Vec<PathBuf> = vec![];
        if let Ok(rd) = std::fs::read_dir(self.replay_dir()) {
            for e in rd.flatten() {
                let pth = e.path();
                if pth.extension().map(|x| x == "json").unwrap_or(false) {
                    reg_files.push(pth);
                }
            }
        }
        reg_files.sort();
        let probe_paths: BTreeMap<String, String> = self
            .findings
            .open
            .iter()
            .filter_map(|f| f.probes.get(&self.id).map(|pp| (root().join(pp).to_string_lossy().to_string(), f.key.clone())))
            .collect();
        {
            let mut w = Worker::new();
            for pth in reg_files {
                let Ok(body) = std::fs::read_to_string(&pth) else { continue };
                let Ok(rf) = serde_json::from_str::<ReplayFile>(&body) else {
                    self.harness_errors.push(format!("unparseable replay file {}", pth.display()));
                    continue;
                };
                if rf.sub != name {
                    continue;
                }
                let Ok(c) = serde_json::from_value::<P::Case>(rf.case.clone()) else {
                    self.harness_errors.push(format!("replay file {} does not match case type of {}", pth.display(), name));
                    continue;
                };
                let v = {
                    let mut env = Env { w: &mut w, findings: &self.findings, tier: self.tier };
                    p.judge(&c, &mut env)
                };
                acc.regressions += 1;
                let pstr = pth.to_string_lossy().to_string();
                match v {
                    Verdict::Pass(s) => {
                        // a pass may still carry attributed known hits (batched cases)
                        for k in &s.known_hits {
                            let k = k.clone();
                            self.known_line(&k);
                        }
                        acc.absorb(s);
                    }
                    Verdict::Inconclusive(_) => acc.inconclusive += 1,
                    Verdict::Fail(f) => match self.findings.attribute(&f) {
                        Some(k) => {
                            *acc.known_hits.entry(k.clone()).or_insert(0) += 1;
                            self.known_line(&k);
                        }
                        None => {
                            let _ = probe_paths.get(&pstr);
                            self.report_violation(&name, &rf.case, &f, Some(pstr));
                        }
                    },
                }
            }
        }

        // --- fixed cases + random search on K threads -----------------------------------------
        let fixed = p.fixed_cases(self.tier, &self.findings);
        acc.exhaustive = p.exhaustive(self.tier);
        let n_random = p.n_cases(self.tier);
        let shared = Mutex::new(acc);
        let found: Mutex<Vec<(Value, Failure)>> = Mutex::new(vec![]);
        let fixed_ref = &fixed;
        let findings = &self.findings;
        let tier = self.tier;
        let seed = self.seed;
        let id = self.id.clone();
        let next_fixed = std::sync::atomic::AtomicUsize::new(0);
        std::thread::scope(|sc| {
            for k in 0..K_THREADS {
                let shared = &shared;
                let found = &found;
                let next_fixed = &next_fixed;
                let name = name.clone();
                let id = id.clone();
                sc.spawn(move || {
                    let mut w = Worker::new();
                    // fixed cases: work-stealing by index (order of execution does not affect verdicts)
                    loop {
                        let i = next_fixed.fetch_add(1, std::sync::atomic::Ordering::Relaxed);
                        if i >= fixed_ref.len() {
                            break;
                        }
                        let c = &fixed_ref[i];
                        let v = {
                            let mut env = Env { w: &mut w, findings, tier };
                            p.judge(c, &mut env)
                        };
                        match v {
                            Verdict::Pass(s) => shared.lock().unwrap().absorb(s),
                            Verdict::Inconclusive(_) => shared.lock().unwrap().inconclusive += 1,
                            Verdict::Fail(f) => match findings.attribute(&f) {
                                Some(key) => {
                                    let mut a = shared.lock().unwrap();
                                    a.cases += 1;
                                    a.evals += 1;
                                    *a.known_hits.entry(key).or_insert(0) += 1;
                                }
                                None => {
                                    // one record per root cause is enough: narrowing again would only cost time
                                    // (every step may be a dead worker)
                                    let sig = format!("{}|{}", f.class, f.msg);
                                    {
                                        let fl = found.lock().unwrap();
                                        if fl.len() >= 5 || fl.iter().any(|(_, g)| format!("{}|{}", g.class, g.msg) == sig) {
                                            continue;
                                        }
                                    }
                                    // narrow a failing fixed batch to its first failing element
                                    let mut narrowed: Option<(P::Case, Failure)> = None;
                                    for sub in p.split(c) {
                                        let v = {
                                            let mut env = Env { w: &mut w, findings, tier };
                                            p.judge(&sub, &mut env)
                                        };
                                        if let Verdict::Fail(f2) = v {
                                            if findings.attribute(&f2).is_none() {
                                                narrowed = Some((sub, f2));
                                                break;
                                            }
                                        }
                                    }
                                    let mut fl = found.lock().unwrap();
                                    if fl.len() < 5 {
                                        match narrowed {
                                            Some((sub, f2)) => fl.push((serde_json::to_value(&sub).unwrap(), f2)),
                                            None => fl.push((serde_json::to_value(c).unwrap(), f)),
                                        }
                                    }
                                }
                            },
                        }
                    }
                    // random search
                    let share = n_random as usize / K_THREADS + if k < n_random as usize % K_THREADS { 1 } else { 0 };
                    if share == 0 {
                        return;
                    }
                    let s = mix(seed, &format!("{id}/{name}"), k as u64);
                    let mut seed_bytes = [0u8; 32];
                    for (i, chunk) in seed_bytes.chunks_mut(8).enumerate() {
                        chunk.copy_from_slice(&mix(s, "rng", i as u64).to_le_bytes());
                    }
                    let _ = RngSeed::Fixed(s);
                    let config = Config {
                        cases: share as u32,
                        failure_persistence: None,
                        max_shrink_iters: tier.pick(1500, 4000),
                        max_global_rejects: 1_000_000,
                        max_local_rejects: 1_000_000,
                        verbose: 0,
                        ..Config::default()
                    };
                    let rng = proptest::test_runner::TestRng::from_seed(RngAlgorithm::ChaCha, &seed_bytes);
                    let mut runner = TestRunner::new_with_rng(config, rng);
                    let strategy = p.strategy(tier, findings);
                    let failed = std::cell::Cell::new(false);
                    let wcell = std::cell::RefCell::new(&mut w);
                    let last_fail: std::cell::RefCell<Option<Failure>> = std::cell::RefCell::new(None);
                    let res = runner.run(&strategy, |c| {
                        // another thread has already minimised a failure with the same class and message:
                        // end this thread's shrinking quickly (every remaining candidate "passes")
                        if failed.get() {
                            let sig = last_fail.borrow().as_ref().map(|f| format!("{}|{}", f.class, f.msg));
                            if let Some(sig) = sig {
                                if found.lock().unwrap().iter().any(|(_, g)| format!("{}|{}", g.class, g.msg) == sig) {
                                    return Ok(());
                                }
                            }
                        }
                        let v = {
                            let mut wb = wcell.borrow_mut();
                            let mut env = Env { w: &mut **wb, findings, tier };
                            p.judge(&c, &mut env)
                        };
                        match v {
                            Verdict::Pass(s) => {
                                if !failed.get() {
                                    shared.lock().unwrap().absorb(s);
                                }
                                Ok(())
                            }
                            Verdict::Inconclusive(_) => {
                                if !failed.get() {
                                    shared.lock().unwrap().inconclusive += 1;
                                }
                                Ok(())
                            }
                            Verdict::Fail(f) => match findings.attribute(&f) {
                                Some(key) => {
                                    if !failed.get() {
                                        let mut a = shared.lock().unwrap();
                                        a.cases += 1;
                                        a.evals += 1;
                                        *a.known_hits.entry(key).or_insert(0) += 1;
                                    }
                                    Ok(())
                                }
                                None => {
                                    failed.set(true);
                                    let m = format!("{}: {}", f.class, f.msg);
                                    *last_fail.borrow_mut() = Some(f);
                                    Err(TestCaseError::fail(m))
                                }
                            },
                        }
                    });
                    if let Err(TestError::Fail(_, minimal)) = res {
                        // re-judge the minimal case to get its own failure object
                        let v = {
                            let mut wb = wcell.borrow_mut();
                            let mut env = Env { w: &mut **wb, findings, tier };
                            p.judge(&minimal, &mut env)
                        };
                        let f = match v {
                            Verdict::Fail(f) if findings.attribute(&f).is_none() => f,
                            _ => last_fail.borrow_mut().take().unwrap_or_else(|| Failure::new("Unknown", "failure did not reproduce on the minimal case")),
                        };
                        let mut fl = found.lock().unwrap();
                        if fl.len() < 5 {
                            fl.push((serde_json::to_value(&minimal).unwrap(), f));
                        }
                    } else if let Err(TestError::Abort(r)) = res {
                        eprintln!("HARNESS-NOTE {id}/{name} thread {k}: proptest aborted: {r}");
                    }
                });
            }
        });
        let acc = shared.into_inner().unwrap();
        let found = found.into_inner().unwrap();
        // deduplicate by failure class+msg so one root cause prints once per sub-property
        let mut seen = HashSet::new();
        for (case, f) in found {
            if seen.insert(format!("{}|{}", f.class, f.msg)) {
                self.report_violation(&name, &case, &f, None);
            }
        }
        for k in acc.known_hits.keys().cloned().collect::<Vec<_>>() {
            self.known_line(&k);
        }
        eprintln!(
            "[{}] {}: cases={} evals={} nontrivial={} discarded={} known_hits={} inconclusive={} in {:.1}s",
            self.id,
            name,
            acc.cases,
            acc.evals,
            acc.nontrivial.len(),
            acc.discarded,
            acc.known_hits.values().sum::<u64>(),
            acc.inconclusive,
            t0.elapsed().as_secs_f64()
        );
        self.props.push((name, acc));
    }

    /// Write evidence and return the process exit code.
    pub fn finish(mut self) -> i32 {
        if let Mode::Replay { .. } = self.mode {
            for e in &self.harness_errors {
                eprintln!("HARNESS-ERROR {e}");
            }
            return if !self.violations.is_empty() { 1 } else if !self.harness_errors.is_empty() { 2 } else { 0 };
        }
        let mut evals = 0u64;
        let mut nontrivial = 0u64;
        let mut labels: BTreeMap<String, u64> = BTreeMap::new();
        let mut samples: Vec<Value> = vec![];
        let mut per_prop = serde_json::Map::new();
        let mut discarded = 0;
        let mut inconclusive = 0;
        let mut excluded: BTreeMap<String, u64> = BTreeMap::new();
        let mut known: BTreeMap<String, u64> = BTreeMap::new();
        let mut rules = vec![];
        let mut all_exhaustive = !self.props.is_empty();
        for (name, a) in &self.props {
            evals += a.evals;
            nontrivial += a.nontrivial.len() as u64;
            discarded += a.discarded;
            inconclusive += a.inconclusive;
            for (l, n) in &a.labels {
                *labels.entry(format!("{name}:{l}")).or_insert(0) += n;
            }
            for (l, n) in &a.excluded {
                *excluded.entry(l.clone()).or_insert(0) += n;
            }
            for (l, n) in &a.known_hits {
                *known.entry(l.clone()).or_insert(0) += n;
            }
            for s in a.samples.iter().take(3) {
                samples.push(json!({"sub": name, "case": s}));
            }
            rules.push(format!("[{}] {}", name, a.rule));
            all_exhaustive &= a.exhaustive;
            per_prop.insert(
                name.clone(),
                json!({"cases": a.cases, "evaluations": a.evals, "distinct_nontrivial": a.nontrivial.len(), "regression_files": a.regressions, "exhaustive_fixed_layer": a.exhaustive, "inconclusive": a.inconclusive, "discarded_unspecified": a.discarded}),
            );
        }
        if samples.is_empty() {
            // evidence must show at least one real case; fall back to any sample even if trivial
            for (name, a) in &self.props {
                for s in a.samples.iter().take(1) {
                    samples.push(json!({"sub": name, "case": s}));
                }
            }
        }
        let mut coverage = serde_json::Map::new();
        coverage.insert("evaluations".into(), json!(evals));
        coverage.insert("distinct_nontrivial".into(), json!(nontrivial));
        coverage.insert("rule".into(), json!(rules.join(" || ")));
        coverage.insert("samples".into(), json!(samples));
        coverage.insert("labels".into(), json!(labels));
        coverage.insert("sub_properties".into(), Value::Object(per_prop));
        coverage.insert("discarded_unspecified".into(), json!(discarded));
        coverage.insert("inconclusive_watchdog".into(), json!(inconclusive));
        coverage.insert("excluded_by_known_finding".into(), json!(excluded));
        coverage.insert("attributed_to_known_finding".into(), json!(known));
        coverage.insert("exhaustive".into(), json!(all_exhaustive));
        coverage.insert("runner_threads".into(), json!(K_THREADS));
        for (k, v) in &self.extra {
            coverage.insert(k.clone(), v.clone());
        }
        let ev = json!({
            "property_id": self.id,
            "tier": self.tier.name(),
            "seed": self.seed,
            "level": self.level,
            "coverage": Value::Object(coverage),
            "assumptions": self.assumptions,
            "wall_s": (self.start.elapsed().as_secs_f64() * 10.0).round() / 10.0,
            "violations": self.violations.len(),
        });
        let dir = root().join("evidence");
        let _ = std::fs::create_dir_all(&dir);
        let path = dir.join(format!("{}.json", self.id));
        if let Err(e) = std::fs::write(&path, serde_json::to_string_pretty(&ev).unwrap()) {
            self.harness_errors.push(format!("cannot write evidence: {e}"));
        }
        for e in &self.harness_errors {
            eprintln!("HARNESS-ERROR {e}");
        }
        println!(
            "SUMMARY property={} tier={} seed={} evaluations={} distinct_nontrivial={} violations={} inconclusive={} wall_s={:.1}",
            self.id,
            self.tier.name(),
            self.seed,
            evals,
            nontrivial,
            self.violations.len(),
            inconclusive,
            self.start.elapsed().as_secs_f64()
        );
        if !self.violations.is_empty() {
            1
        } else if !self.harness_errors.is_empty() {
            2
        } else {
            0
        }
    }
}

/// monotone index mapping for shrink-friendly choices
pub fn pick_idx(i: u16, len: usize) -> usize {
    if len == 0 { 0 } else { ((i as usize) * len) >> 16 }
}
