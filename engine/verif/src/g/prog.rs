//! E1: harness-owned AST of a core-language Abra program, printer and reference interpreter.
//! Programs are built well-typed by construction from a "choice tape" (see progen.rs).

use serde::{Deserialize, Serialize};
use std::cell::RefCell;
use std::collections::HashMap;
use std::rc::Rc;

#[derive(Clone, Debug, PartialEq, Eq, Hash, Serialize, Deserialize)]
pub enum T {
    Int,
    Bool,
    Str,
    Void,
    Tup(Vec<T>),
    Arr(Box<T>),
    St(usize),
    En(usize),
    Opt(Box<T>),
    Fun(Vec<T>, Box<T>),
}

#[derive(Clone, Debug, Serialize, Deserialize)]
pub struct StructDef {
    pub name: String,
    pub fields: Vec<(String, T)>,
}

#[derive(Clone, Debug, Serialize, Deserialize)]
pub struct EnumDef {
    pub name: String,
    pub variants: Vec<(String, Vec<T>)>,
}

#[derive(Clone, Debug, Serialize, Deserialize)]
pub struct FuncDef {
    pub name: String,
    pub params: Vec<(String, T)>,
    pub ret: T,
    pub body: Block,
    /// may change the length of an array reachable from its arguments
    pub mutates_len: bool,
}

#[derive(Clone, Copy, Debug, PartialEq, Eq, Hash, Serialize, Deserialize)]
pub enum Op {
    Add,
    Sub,
    Mul,
    Div,
    Mod,
    Lt,
    Le,
    Gt,
    Ge,
    Eq,
    Ne,
    And,
    Or,
    Cat,
}

impl Op {
    pub fn sym(self) -> &'static str {
        match self {
            Op::Add => "+",
            Op::Sub => "-",
            Op::Mul => "*",
            Op::Div => "/",
            Op::Mod => "%",
            Op::Lt => "<",
            Op::Le => "<=",
            Op::Gt => ">",
            Op::Ge => ">=",
            Op::Eq => "==",
            Op::Ne => "!=",
            Op::And => "and",
            Op::Or => "or",
            Op::Cat => "..",
        }
    }
}

#[derive(Clone, Debug, Serialize, Deserialize)]
pub enum E {
    Int(i64),
    Bool(bool),
    Str(String),
    Nil,
    Var(String),
    Bin(Op, Box<E>, Box<E>),
    Not(Box<E>),
    Neg(Box<E>),
    If(Box<E>, Block, Block),
    Blk(Block),
    Call(String, Vec<E>),
    /// call of a lambda held in a variable
    CallV(String, Vec<E>),
    Tup(Vec<E>),
    StNew(usize, Vec<E>),
    Field(Box<E>, String),
    EnNew(usize, usize, Vec<E>),
    ArrLit(Vec<E>),
    Index(Box<E>, Box<E>),
    Len(Box<E>),
    Pop(Box<E>),
    Some(Box<E>),
    /// carries its payload type: the printer needs an annotation when the context gives none
    None(T),
    Unwrap(Box<E>),
    Try(Box<E>),
    Lam(Vec<(String, T)>, Box<E>),
    Match(Box<E>, Vec<(P, E)>),
}

#[derive(Clone, Debug, Serialize, Deserialize)]
pub enum P {
    Wild,
    Bind(String),
    Int(i64),
    Bool(bool),
    Str(String),
    Nil,
    Tup(Vec<P>),
    Variant(usize, usize, Vec<P>),
    St(usize, Vec<P>),
    Some(Box<P>),
    None,
}

#[derive(Clone, Debug, Serialize, Deserialize)]
pub enum LV {
    Var(String),
    Field(String, String),
    Index(String, E),
}

#[derive(Clone, Debug, Serialize, Deserialize)]
pub enum S {
    Let { mutable: bool, name: String, ty: T, annotate: bool, e: E },
    LetPat(P, E),
    Assign(LV, E),
    OpAssign(LV, Op, E),
    /// `var c = 0` + `while c < n { c += 1; body }`: bounded by construction
    While { counter: String, n: i64, body: Block },
    ForInt { var: String, n: E, body: Block },
    ForRange { var: String, lo: E, hi: E, body: Block },
    ForArr { pat: P, arr: E, body: Block },
    Break,
    Continue,
    If(E, Block, Option<Block>),
    Expr(E),
    Print(E),
    Push(E, E),
    Return(Option<E>),
}

#[derive(Clone, Debug, Default, Serialize, Deserialize)]
pub struct Block {
    pub stmts: Vec<S>,
    pub tail: Option<Box<E>>,
}

#[derive(Clone, Debug, Default, Serialize, Deserialize)]
pub struct Prog {
    pub structs: Vec<StructDef>,
    pub enums: Vec<EnumDef>,
    pub funcs: Vec<FuncDef>,
    pub main: Block,
    /// type of main's tail expression (Int, Bool or Str), if any
    pub final_ty: Option<T>,
    pub labels: Vec<String>,
}

// ---------------------------------------------------------------------------------------------
// printer

/// One identifier occurrence with the declaration the scope model resolves it to.
#[derive(Clone, Debug, Serialize, Deserialize)]
pub struct IdentUse {
    pub offset: usize,
    pub name: String,
    /// byte range of the declaring occurrence of the name
    pub decl: (usize, usize),
    /// declared type when the generator knows it
    pub ty: Option<T>,
    /// how many same-named declarations were visible (>= 2 means shadowing was involved)
    pub visible_same_name: usize,
}

#[derive(Default)]
pub struct Recorder {
    scopes: Vec<Vec<(String, usize, usize, Option<T>)>>,
    pub uses: Vec<IdentUse>,
    funcs: Vec<(String, usize, usize, T)>,
}

impl Recorder {
    fn lookup(&self, name: &str) -> Option<(usize, usize, Option<T>, usize)> {
        let mut found = None;
        let mut count = 0;
        for sc in self.scopes.iter().rev() {
            for d in sc.iter().rev() {
                if d.0 == name {
                    count += 1;
                    if found.is_none() {
                        found = Some((d.1, d.2, d.3.clone()));
                    }
                }
            }
        }
        found.map(|(a, b, t)| (a, b, t, count))
    }
}

pub struct Printer<'a> {
    pub rec: Option<Recorder>,
    pub p: &'a Prog,
    pub out: String,
    /// records (line number, statement marker) for checks that need locations
    pub line: usize,
    pub tmp: usize,
}

impl<'a> Printer<'a> {
    pub fn ty(&self, t: &T) -> String {
        match t {
            T::Int => "int".into(),
            T::Bool => "bool".into(),
            T::Str => "string".into(),
            T::Void => "void".into(),
            T::Tup(ts) => format!("({})", ts.iter().map(|t| self.ty(t)).collect::<Vec<_>>().join(", ")),
            T::Arr(t) => format!("array<{}>", self.ty(t)),
            T::St(i) => self.p.structs[*i].name.clone(),
            T::En(i) => self.p.enums[*i].name.clone(),
            T::Opt(t) => format!("option<{}>", self.ty(t)),
            T::Fun(args, ret) => {
                if args.len() == 1 && !matches!(args[0], T::Tup(_) | T::Fun(..)) {
                    format!("{} -> {}", self.ty(&args[0]), self.ty(ret))
                } else {
                    format!("({}) -> {}", args.iter().map(|t| self.ty(t)).collect::<Vec<_>>().join(", "), self.ty(ret))
                }
            }
        }
    }

    fn push_scope(&mut self) {
        if let Some(r) = self.rec.as_mut() {
            r.scopes.push(vec![]);
        }
    }
    fn pop_scope(&mut self) {
        if let Some(r) = self.rec.as_mut() {
            r.scopes.pop();
        }
    }
    /// write a declaring occurrence of `name`; the binding becomes visible when `declare` is called
    fn w_decl(&mut self, name: &str) -> (usize, usize) {
        let a = self.out.len();
        self.w(name);
        (a, a + name.len())
    }
    fn declare(&mut self, name: &str, range: (usize, usize), ty: Option<T>) {
        if let Some(r) = self.rec.as_mut() {
            if r.scopes.is_empty() {
                r.scopes.push(vec![]);
            }
            r.scopes.last_mut().unwrap().push((name.to_string(), range.0, range.1, ty));
        }
    }
    /// write a using occurrence of a variable
    fn w_use(&mut self, name: &str) {
        let off = self.out.len();
        if let Some(r) = self.rec.as_mut() {
            if let Some((a, b, t, n)) = r.lookup(name) {
                r.uses.push(IdentUse { offset: off, name: name.to_string(), decl: (a, b), ty: t, visible_same_name: n });
            }
        }
        self.w(name);
    }
    fn w_func_use(&mut self, name: &str) {
        let off = self.out.len();
        if let Some(r) = self.rec.as_mut() {
            if let Some(f) = r.funcs.iter().find(|f| f.0 == name) {
                let u = IdentUse { offset: off, name: name.to_string(), decl: (f.1, f.2), ty: Some(f.3.clone()), visible_same_name: 1 };
                r.uses.push(u);
            }
        }
        self.w(name);
    }
    /// print a pattern, returning the bindings it introduces (name, range)
    fn w_pat(&mut self, p: &P) -> Vec<(String, (usize, usize))> {
        let mut binds = vec![];
        self.w_pat_inner(p, &mut binds);
        binds
    }
    fn w_pat_inner(&mut self, p: &P, binds: &mut Vec<(String, (usize, usize))>) {
        match p {
            P::Bind(n) => {
                let r = self.w_decl(n);
                binds.push((n.clone(), r));
            }
            P::Tup(ps) => {
                self.w("(");
                for (i, q) in ps.iter().enumerate() {
                    if i > 0 {
                        self.w(", ");
                    }
                    self.w_pat_inner(q, binds);
                }
                self.w(")");
            }
            P::Variant(e, v, ps) => {
                let name = self.p.enums[*e].variants[*v].0.clone();
                self.w(&format!(".{name}"));
                if !ps.is_empty() {
                    self.w("(");
                    for (i, q) in ps.iter().enumerate() {
                        if i > 0 {
                            self.w(", ");
                        }
                        self.w_pat_inner(q, binds);
                    }
                    self.w(")");
                }
            }
            P::St(st, ps) => {
                let name = self.p.structs[*st].name.clone();
                self.w(&format!("{name}("));
                for (i, q) in ps.iter().enumerate() {
                    if i > 0 {
                        self.w(", ");
                    }
                    self.w_pat_inner(q, binds);
                }
                self.w(")");
            }
            P::Some(q) => {
                self.w(".some(");
                self.w_pat_inner(q, binds);
                self.w(")");
            }
            other => {
                let t = self.pat(other);
                self.w(&t);
            }
        }
    }

    fn w(&mut self, s: &str) {
        self.line += s.matches('\n').count();
        self.out.push_str(s);
    }

    fn ind(&mut self, n: usize) {
        for _ in 0..n {
            self.out.push_str("  ");
        }
    }

    pub fn pat(&self, p: &P) -> String {
        match p {
            P::Wild => "_".into(),
            P::Bind(n) => n.clone(),
            P::Int(n) => format!("{n}"),
            P::Bool(b) => format!("{b}"),
            P::Str(s) => crate::g::values::str_lit(s),
            P::Nil => "nil".into(),
            P::Tup(ps) => format!("({})", ps.iter().map(|p| self.pat(p)).collect::<Vec<_>>().join(", ")),
            P::Variant(e, v, ps) => {
                let name = &self.p.enums[*e].variants[*v].0;
                if ps.is_empty() { format!(".{name}") } else { format!(".{name}({})", ps.iter().map(|p| self.pat(p)).collect::<Vec<_>>().join(", ")) }
            }
            P::St(s, ps) => format!("{}({})", self.p.structs[*s].name, ps.iter().map(|p| self.pat(p)).collect::<Vec<_>>().join(", ")),
            P::Some(p) => format!(".some({})", self.pat(p)),
            P::None => ".none".into(),
        }
    }

    fn atom(&mut self, e: &E, ind: usize) {
        // parenthesise anything that is not obviously atomic
        match e {
            E::Int(n) if *n >= 0 => self.expr(e, ind),
            E::Bool(_) | E::Str(_) | E::Nil | E::Var(_) | E::Call(..) | E::CallV(..) | E::Tup(_) | E::StNew(..) | E::ArrLit(_) | E::Index(..) | E::Field(..) | E::Len(_) | E::Pop(_) => self.expr(e, ind),
            _ => {
                self.w("(");
                self.expr(e, ind);
                self.w(")");
            }
        }
    }

    fn args(&mut self, es: &[E], ind: usize) {
        for (i, a) in es.iter().enumerate() {
            if i > 0 {
                self.w(", ");
            }
            self.expr(a, ind);
        }
    }

    pub fn expr(&mut self, e: &E, ind: usize) {
        match e {
            E::Int(n) => {
                if *n < 0 {
                    self.w(&format!("({n})"))
                } else {
                    self.w(&format!("{n}"))
                }
            }
            E::Bool(b) => self.w(&format!("{b}")),
            E::Str(s) => self.w(&crate::g::values::str_lit(s)),
            E::Nil => self.w("nil"),
            E::Var(n) => self.w_use(n),
            E::Bin(op, a, b) => {
                self.atom(a, ind);
                self.w(&format!(" {} ", op.sym()));
                self.atom(b, ind);
            }
            E::Not(a) => {
                self.w("not ");
                self.atom(a, ind);
            }
            E::Neg(a) => {
                self.w("-");
                self.atom(a, ind);
            }
            E::If(c, t, f) => {
                self.w("if ");
                self.expr(c, ind);
                self.w(" ");
                self.block(t, ind);
                self.w(" else ");
                self.block(f, ind);
            }
            E::Blk(b) => self.block(b, ind),
            E::Call(f, a) => {
                self.w_func_use(f);
                self.w("(");
                self.args(a, ind);
                self.w(")");
            }
            E::CallV(f, a) => {
                self.w_use(f);
                self.w("(");
                self.args(a, ind);
                self.w(")");
            }
            E::Tup(es) => {
                self.w("(");
                self.args(es, ind);
                self.w(")");
            }
            E::StNew(s, es) => {
                let n = self.p.structs[*s].name.clone();
                self.w(&n);
                self.w("(");
                self.args(es, ind);
                self.w(")");
            }
            E::Field(a, f) => {
                self.atom(a, ind);
                self.w(&format!(".{f}"));
            }
            E::EnNew(en, v, es) => {
                let n = format!("{}.{}", self.p.enums[*en].name, self.p.enums[*en].variants[*v].0);
                self.w(&n);
                if !es.is_empty() {
                    self.w("(");
                    self.args(es, ind);
                    self.w(")");
                }
            }
            E::ArrLit(es) => {
                self.w("[");
                self.args(es, ind);
                self.w("]");
            }
            E::Index(a, i) => {
                self.atom(a, ind);
                self.w("[");
                self.expr(i, ind);
                self.w("]");
            }
            E::Len(a) => {
                self.atom(a, ind);
                self.w(".len()");
            }
            E::Pop(a) => {
                self.atom(a, ind);
                self.w(".pop()");
            }
            E::Some(a) => {
                self.w("option.some(");
                self.expr(a, ind);
                self.w(")");
            }
            E::None(t) => {
                // `.none` needs its type from context; an annotated binding in a block always provides it
                let ty = self.ty(t);
                self.tmp += 1;
                let n = self.tmp;
                self.w(&format!("({{\n"));
                self.ind(ind + 1);
                self.w(&format!("let none_{n}: option<{ty}> = option.none\n"));
                self.ind(ind + 1);
                self.w(&format!("none_{n}\n"));
                self.ind(ind);
                self.w("})");
            }
            E::Unwrap(a) => {
                self.atom(a, ind);
                self.w("!");
            }
            E::Try(a) => {
                self.atom(a, ind);
                self.w("?");
            }
            E::Lam(ps, body) => {
                self.w("(");
                let mut decls = vec![];
                for (i, (n, t)) in ps.iter().enumerate() {
                    if i > 0 {
                        self.w(", ");
                    }
                    let r = self.w_decl(n);
                    decls.push((n.clone(), r, t.clone()));
                    let t = self.ty(t);
                    self.w(&format!(": {t}"));
                }
                self.w(") -> ");
                self.push_scope();
                for (n, r, t) in decls {
                    self.declare(&n, r, Some(t));
                }
                match &**body {
                    E::Blk(b) => self.block(b, ind),
                    other => self.atom(other, ind),
                }
                self.pop_scope();
            }
            E::Match(s, arms) => {
                self.w("match ");
                self.atom(s, ind);
                self.w(" {\n");
                for (p, b) in arms {
                    self.ind(ind + 1);
                    let binds = self.w_pat(p);
                    self.push_scope();
                    for (n, r) in binds {
                        self.declare(&n, r, None);
                    }
                    self.w(" -> ");
                    match b {
                        E::Blk(bl) => self.block(bl, ind + 1),
                        other => self.expr(other, ind + 1),
                    }
                    self.pop_scope();
                    self.w("\n");
                }
                self.ind(ind);
                self.w("}");
            }
        }
    }

    fn lv(&mut self, l: &LV, ind: usize) {
        match l {
            LV::Var(n) => self.w_use(n),
            LV::Field(v, f) => {
                self.w_use(v);
                self.w(&format!(".{f}"));
            }
            LV::Index(v, i) => {
                self.w_use(v);
                self.w("[");
                self.expr(i, ind);
                self.w("]");
            }
        }
    }

    pub fn block(&mut self, b: &Block, ind: usize) {
        self.push_scope();
        self.block_inner(b, ind);
        self.pop_scope();
    }

    fn block_inner(&mut self, b: &Block, ind: usize) {
        self.w("{\n");
        for s in &b.stmts {
            self.stmt(s, ind + 1);
        }
        if let Some(t) = &b.tail {
            self.ind(ind + 1);
            self.expr(t, ind + 1);
            self.w("\n");
        }
        self.ind(ind);
        self.w("}");
    }

    pub fn stmt(&mut self, s: &S, ind: usize) {
        self.ind(ind);
        match s {
            S::Let { mutable, name, ty, annotate, e } => {
                self.w(if *mutable { "var " } else { "let " });
                let r = self.w_decl(name);
                if *annotate {
                    let t = self.ty(ty);
                    self.w(&format!(": {t}"));
                }
                self.w(" = ");
                if let (true, E::None(_)) = (*annotate, e) {
                    self.w("option.none");
                } else {
                    self.expr(e, ind);
                }
                self.declare(name, r, Some(ty.clone()));
            }
            S::LetPat(p, e) => {
                self.w("let ");
                let binds = self.w_pat(p);
                self.w(" = ");
                self.expr(e, ind);
                for (n, r) in binds {
                    self.declare(&n, r, None);
                }
            }
            S::Assign(l, e) => {
                self.lv(l, ind);
                self.w(" = ");
                self.expr(e, ind);
            }
            S::OpAssign(l, op, e) => {
                self.lv(l, ind);
                self.w(&format!(" {}= ", op.sym()));
                self.expr(e, ind);
            }
            S::While { counter, n, body } => {
                self.w("var ");
                let r = self.w_decl(counter);
                self.w(" = 0\n");
                self.declare(counter, r, Some(T::Int));
                self.ind(ind);
                self.w("while ");
                self.w_use(counter);
                self.w(&format!(" < {n} {{\n"));
                self.push_scope();
                self.ind(ind + 1);
                self.w_use(counter);
                self.w(" += 1\n");
                for s in &body.stmts {
                    self.stmt(s, ind + 1);
                }
                self.pop_scope();
                self.ind(ind);
                self.w("}");
            }
            S::ForInt { var, n, body } => {
                self.w("for ");
                let r = self.w_decl(var);
                self.w(" in ");
                self.atom(n, ind);
                self.w(" ");
                self.push_scope();
                self.declare(var, r, Some(T::Int));
                self.block(body, ind);
                self.pop_scope();
            }
            S::ForRange { var, lo, hi, body } => {
                self.w("for ");
                let r = self.w_decl(var);
                self.w(" in range(");
                self.expr(lo, ind);
                self.w(", ");
                self.expr(hi, ind);
                self.w(") ");
                self.push_scope();
                self.declare(var, r, Some(T::Int));
                self.block(body, ind);
                self.pop_scope();
            }
            S::ForArr { pat, arr, body } => {
                self.w("for ");
                let binds = self.w_pat(pat);
                self.w(" in ");
                self.atom(arr, ind);
                self.w(" ");
                self.push_scope();
                for (n, r) in binds {
                    self.declare(&n, r, None);
                }
                self.block(body, ind);
                self.pop_scope();
            }
            S::Break => self.w("break"),
            S::Continue => self.w("continue"),
            S::If(c, t, f) => {
                self.w("if ");
                self.expr(c, ind);
                self.w(" ");
                self.block(t, ind);
                if let Some(f) = f {
                    self.w(" else ");
                    self.block(f, ind);
                }
            }
            S::Expr(e) => self.expr(e, ind),
            S::Print(e) => {
                self.w("println(");
                self.expr(e, ind);
                self.w(")");
            }
            S::Push(a, v) => {
                self.atom(a, ind);
                self.w(".push(");
                self.expr(v, ind);
                self.w(")");
            }
            S::Return(e) => {
                self.w("return");
                if let Some(e) = e {
                    self.w(" ");
                    self.expr(e, ind);
                }
            }
        }
        self.w("\n");
    }
}

pub fn print_prog(p: &Prog) -> String {
    print_prog_rec(p, false).0
}

/// print and, if asked, record every identifier occurrence with the declaration the scope model picks
pub fn print_prog_rec(p: &Prog, record: bool) -> (String, Vec<IdentUse>) {
    let mut pr = Printer { rec: if record { Some(Recorder::default()) } else { None }, p, out: String::new(), line: 1, tmp: 0 };
    for s in &p.structs {
        pr.w(&format!("type {} = {{\n", s.name));
        for (f, t) in &s.fields {
            let t = pr.ty(t);
            pr.w(&format!("  {f}: {t}\n"));
        }
        pr.w("}\n\n");
    }
    for e in &p.enums {
        pr.w(&format!("type {} =\n", e.name));
        for (v, ts) in &e.variants {
            if ts.is_empty() {
                pr.w(&format!("  | {v}\n"));
            } else {
                let t = ts.iter().map(|t| pr.ty(t)).collect::<Vec<_>>().join(", ");
                pr.w(&format!("  | {v}({t})\n"));
            }
        }
        pr.w("\n");
    }
    // function names are visible everywhere (also before their definition): record them first
    if pr.rec.is_some() {
        let mut probe = Printer { rec: None, p, out: pr.out.clone(), line: 1, tmp: 0 };
        let mut funcs = vec![];
        for f in &p.funcs {
            probe.w("fn ");
            let a = probe.out.len();
            funcs.push((f.name.clone(), a, a + f.name.len(), T::Fun(f.params.iter().map(|x| x.1.clone()).collect(), Box::new(f.ret.clone()))));
            let ps = f.params.iter().map(|(n, t)| format!("{n}: {}", probe.ty(t))).collect::<Vec<_>>().join(", ");
            let rt = probe.ty(&f.ret);
            probe.w(&format!("{}({ps}) -> {rt} ", f.name));
            probe.block(&f.body, 0);
            probe.w("\n\n");
        }
        pr.rec.as_mut().unwrap().funcs = funcs;
    }
    for f in &p.funcs {
        pr.w("fn ");
        pr.w(&f.name);
        pr.w("(");
        pr.push_scope();
        for (i, (n, t)) in f.params.iter().enumerate() {
            if i > 0 {
                pr.w(", ");
            }
            let r = pr.w_decl(n);
            let ts = pr.ty(t);
            pr.w(&format!(": {ts}"));
            pr.declare(n, r, Some(t.clone()));
        }
        let rt = pr.ty(&f.ret);
        pr.w(&format!(") -> {rt} "));
        pr.block(&f.body, 0);
        pr.pop_scope();
        pr.w("\n\n");
    }
    pr.push_scope();
    for s in &p.main.stmts {
        pr.stmt(s, 0);
    }
    if let Some(t) = &p.main.tail {
        pr.expr(t, 0);
        pr.w("\n");
    }
    let uses = pr.rec.take().map(|r| r.uses).unwrap_or_default();
    (pr.out, uses)
}

// ---------------------------------------------------------------------------------------------
// reference interpreter

#[derive(Clone, Debug)]
pub enum V {
    Int(i64),
    Bool(bool),
    Str(Rc<String>),
    Nil,
    Tup(Rc<Vec<V>>),
    Arr(Rc<RefCell<Vec<V>>>),
    St(usize, Rc<RefCell<Vec<V>>>),
    En(usize, usize, Rc<Vec<V>>),
    Opt(Option<Rc<V>>),
    Clo(Rc<Closure>),
}

#[derive(Debug)]
pub struct Closure {
    pub params: Vec<String>,
    pub body: E,
    pub env: Vec<(String, V)>,
}

#[derive(Clone, Debug, PartialEq)]
pub enum RefErr {
    Panic,
    Oob,
    Overflow,
    Div0,
}

#[derive(Clone, Debug, PartialEq)]
pub enum RefEnd {
    Done,
    Error(RefErr),
    Unspecified(String),
}

#[derive(Clone, Debug)]
pub struct RefOutcome {
    pub printed: String,
    pub final_value: Option<crate::proto::Scalar>,
    pub end: RefEnd,
    pub ops: u64,
    pub calls: u64,
    pub loops: u64,
    pub heap_values: u64,
    pub try_none: u64,
    pub try_some: u64,
    pub unwraps: u64,
    pub closure_calls: u64,
    pub stale_capture_calls: u64,
}

enum Stop {
    Err(RefErr),
    Break,
    Continue,
    Return(V),
    Unspec(String),
}

type R<X> = Result<X, Stop>;

pub fn render(v: &V) -> String {
    match v {
        V::Int(n) => n.to_string(),
        V::Bool(b) => b.to_string(),
        V::Str(s) => s.to_string(),
        V::Nil => "nil".into(),
        V::Tup(vs) => format!("({})", vs.iter().map(render).collect::<Vec<_>>().join(", ")),
        V::Arr(a) => {
            let a = a.borrow();
            format!("[ {} ]", a.iter().map(render).collect::<Vec<_>>().join(", "))
        }
        V::Opt(None) => "none".into(),
        V::Opt(Some(x)) => format!("some({})", render(x)),
        V::St(..) | V::En(..) | V::Clo(_) => "<unprintable>".into(),
    }
}

fn veq(a: &V, b: &V) -> bool {
    match (a, b) {
        (V::Int(x), V::Int(y)) => x == y,
        (V::Bool(x), V::Bool(y)) => x == y,
        (V::Str(x), V::Str(y)) => x == y,
        (V::Nil, V::Nil) => true,
        (V::Tup(x), V::Tup(y)) => x.len() == y.len() && x.iter().zip(y.iter()).all(|(p, q)| veq(p, q)),
        (V::Arr(x), V::Arr(y)) => {
            let (x, y) = (x.borrow(), y.borrow());
            x.len() == y.len() && x.iter().zip(y.iter()).all(|(p, q)| veq(p, q))
        }
        _ => false,
    }
}

pub struct Interp<'a> {
    pub p: &'a Prog,
    pub out: String,
    pub ops: u64,
    pub calls: u64,
    pub loops: u64,
    pub heap_values: u64,
    pub max_ops: u64,
    pub try_none: u64,
    pub try_some: u64,
    pub unwraps: u64,
    pub closure_calls: u64,
    pub stale_capture_calls: u64,
    funcs: HashMap<&'a str, &'a FuncDef>,
    depth: usize,
}

struct Env {
    scopes: Vec<Vec<(String, V)>>,
}

impl Env {
    fn get(&self, n: &str) -> Option<V> {
        for s in self.scopes.iter().rev() {
            for (k, v) in s.iter().rev() {
                if k == n {
                    return Some(v.clone());
                }
            }
        }
        None
    }
    fn set(&mut self, n: &str, val: V) -> bool {
        for s in self.scopes.iter_mut().rev() {
            for (k, v) in s.iter_mut().rev() {
                if k == n {
                    *v = val;
                    return true;
                }
            }
        }
        false
    }
    fn declare(&mut self, n: &str, v: V) {
        self.scopes.last_mut().unwrap().push((n.to_string(), v));
    }
    fn snapshot(&self) -> Vec<(String, V)> {
        // innermost binding of every visible name
        let mut seen = std::collections::HashSet::new();
        let mut out = vec![];
        for s in self.scopes.iter().rev() {
            for (k, v) in s.iter().rev() {
                if seen.insert(k.clone()) {
                    out.push((k.clone(), v.clone()));
                }
            }
        }
        out
    }
}

impl<'a> Interp<'a> {
    pub fn new(p: &'a Prog) -> Interp<'a> {
        let mut funcs = HashMap::new();
        for f in &p.funcs {
            funcs.insert(f.name.as_str(), f);
        }
        Interp { p, out: String::new(), ops: 0, calls: 0, loops: 0, heap_values: 0, max_ops: 300_000, try_none: 0, try_some: 0, unwraps: 0, closure_calls: 0, stale_capture_calls: 0, funcs, depth: 0 }
    }

    fn tick(&mut self) -> R<()> {
        self.ops += 1;
        if self.ops > self.max_ops || self.out.len() > 200_000 {
            return Err(Stop::Unspec("reference budget exceeded".into()));
        }
        Ok(())
    }

    fn int(&self, v: V) -> i64 {
        match v {
            V::Int(n) => n,
            other => panic!("reference interpreter: expected int, got {other:?}"),
        }
    }
    fn boolean(&self, v: V) -> bool {
        match v {
            V::Bool(b) => b,
            other => panic!("reference interpreter: expected bool, got {other:?}"),
        }
    }

    fn arith(&self, op: Op, a: i64, b: i64) -> R<V> {
        let r = match op {
            Op::Add => a.checked_add(b).ok_or(RefErr::Overflow),
            Op::Sub => a.checked_sub(b).ok_or(RefErr::Overflow),
            Op::Mul => a.checked_mul(b).ok_or(RefErr::Overflow),
            Op::Div => {
                if b == 0 {
                    Err(RefErr::Div0)
                } else {
                    a.checked_div(b).ok_or(RefErr::Overflow)
                }
            }
            Op::Mod => {
                if b == 0 {
                    Err(RefErr::Div0)
                } else {
                    Ok(a.wrapping_rem_euclid(b))
                }
            }
            _ => unreachable!(),
        };
        r.map(V::Int).map_err(Stop::Err)
    }

    fn binop(&mut self, op: Op, a: &E, b: &E, env: &mut Env) -> R<V> {
        match op {
            Op::And => {
                let x = self.eval(a, env)?;
                if !self.boolean(x) {
                    return Ok(V::Bool(false));
                }
                let y = self.eval(b, env)?;
                Ok(V::Bool(self.boolean(y)))
            }
            Op::Or => {
                let x = self.eval(a, env)?;
                if self.boolean(x) {
                    return Ok(V::Bool(true));
                }
                let y = self.eval(b, env)?;
                Ok(V::Bool(self.boolean(y)))
            }
            _ => {
                let x = self.eval(a, env)?;
                let y = self.eval(b, env)?;
                match op {
                    Op::Add | Op::Sub | Op::Mul | Op::Div | Op::Mod => self.arith(op, self.int(x), self.int(y)),
                    Op::Eq => Ok(V::Bool(veq(&x, &y))),
                    Op::Ne => Ok(V::Bool(!veq(&x, &y))),
                    Op::Cat => {
                        self.heap_values += 1;
                        Ok(V::Str(Rc::new(format!("{}{}", render(&x), render(&y)))))
                    }
                    Op::Lt | Op::Le | Op::Gt | Op::Ge => {
                        let ord = match (&x, &y) {
                            (V::Int(p), V::Int(q)) => p.cmp(q),
                            (V::Str(p), V::Str(q)) => p.as_bytes().cmp(q.as_bytes()),
                            _ => panic!("reference interpreter: unordered operands"),
                        };
                        Ok(V::Bool(match op {
                            Op::Lt => ord.is_lt(),
                            Op::Le => ord.is_le(),
                            Op::Gt => ord.is_gt(),
                            _ => ord.is_ge(),
                        }))
                    }
                    _ => unreachable!(),
                }
            }
        }
    }

    fn matches(&self, p: &P, v: &V, binds: &mut Vec<(String, V)>) -> bool {
        match (p, v) {
            (P::Wild, _) => true,
            (P::Bind(n), v) => {
                binds.push((n.clone(), v.clone()));
                true
            }
            (P::Int(n), V::Int(m)) => n == m,
            (P::Bool(n), V::Bool(m)) => n == m,
            (P::Str(n), V::Str(m)) => n == &**m,
            (P::Nil, V::Nil) => true,
            (P::Tup(ps), V::Tup(vs)) => ps.len() == vs.len() && ps.iter().zip(vs.iter()).all(|(p, v)| self.matches(p, v, binds)),
            (P::Variant(e, vi, ps), V::En(e2, v2, vs)) => e == e2 && vi == v2 && ps.len() == vs.len() && ps.iter().zip(vs.iter()).all(|(p, v)| self.matches(p, v, binds)),
            (P::St(s, ps), V::St(s2, fs)) => {
                let fs = fs.borrow();
                s == s2 && ps.len() == fs.len() && ps.iter().zip(fs.iter()).all(|(p, v)| self.matches(p, v, binds))
            }
            (P::Some(p), V::Opt(Some(x))) => self.matches(p, x, binds),
            (P::None, V::Opt(None)) => true,
            _ => false,
        }
    }

    fn index(&self, a: &V, i: i64) -> R<V> {
        match a {
            V::Arr(arr) => {
                let arr = arr.borrow();
                if i < 0 || i as usize >= arr.len() {
                    return Err(Stop::Err(RefErr::Oob));
                }
                Ok(arr[i as usize].clone())
            }
            other => panic!("reference interpreter: index into {other:?}"),
        }
    }

    fn call_func(&mut self, f: &'a FuncDef, args: Vec<V>) -> R<V> {
        self.calls += 1;
        self.depth += 1;
        if self.depth > 60 {
            self.depth -= 1;
            return Err(Stop::Unspec("reference recursion depth".into()));
        }
        let mut env = Env { scopes: vec![f.params.iter().map(|(n, _)| n.clone()).zip(args).collect()] };
        let r = self.eval_block(&f.body, &mut env);
        self.depth -= 1;
        match r {
            Ok(v) => Ok(v),
            Err(Stop::Return(v)) => Ok(v),
            Err(e) => Err(e),
        }
    }

    fn call_closure(&mut self, c: &Rc<Closure>, args: Vec<V>) -> R<V> {
        self.calls += 1;
        self.depth += 1;
        if self.depth > 60 {
            self.depth -= 1;
            return Err(Stop::Unspec("reference recursion depth".into()));
        }
        let mut captured: Vec<(String, V)> = c.env.iter().rev().cloned().collect();
        captured.extend(c.params.iter().cloned().zip(args));
        let mut env = Env { scopes: vec![captured] };
        let r = self.eval(&c.body, &mut env);
        self.depth -= 1;
        match r {
            Ok(v) => Ok(v),
            Err(Stop::Return(v)) => Ok(v),
            Err(e) => Err(e),
        }
    }

    pub fn eval(&mut self, e: &E, env: &mut Env) -> R<V> {
        self.tick()?;
        match e {
            E::Int(n) => Ok(V::Int(*n)),
            E::Bool(b) => Ok(V::Bool(*b)),
            E::Str(s) => Ok(V::Str(Rc::new(s.clone()))),
            E::Nil => Ok(V::Nil),
            E::Var(n) => Ok(env.get(n).unwrap_or_else(|| panic!("reference interpreter: unbound {n}"))),
            E::Bin(op, a, b) => self.binop(*op, a, b, env),
            E::Not(a) => {
                let x = self.eval(a, env)?;
                Ok(V::Bool(!self.boolean(x)))
            }
            E::Neg(a) => {
                let x = self.eval(a, env)?;
                self.arith(Op::Sub, 0, self.int(x))
            }
            E::If(c, t, f) => {
                let cv = self.eval(c, env)?;
                if self.boolean(cv) { self.eval_block(t, env) } else { self.eval_block(f, env) }
            }
            E::Blk(b) => self.eval_block(b, env),
            E::Call(name, args) => {
                let mut vs = vec![];
                for a in args {
                    vs.push(self.eval(a, env)?);
                }
                let f = *self.funcs.get(name.as_str()).unwrap_or_else(|| panic!("reference interpreter: unknown fn {name}"));
                self.call_func(f, vs)
            }
            E::CallV(name, args) => {
                let mut vs = vec![];
                for a in args {
                    vs.push(self.eval(a, env)?);
                }
                match env.get(name) {
                    Some(V::Clo(c)) => {
                        self.closure_calls += 1;
                        let stale = c.env.iter().any(|(n, v)| match (env.get(n), v) {
                            (Some(V::Int(a)), V::Int(b)) => a != *b,
                            (Some(V::Bool(a)), V::Bool(b)) => a != *b,
                            (Some(V::Str(a)), V::Str(b)) => a != *b,
                            _ => false,
                        });
                        if stale {
                            self.stale_capture_calls += 1;
                        }
                        self.call_closure(&c, vs)
                    }
                    other => panic!("reference interpreter: {name} is not a closure: {other:?}"),
                }
            }
            E::Tup(es) => {
                let mut vs = vec![];
                for a in es {
                    vs.push(self.eval(a, env)?);
                }
                self.heap_values += 1;
                Ok(V::Tup(Rc::new(vs)))
            }
            E::StNew(s, es) => {
                let mut vs = vec![];
                for a in es {
                    vs.push(self.eval(a, env)?);
                }
                self.heap_values += 1;
                Ok(V::St(*s, Rc::new(RefCell::new(vs))))
            }
            E::Field(a, f) => {
                let v = self.eval(a, env)?;
                match v {
                    V::St(s, fs) => {
                        let idx = self.p.structs[s].fields.iter().position(|(n, _)| n == f).unwrap();
                        Ok(fs.borrow()[idx].clone())
                    }
                    other => panic!("reference interpreter: field of {other:?}"),
                }
            }
            E::EnNew(en, v, es) => {
                let mut vs = vec![];
                for a in es {
                    vs.push(self.eval(a, env)?);
                }
                self.heap_values += 1;
                Ok(V::En(*en, *v, Rc::new(vs)))
            }
            E::ArrLit(es) => {
                let mut vs = vec![];
                for a in es {
                    vs.push(self.eval(a, env)?);
                }
                self.heap_values += 1;
                Ok(V::Arr(Rc::new(RefCell::new(vs))))
            }
            E::Index(a, i) => {
                let av = self.eval(a, env)?;
                let iv = self.eval(i, env)?;
                self.index(&av, self.int(iv))
            }
            E::Len(a) => match self.eval(a, env)? {
                V::Arr(arr) => Ok(V::Int(arr.borrow().len() as i64)),
                other => panic!("reference interpreter: len of {other:?}"),
            },
            E::Pop(a) => match self.eval(a, env)? {
                V::Arr(arr) => arr.borrow_mut().pop().ok_or(Stop::Err(RefErr::Oob)),
                other => panic!("reference interpreter: pop of {other:?}"),
            },
            E::Some(a) => {
                let v = self.eval(a, env)?;
                self.heap_values += 1;
                Ok(V::Opt(Some(Rc::new(v))))
            }
            E::None(_) => Ok(V::Opt(None)),
            E::Unwrap(a) => match self.eval(a, env)? {
                V::Opt(Some(x)) => {
                    self.unwraps += 1;
                    Ok((*x).clone())
                }
                V::Opt(None) => Err(Stop::Err(RefErr::Panic)),
                other => panic!("reference interpreter: unwrap of {other:?}"),
            },
            E::Try(a) => match self.eval(a, env)? {
                V::Opt(Some(x)) => {
                    self.try_some += 1;
                    Ok((*x).clone())
                }
                V::Opt(None) => {
                    self.try_none += 1;
                    Err(Stop::Return(V::Opt(None)))
                }
                other => panic!("reference interpreter: try of {other:?}"),
            },
            E::Lam(ps, body) => {
                self.heap_values += 1;
                Ok(V::Clo(Rc::new(Closure { params: ps.iter().map(|(n, _)| n.clone()).collect(), body: (**body).clone(), env: env.snapshot() })))
            }
            E::Match(s, arms) => {
                let v = self.eval(s, env)?;
                for (p, body) in arms {
                    let mut binds = vec![];
                    if self.matches(p, &v, &mut binds) {
                        env.scopes.push(binds);
                        let r = self.eval(body, env);
                        env.scopes.pop();
                        return r;
                    }
                }
                panic!("reference interpreter: no arm matched (generator must build exhaustive matches)")
            }
        }
    }

    pub fn eval_block(&mut self, b: &Block, env: &mut Env) -> R<V> {
        env.scopes.push(vec![]);
        let r = self.eval_block_inner(b, env);
        env.scopes.pop();
        r
    }

    fn eval_block_inner(&mut self, b: &Block, env: &mut Env) -> R<V> {
        for s in &b.stmts {
            self.exec(s, env)?;
        }
        match &b.tail {
            Some(t) => self.eval(t, env),
            None => Ok(V::Nil),
        }
    }

    fn assign(&mut self, l: &LV, v: V, env: &mut Env) -> R<()> {
        match l {
            LV::Var(n) => {
                assert!(env.set(n, v), "reference interpreter: assign to unbound {n}");
                Ok(())
            }
            LV::Field(var, f) => match env.get(var) {
                Some(V::St(s, fs)) => {
                    let idx = self.p.structs[s].fields.iter().position(|(n, _)| n == f).unwrap();
                    fs.borrow_mut()[idx] = v;
                    Ok(())
                }
                other => panic!("reference interpreter: field assign on {other:?}"),
            },
            LV::Index(var, i) => {
                let iv = self.eval(i, env)?;
                let i = self.int(iv);
                match env.get(var) {
                    Some(V::Arr(arr)) => {
                        let mut arr = arr.borrow_mut();
                        if i < 0 || i as usize >= arr.len() {
                            return Err(Stop::Err(RefErr::Oob));
                        }
                        arr[i as usize] = v;
                        Ok(())
                    }
                    other => panic!("reference interpreter: index assign on {other:?}"),
                }
            }
        }
    }

    fn read_lv(&mut self, l: &LV, env: &mut Env) -> R<V> {
        match l {
            LV::Var(n) => Ok(env.get(n).unwrap()),
            LV::Field(var, f) => self.eval(&E::Field(Box::new(E::Var(var.clone())), f.clone()), env),
            LV::Index(var, i) => self.eval(&E::Index(Box::new(E::Var(var.clone())), Box::new(i.clone())), env),
        }
    }

    fn loop_body(&mut self, body: &Block, env: &mut Env) -> R<bool> {
        // returns Ok(true) to continue looping, Ok(false) on break
        self.loops += 1;
        match self.eval_block(body, env) {
            Ok(_) => Ok(true),
            Err(Stop::Continue) => Ok(true),
            Err(Stop::Break) => Ok(false),
            Err(e) => Err(e),
        }
    }

    pub fn exec(&mut self, s: &S, env: &mut Env) -> R<()> {
        self.tick()?;
        match s {
            S::Let { name, e, .. } => {
                let v = self.eval(e, env)?;
                env.declare(name, v);
            }
            S::LetPat(p, e) => {
                let v = self.eval(e, env)?;
                let mut binds = vec![];
                assert!(self.matches(p, &v, &mut binds), "reference interpreter: refutable let pattern");
                for (n, v) in binds {
                    env.declare(&n, v);
                }
            }
            S::Assign(l, e) => {
                // targets are side-effect free; the right-hand side is evaluated before the store
                let v = self.eval(e, env)?;
                self.assign(l, v, env)?;
            }
            S::OpAssign(l, op, e) => {
                // documented desugaring: x = x op e
                let cur = self.read_lv(l, env)?;
                let r = self.eval(e, env)?;
                let v = self.arith(*op, self.int(cur), self.int(r))?;
                self.assign(l, v, env)?;
            }
            S::While { counter, n, body } => {
                env.declare(counter, V::Int(0));
                loop {
                    let c = self.int(env.get(counter).unwrap());
                    if c >= *n {
                        break;
                    }
                    env.set(counter, V::Int(c + 1));
                    if !self.loop_body(body, env)? {
                        break;
                    }
                }
            }
            S::ForInt { var, n, body } => {
                let nv = self.eval(n, env)?;
                let n = self.int(nv);
                let mut i = 0;
                while i < n {
                    env.scopes.push(vec![(var.clone(), V::Int(i))]);
                    let r = self.loop_body(body, env);
                    env.scopes.pop();
                    if !r? {
                        break;
                    }
                    i += 1;
                }
            }
            S::ForRange { var, lo, hi, body } => {
                let l = self.eval(lo, env)?;
                let h = self.eval(hi, env)?;
                let (mut i, h) = (self.int(l), self.int(h));
                while i < h {
                    env.scopes.push(vec![(var.clone(), V::Int(i))]);
                    let r = self.loop_body(body, env);
                    env.scopes.pop();
                    if !r? {
                        break;
                    }
                    i += 1;
                }
            }
            S::ForArr { pat, arr, body } => {
                let av = self.eval(arr, env)?;
                let V::Arr(a) = av else { panic!("reference interpreter: for over non-array") };
                let mut i = 0usize;
                loop {
                    let item = {
                        let b = a.borrow();
                        if i >= b.len() {
                            break;
                        }
                        b[i].clone()
                    };
                    let mut binds = vec![];
                    assert!(self.matches(pat, &item, &mut binds));
                    env.scopes.push(binds);
                    let r = self.loop_body(body, env);
                    env.scopes.pop();
                    if !r? {
                        break;
                    }
                    i += 1;
                }
            }
            S::Break => return Err(Stop::Break),
            S::Continue => return Err(Stop::Continue),
            S::If(c, t, f) => {
                let cv = self.eval(c, env)?;
                if self.boolean(cv) {
                    self.eval_block(t, env)?;
                } else if let Some(f) = f {
                    self.eval_block(f, env)?;
                }
            }
            S::Expr(e) => {
                self.eval(e, env)?;
            }
            S::Print(e) => {
                let v = self.eval(e, env)?;
                self.out.push_str(&render(&v));
                self.out.push('\n');
            }
            S::Push(a, v) => {
                let av = self.eval(a, env)?;
                let vv = self.eval(v, env)?;
                match av {
                    V::Arr(arr) => arr.borrow_mut().push(vv),
                    other => panic!("reference interpreter: push to {other:?}"),
                }
            }
            S::Return(e) => {
                let v = match e {
                    Some(e) => self.eval(e, env)?,
                    None => V::Nil,
                };
                return Err(Stop::Return(v));
            }
        }
        Ok(())
    }
}

pub fn run_reference(p: &Prog) -> RefOutcome {
    let mut it = Interp::new(p);
    let mut env = Env { scopes: vec![vec![]] };
    let r = it.eval_block_inner(&p.main, &mut env);
    let (end, fv) = match r {
        Ok(v) => {
            let fv = match (&p.final_ty, &v) {
                (Some(T::Int), V::Int(n)) => Some(crate::proto::Scalar::Int(*n)),
                (Some(T::Bool), V::Bool(b)) => Some(crate::proto::Scalar::Bool(*b)),
                (Some(T::Str), V::Str(s)) => Some(crate::proto::Scalar::Str(s.to_string())),
                _ => None,
            };
            (RefEnd::Done, fv)
        }
        // a top-level return ends the program normally
        Err(Stop::Return(_)) => (RefEnd::Done, None),
        Err(Stop::Err(e)) => (RefEnd::Error(e), None),
        Err(Stop::Unspec(s)) => (RefEnd::Unspecified(s), None),
        Err(Stop::Break) | Err(Stop::Continue) => panic!("reference interpreter: break/continue escaped a loop"),
    };
    RefOutcome { printed: it.out, final_value: fv, end, ops: it.ops, calls: it.calls, loops: it.loops, heap_values: it.heap_values, try_none: it.try_none, try_some: it.try_some, unwraps: it.unwraps, closure_calls: it.closure_calls, stale_capture_calls: it.stale_capture_calls }
}
