//! Shared generators.
pub mod batch;
pub mod vals;
pub mod values;
