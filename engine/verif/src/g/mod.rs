//! Shared generators.
pub mod abv;
pub mod batch;
pub mod values;
