//! Shared generators.
pub mod batch;
pub mod values;
