//! Shared generators.
pub mod abv;
pub mod batch;
<<<<<<< HEAD
pub mod kpn;
=======
pub mod matchgen;
>>>>>>> agent-match
pub mod prog;
pub mod srccase;
pub mod textmut;
pub mod progen;
pub mod vals;
pub mod values;
