//! Shared generators.
pub mod batch;
pub mod prog;
pub mod srccase;
pub mod textmut;
pub mod progen;
pub mod vals;
pub mod values;
