//! Small-scope universe for the pattern-matching checks (C12, C13, C14): a bounded set of types,
//! every value of a type, patterns, a brute-force reference matcher, the witness parser for the
//! "cases are missing" diagnostic, and the builders that put many matches into one compilation
//! unit (one function per arm list; diagnostics are mapped back by source range).

use crate::harness::*;
use crate::proto::*;
use proptest::prelude::*;
use serde::{Deserialize, Serialize};
use std::sync::OnceLock;

// ---------------------------------------------------------------------------------------------
// types

#[derive(Clone, Debug, Serialize, Deserialize, PartialEq, Eq, Hash, PartialOrd, Ord)]
pub enum Ty {
    Bool,
    Void,
    Int,
    Float,
    Str,
    Tuple(Vec<Ty>),
    /// declared (or built-in generic) nominal type with its type arguments
    Nom(String, Vec<Ty>),
    /// type parameter inside a declaration (never in a scrutinee type)
    Param(u8),
}

pub struct VariantDecl {
    pub name: &'static str,
    pub fields: Vec<(Option<&'static str>, Ty)>,
}

pub enum DeclKind {
    Enum(Vec<VariantDecl>),
    Struct(Vec<(&'static str, Ty)>),
}

pub struct Decl {
    pub name: &'static str,
    pub params: u8,
    /// declared by the prelude (option, result): not emitted
    pub builtin: bool,
    pub kind: DeclKind,
}

fn nom0(n: &str) -> Ty {
    Ty::Nom(n.to_string(), vec![])
}

pub fn decls() -> &'static Vec<Decl> {
    static D: OnceLock<Vec<Decl>> = OnceLock::new();
    D.get_or_init(|| {
        let v = |name, fields| VariantDecl { name, fields };
        let color = || nom0("Color");
        vec![
            Decl { name: "Color", params: 0, builtin: false, kind: DeclKind::Enum(vec![v("Red", vec![]), v("Green", vec![]), v("Blue", vec![])]) },
            Decl {
                name: "Shape",
                params: 0,
                builtin: false,
                kind: DeclKind::Enum(vec![v("Circle", vec![(None, Ty::Bool)]), v("Rect", vec![(None, Ty::Bool), (None, Ty::Bool)]), v("Origin", vec![])]),
            },
            Decl {
                name: "Nv",
                params: 0,
                builtin: false,
                kind: DeclKind::Enum(vec![v("Sw", vec![(Some("on"), Ty::Bool)]), v("Pr", vec![(Some("fst"), Ty::Bool), (Some("snd"), color())]), v("Br", vec![])]),
            },
            Decl { name: "Pt", params: 0, builtin: false, kind: DeclKind::Struct(vec![("b", Ty::Bool), ("c", color())]) },
            Decl { name: "Rf", params: 1, builtin: false, kind: DeclKind::Struct(vec![("value", Ty::Param(0))]) },
            Decl {
                name: "Vd",
                params: 0,
                builtin: false,
                kind: DeclKind::Enum(vec![
                    v("Wn", vec![(None, Ty::Bool), (None, Ty::Void)]),
                    v("Wv", vec![(None, Ty::Void)]),
                    v("Wt", vec![(None, Ty::Tuple(vec![Ty::Void, Ty::Bool]))]),
                    v("Wz", vec![]),
                ]),
            },
            Decl {
                name: "Tw",
                params: 0,
                builtin: false,
                kind: DeclKind::Enum(vec![v("Lf", vec![(None, Ty::Bool), (None, color())]), v("Rt", vec![(None, color()), (None, Ty::Bool)])]),
            },
            Decl {
                name: "On",
                params: 0,
                builtin: false,
                kind: DeclKind::Enum(vec![v("Only", vec![(Some("pr"), Ty::Tuple(vec![Ty::Bool, Ty::Void])), (Some("kc"), color())])]),
            },
            Decl { name: "Wr", params: 0, builtin: false, kind: DeclKind::Struct(vec![("tp", Ty::Tuple(vec![Ty::Bool, nom0("On")])), ("vd", Ty::Void)]) },
            Decl { name: "option", params: 1, builtin: true, kind: DeclKind::Enum(vec![v("some", vec![(None, Ty::Param(0))]), v("none", vec![])]) },
            Decl { name: "result", params: 2, builtin: true, kind: DeclKind::Enum(vec![v("ok", vec![(None, Ty::Param(0))]), v("err", vec![(None, Ty::Param(1))])]) },
        ]
    })
}

pub fn decl(name: &str) -> &'static Decl {
    decls().iter().find(|d| d.name == name).unwrap_or_else(|| panic!("unknown declaration {name}"))
}

fn subst(t: &Ty, args: &[Ty]) -> Ty {
    match t {
        Ty::Param(i) => args[*i as usize].clone(),
        Ty::Tuple(ts) => Ty::Tuple(ts.iter().map(|t| subst(t, args)).collect()),
        Ty::Nom(n, a) => Ty::Nom(n.clone(), a.iter().map(|t| subst(t, args)).collect()),
        o => o.clone(),
    }
}

pub type Field = (Option<String>, Ty);

/// variants of an enum type (instantiated), or None when `ty` is not an enum
pub fn variants_of(ty: &Ty) -> Option<Vec<(String, Vec<Field>)>> {
    let Ty::Nom(n, args) = ty else { return None };
    match &decl(n).kind {
        DeclKind::Enum(vs) => Some(vs.iter().map(|v| (v.name.to_string(), v.fields.iter().map(|(fnm, t)| (fnm.map(|s| s.to_string()), subst(t, args))).collect())).collect()),
        _ => None,
    }
}

pub fn struct_fields_of(ty: &Ty) -> Option<Vec<(String, Ty)>> {
    let Ty::Nom(n, args) = ty else { return None };
    match &decl(n).kind {
        DeclKind::Struct(fs) => Some(fs.iter().map(|(fnm, t)| (fnm.to_string(), subst(t, args))).collect()),
        _ => None,
    }
}

pub fn ty_text(t: &Ty) -> String {
    match t {
        Ty::Bool => "bool".into(),
        Ty::Void => "void".into(),
        Ty::Int => "int".into(),
        Ty::Float => "float".into(),
        Ty::Str => "string".into(),
        Ty::Tuple(ts) => format!("({})", ts.iter().map(ty_text).collect::<Vec<_>>().join(", ")),
        Ty::Nom(n, a) if a.is_empty() => n.clone(),
        Ty::Nom(n, a) => format!("{n}<{}>", a.iter().map(ty_text).collect::<Vec<_>>().join(", ")),
        Ty::Param(i) => format!("T{i}"),
    }
}

pub fn ty_kind(t: &Ty) -> &'static str {
    match t {
        Ty::Bool => "bool",
        Ty::Void => "void",
        Ty::Int => "int",
        Ty::Float => "float",
        Ty::Str => "string",
        Ty::Tuple(ts) if ts.iter().any(|t| matches!(t, Ty::Tuple(_))) => "tuple-nested",
        Ty::Tuple(_) => "tuple",
        Ty::Nom(n, a) => match (&decl(n).kind, a.is_empty()) {
            (DeclKind::Enum(_), true) => "enum",
            (DeclKind::Enum(_), false) => "enum-generic",
            (DeclKind::Struct(_), true) => "struct",
            (DeclKind::Struct(_), false) => "struct-generic",
        },
        Ty::Param(_) => "param",
    }
}

/// type declarations + ToString implementations (so that any bound value can be printed)
pub fn preamble() -> &'static str {
    static P: OnceLock<String> = OnceLock::new();
    P.get_or_init(|| {
        let mut s = String::new();
        let fty = |t: &Ty| -> String {
            fn go(t: &Ty) -> String {
                match t {
                    Ty::Param(i) => format!("T{}", i + 1),
                    Ty::Tuple(ts) => format!("({})", ts.iter().map(go).collect::<Vec<_>>().join(", ")),
                    o => ty_text(o),
                }
            }
            go(t)
        };
        for d in decls().iter().filter(|d| !d.builtin) {
            let params = if d.params == 0 { String::new() } else { format!("<{}>", (0..d.params).map(|i| format!("T{}", i + 1)).collect::<Vec<_>>().join(", ")) };
            let bounded = if d.params == 0 { String::new() } else { format!("<{}>", (0..d.params).map(|i| format!("T{} ToString", i + 1)).collect::<Vec<_>>().join(", ")) };
            match &d.kind {
                DeclKind::Enum(vs) => {
                    s.push_str(&format!("type {}{} =\n", d.name, params));
                    for v in vs {
                        if v.fields.is_empty() {
                            s.push_str(&format!("  | {}\n", v.name));
                        } else {
                            let fs: Vec<String> = v.fields.iter().map(|(n, t)| match n { Some(n) => format!("{n}: {}", fty(t)), None => fty(t) }).collect();
                            s.push_str(&format!("  | {}({})\n", v.name, fs.join(", ")));
                        }
                    }
                    s.push_str(&format!("\nimplement ToString for {}{} {{\n  fn str(self: {}{}) -> string {{\n    match self {{\n", d.name, bounded, d.name, bounded));
                    for v in vs {
                        if v.fields.is_empty() {
                            s.push_str(&format!("      .{} -> \"{}\"\n", v.name, v.name));
                        } else {
                            let names: Vec<String> = (0..v.fields.len()).map(|i| format!("f{i}")).collect();
                            s.push_str(&format!("      .{}({}) -> \"{}(\" .. {} .. \")\"\n", v.name, names.join(", "), v.name, names.join(" .. \", \" .. ")));
                        }
                    }
                    s.push_str("    }\n  }\n}\n\n");
                }
                DeclKind::Struct(fs) => {
                    s.push_str(&format!("type {}{} = {{\n", d.name, params));
                    for (n, t) in fs {
                        s.push_str(&format!("  {n}: {}\n", fty(t)));
                    }
                    s.push_str("}\n\n");
                    let parts: Vec<String> = fs.iter().map(|(n, _)| format!("self.{n}")).collect();
                    s.push_str(&format!(
                        "implement ToString for {}{} {{\n  fn str(self: {}{}) -> string {{\n    \"{}(\" .. {} .. \")\"\n  }}\n}}\n\n",
                        d.name,
                        bounded,
                        d.name,
                        bounded,
                        d.name,
                        parts.join(" .. \", \" .. ")
                    ));
                }
            }
        }
        s
    })
}

// ---------------------------------------------------------------------------------------------
// values

#[derive(Clone, Debug, Serialize, Deserialize, PartialEq, Eq, Hash)]
pub enum Val {
    Bool(bool),
    Void,
    Int(i64),
    /// bits
    Float(u64),
    Str(String),
    Tuple(Vec<Val>),
    Struct(Vec<Val>),
    Variant(u8, Vec<Val>),
}

#[derive(Clone, Debug, Default)]
pub struct Lits {
    pub ints: Vec<i64>,
    pub floats: Vec<u64>,
    pub strs: Vec<String>,
}

pub fn int_of(s: &str) -> i64 {
    s.replace('_', "").parse::<i64>().unwrap_or_else(|_| panic!("bad int spelling {s}"))
}
pub fn float_of(s: &str) -> f64 {
    s.replace('_', "").parse::<f64>().unwrap_or_else(|_| panic!("bad float spelling {s}"))
}

fn collect_lits_pat(p: &Pat, l: &mut Lits) {
    match p {
        Pat::Int(s) => l.ints.push(int_of(s)),
        Pat::Float(s) => l.floats.push(float_of(s).to_bits()),
        Pat::Str(s, _) => l.strs.push(s.clone()),
        Pat::Tuple(ps) | Pat::Struct { fields: ps, .. } | Pat::Variant { fields: ps, .. } => ps.iter().for_each(|p| collect_lits_pat(p, l)),
        Pat::Or(a, b) => {
            collect_lits_pat(a, l);
            collect_lits_pat(b, l);
        }
        _ => {}
    }
}

/// every literal mentioned in the arms plus fresh representatives: -1 (no pattern can spell a
/// negative number), 7.5 and -0.0 (distinct from 0.0 under the language's `==`), "zz"
pub fn lits_of(arms: &[Pat]) -> Lits {
    let mut l = Lits::default();
    for a in arms {
        collect_lits_pat(a, &mut l);
    }
    l.ints.push(-1);
    l.floats.push(7.5f64.to_bits());
    l.floats.push((-0.0f64).to_bits());
    l.strs.push("zz".to_string());
    l.ints.sort();
    l.ints.dedup();
    l.floats.sort();
    l.floats.dedup();
    l.strs.sort();
    l.strs.dedup();
    l
}

fn product(parts: Vec<Vec<Val>>) -> Vec<Vec<Val>> {
    let mut acc: Vec<Vec<Val>> = vec![vec![]];
    for vs in parts {
        let mut next = Vec::with_capacity(acc.len() * vs.len());
        for a in &acc {
            for v in &vs {
                let mut a2 = a.clone();
                a2.push(v.clone());
                next.push(a2);
            }
        }
        acc = next;
    }
    acc
}

/// every value of the type (literal-carrying leaves range over `lits`)
pub fn all_values(ty: &Ty, lits: &Lits) -> Vec<Val> {
    match ty {
        Ty::Bool => vec![Val::Bool(false), Val::Bool(true)],
        Ty::Void => vec![Val::Void],
        Ty::Int => lits.ints.iter().map(|i| Val::Int(*i)).collect(),
        Ty::Float => lits.floats.iter().map(|f| Val::Float(*f)).collect(),
        Ty::Str => lits.strs.iter().map(|s| Val::Str(s.clone())).collect(),
        Ty::Tuple(ts) => product(ts.iter().map(|t| all_values(t, lits)).collect()).into_iter().map(Val::Tuple).collect(),
        Ty::Nom(..) => {
            if let Some(fs) = struct_fields_of(ty) {
                product(fs.iter().map(|(_, t)| all_values(t, lits)).collect()).into_iter().map(Val::Struct).collect()
            } else {
                let mut out = vec![];
                for (i, (_, fs)) in variants_of(ty).unwrap().iter().enumerate() {
                    for vs in product(fs.iter().map(|(_, t)| all_values(t, lits)).collect()) {
                        out.push(Val::Variant(i as u8, vs));
                    }
                }
                out
            }
        }
        Ty::Param(_) => panic!("uninstantiated type"),
    }
}

/// number of values when every literal leaf has `k` representatives
pub fn cardinality(ty: &Ty, k: usize) -> usize {
    match ty {
        Ty::Bool => 2,
        Ty::Void => 1,
        Ty::Int | Ty::Float | Ty::Str => k,
        Ty::Tuple(ts) => ts.iter().map(|t| cardinality(t, k)).product(),
        Ty::Nom(..) => {
            if let Some(fs) = struct_fields_of(ty) {
                fs.iter().map(|(_, t)| cardinality(t, k)).product()
            } else {
                variants_of(ty).unwrap().iter().map(|(_, fs)| fs.iter().map(|(_, t)| cardinality(t, k)).product::<usize>()).sum()
            }
        }
        Ty::Param(_) => 1,
    }
}

fn float_text(bits: u64) -> String {
    format!("{:?}", f64::from_bits(bits))
}

/// expression text (fully qualified constructors; the context always supplies the type)
pub fn val_expr(v: &Val, ty: &Ty) -> String {
    match (v, ty) {
        (Val::Bool(b), _) => b.to_string(),
        (Val::Void, _) => "nil".into(),
        (Val::Int(i), _) => i.to_string(),
        (Val::Float(b), _) => float_text(*b),
        (Val::Str(s), _) => format!("\"{s}\""),
        (Val::Tuple(vs), Ty::Tuple(ts)) => format!("({})", vs.iter().zip(ts).map(|(v, t)| val_expr(v, t)).collect::<Vec<_>>().join(", ")),
        (Val::Struct(vs), Ty::Nom(n, _)) => {
            let fs = struct_fields_of(ty).unwrap();
            format!("{n}({})", vs.iter().zip(fs.iter()).map(|(v, (_, t))| val_expr(v, t)).collect::<Vec<_>>().join(", "))
        }
        (Val::Variant(i, vs), Ty::Nom(n, _)) => {
            let (vn, fs) = &variants_of(ty).unwrap()[*i as usize];
            if fs.is_empty() { format!("{n}.{vn}") } else { format!("{n}.{vn}({})", vs.iter().zip(fs.iter()).map(|(v, (_, t))| val_expr(v, t)).collect::<Vec<_>>().join(", ")) }
        }
        _ => panic!("ill-typed value {v:?} : {ty:?}"),
    }
}

/// the text `"" .. v` prints (book: text rendering; own types: the ToString impls of `preamble`)
pub fn val_show(v: &Val, ty: &Ty) -> String {
    match (v, ty) {
        (Val::Bool(b), _) => b.to_string(),
        (Val::Void, _) => "nil".into(),
        (Val::Int(i), _) => i.to_string(),
        (Val::Float(b), _) => format!("{}", f64::from_bits(*b)),
        (Val::Str(s), _) => s.clone(),
        (Val::Tuple(vs), Ty::Tuple(ts)) => format!("({})", vs.iter().zip(ts).map(|(v, t)| val_show(v, t)).collect::<Vec<_>>().join(", ")),
        (Val::Struct(vs), Ty::Nom(n, _)) => {
            let fs = struct_fields_of(ty).unwrap();
            format!("{n}({})", vs.iter().zip(fs.iter()).map(|(v, (_, t))| val_show(v, t)).collect::<Vec<_>>().join(", "))
        }
        (Val::Variant(i, vs), Ty::Nom(..)) => {
            let (vn, fs) = &variants_of(ty).unwrap()[*i as usize];
            if fs.is_empty() { vn.clone() } else { format!("{vn}({})", vs.iter().zip(fs.iter()).map(|(v, (_, t))| val_show(v, t)).collect::<Vec<_>>().join(", ")) }
        }
        _ => panic!("ill-typed value {v:?} : {ty:?}"),
    }
}

// ---------------------------------------------------------------------------------------------
// patterns

#[derive(Clone, Debug, Serialize, Deserialize, PartialEq, Eq, Hash)]
pub enum VForm {
    /// `.Name` (variant without fields, or with a single void field)
    Bare,
    /// `.Name(p, q)`
    Pos,
    /// `.Name(g = q, f = p)`: field indices in the order they are written
    Named(Vec<u8>),
}

#[derive(Clone, Debug, Serialize, Deserialize, PartialEq, Eq, Hash)]
pub enum Pat {
    Wild,
    Bind(String),
    Nil,
    Bool(bool),
    /// spelling
    Int(String),
    /// spelling
    Float(String),
    /// contents, written with single quotes?
    Str(String, bool),
    Tuple(Vec<Pat>),
    /// sub-patterns in declaration order; `order` = Some(written order of field indices) for the named form
    Struct { order: Option<Vec<u8>>, fields: Vec<Pat> },
    /// sub-patterns in declaration order; `qual` = written `Type.Variant` instead of `.Variant`
    Variant { vi: u8, form: VForm, qual: bool, fields: Vec<Pat> },
    Or(Box<Pat>, Box<Pat>),
}

pub fn pat_text(p: &Pat, ty: &Ty) -> String {
    match (p, ty) {
        (Pat::Wild, _) => "_".into(),
        (Pat::Bind(n), _) => n.clone(),
        (Pat::Nil, _) => "nil".into(),
        (Pat::Bool(b), _) => b.to_string(),
        (Pat::Int(s), _) | (Pat::Float(s), _) => s.clone(),
        (Pat::Str(s, q), _) => {
            if *q { format!("'{s}'") } else { format!("\"{s}\"") }
        }
        (Pat::Tuple(ps), Ty::Tuple(ts)) => format!("({})", ps.iter().zip(ts).map(|(p, t)| pat_text(p, t)).collect::<Vec<_>>().join(", ")),
        (Pat::Struct { order, fields }, Ty::Nom(n, _)) => {
            let fs = struct_fields_of(ty).unwrap();
            match order {
                None => format!("{n}({})", fields.iter().zip(fs.iter()).map(|(p, (_, t))| pat_text(p, t)).collect::<Vec<_>>().join(", ")),
                Some(o) => format!("{n}({})", o.iter().map(|i| format!("{} = {}", fs[*i as usize].0, pat_text(&fields[*i as usize], &fs[*i as usize].1))).collect::<Vec<_>>().join(", ")),
            }
        }
        (Pat::Variant { vi, form, qual, fields }, Ty::Nom(n, _)) => {
            let (vn, fs) = &variants_of(ty).unwrap()[*vi as usize];
            let head = if *qual { format!("{n}.{vn}") } else { format!(".{vn}") };
            match form {
                VForm::Bare => head,
                VForm::Pos => format!("{head}({})", fields.iter().zip(fs.iter()).map(|(p, (_, t))| pat_text(p, t)).collect::<Vec<_>>().join(", ")),
                VForm::Named(o) => format!(
                    "{head}({})",
                    o.iter().map(|i| format!("{} = {}", fs[*i as usize].0.clone().unwrap(), pat_text(&fields[*i as usize], &fs[*i as usize].1))).collect::<Vec<_>>().join(", ")
                ),
            }
        }
        (Pat::Or(a, b), _) => format!("{} | {}", pat_text(a, ty), pat_text(b, ty)),
        _ => panic!("ill-typed pattern {p:?} : {ty:?}"),
    }
}

/// The reference matcher. Literal patterns match the equal value (floats: the same value in any
/// spelling, compared like the language's `==`, i.e. by total order); products and variants match
/// component-wise; `p | q` tries p first; bindings of a failed alternative are discarded.
pub fn pmatch(p: &Pat, v: &Val, b: &mut Vec<(String, Val)>) -> bool {
    let mark = b.len();
    let ok = match (p, v) {
        (Pat::Wild, _) => true,
        (Pat::Bind(n), _) => {
            b.push((n.clone(), v.clone()));
            true
        }
        (Pat::Nil, Val::Void) => true,
        (Pat::Bool(x), Val::Bool(y)) => x == y,
        (Pat::Int(s), Val::Int(y)) => int_of(s) == *y,
        (Pat::Float(s), Val::Float(y)) => float_of(s).to_bits() == *y,
        (Pat::Str(s, _), Val::Str(y)) => s == y,
        (Pat::Tuple(ps), Val::Tuple(vs)) | (Pat::Struct { fields: ps, .. }, Val::Struct(vs)) => ps.len() == vs.len() && ps.iter().zip(vs).all(|(p, v)| pmatch(p, v, b)),
        (Pat::Variant { vi, form, fields, .. }, Val::Variant(vj, vs)) => vi == vj && (matches!(form, VForm::Bare) || (fields.len() == vs.len() && fields.iter().zip(vs).all(|(p, v)| pmatch(p, v, b)))),
        (Pat::Or(l, r), _) => pmatch(l, v, b) || pmatch(r, v, b),
        _ => panic!("ill-typed match {p:?} against {v:?}"),
    };
    if !ok {
        b.truncate(mark);
    }
    ok
}

pub fn matches(p: &Pat, v: &Val) -> bool {
    pmatch(p, v, &mut vec![])
}

/// index of the first matching arm and its bindings
pub fn first_match(arms: &[Pat], v: &Val) -> Option<(usize, Vec<(String, Val)>)> {
    for (i, a) in arms.iter().enumerate() {
        let mut b = vec![];
        if pmatch(a, v, &mut b) {
            return Some((i, b));
        }
    }
    None
}

/// (name, type) of every binder, in traversal order (or-patterns: the left alternative)
pub fn binders(p: &Pat, ty: &Ty, out: &mut Vec<(String, Ty)>) {
    match (p, ty) {
        (Pat::Bind(n), _) => out.push((n.clone(), ty.clone())),
        (Pat::Tuple(ps), Ty::Tuple(ts)) => ps.iter().zip(ts).for_each(|(p, t)| binders(p, t, out)),
        (Pat::Struct { fields, .. }, _) => {
            let fs = struct_fields_of(ty).unwrap();
            fields.iter().zip(fs.iter()).for_each(|(p, (_, t))| binders(p, t, out));
        }
        (Pat::Variant { vi, fields, .. }, _) => {
            let fs = &variants_of(ty).unwrap()[*vi as usize].1;
            fields.iter().zip(fs.iter()).for_each(|(p, (_, t))| binders(p, t, out));
        }
        (Pat::Or(l, _), _) => binders(l, ty, out),
        _ => {}
    }
}

fn strip_binders(p: &mut Pat) {
    match p {
        Pat::Bind(_) => *p = Pat::Wild,
        Pat::Tuple(ps) | Pat::Struct { fields: ps, .. } | Pat::Variant { fields: ps, .. } => ps.iter_mut().for_each(strip_binders),
        Pat::Or(a, b) => {
            strip_binders(a);
            strip_binders(b);
        }
        _ => {}
    }
}

/// Give every binder a name that is unique in the pattern (`v` + path) and make both sides of
/// every or-pattern bind the same names with the same types (book: or-patterns; tests
/// `or_pattern_with_mismatched_bindings`): the right side's binders are mapped, first fit by type,
/// onto the left side's; if the two sides cannot be aligned all their binders become wildcards.
pub fn name_pat(p: &Pat, ty: &Ty) -> Pat {
    let mut q = p.clone();
    let mut out = vec![];
    assign(&mut q, ty, "v", &mut out);
    qualify_below(&mut q, false);
    q
}

/// Below a variant written `Type.Variant(..)` every variant is written with its type as well: a
/// leading-dot variant under a qualified generic variant (`option.some(.Red)`) is not inferred
/// ("Can't infer which enum this variant belongs to"; book/enums: qualify when inference fails).
fn qualify_below(p: &mut Pat, force: bool) {
    match p {
        Pat::Variant { qual, fields, .. } => {
            if force {
                *qual = true;
            }
            let f = *qual;
            fields.iter_mut().for_each(|p| qualify_below(p, f));
        }
        Pat::Tuple(ps) | Pat::Struct { fields: ps, .. } => ps.iter_mut().for_each(|p| qualify_below(p, force)),
        Pat::Or(a, b) => {
            qualify_below(a, force);
            qualify_below(b, force);
        }
        _ => {}
    }
}

fn assign(p: &mut Pat, ty: &Ty, path: &str, out: &mut Vec<(String, Ty)>) {
    match (&mut *p, ty) {
        (Pat::Bind(n), _) => {
            *n = path.to_string();
            out.push((n.clone(), ty.clone()));
        }
        (Pat::Tuple(ps), Ty::Tuple(ts)) => {
            for (i, (p, t)) in ps.iter_mut().zip(ts).enumerate() {
                assign(p, t, &format!("{path}{i}"), out);
            }
        }
        (Pat::Struct { fields, .. }, _) => {
            let fs = struct_fields_of(ty).unwrap();
            for (i, (p, (_, t))) in fields.iter_mut().zip(fs.iter()).enumerate() {
                assign(p, t, &format!("{path}{i}"), out);
            }
        }
        (Pat::Variant { vi, fields, .. }, _) => {
            let fs = variants_of(ty).unwrap()[*vi as usize].1.clone();
            for (i, (p, (_, t))) in fields.iter_mut().zip(fs.iter()).enumerate() {
                assign(p, t, &format!("{path}{i}"), out);
            }
        }
        (Pat::Or(l, r), _) => {
            let mut bl = vec![];
            assign(l, ty, &format!("{path}a"), &mut bl);
            let mut br = vec![];
            assign(r, ty, &format!("{path}b"), &mut br);
            // map the right binders onto the left ones, first fit by type
            let mut free: Vec<Option<(String, Ty)>> = bl.iter().cloned().map(Some).collect();
            let mut mapping: Vec<(String, String)> = vec![];
            let mut ok = bl.len() == br.len();
            if ok {
                for (rn, rt) in &br {
                    match free.iter_mut().find(|f| f.as_ref().map(|(_, t)| t == rt).unwrap_or(false)) {
                        Some(slot) => {
                            mapping.push((rn.clone(), slot.take().unwrap().0));
                        }
                        None => {
                            ok = false;
                            break;
                        }
                    }
                }
            }
            if ok {
                rename_map(r, &mapping);
                out.extend(bl);
            } else {
                strip_binders(l);
                strip_binders(r);
            }
        }
        _ => {}
    }
}

fn rename_map(p: &mut Pat, m: &[(String, String)]) {
    match p {
        Pat::Bind(n) => {
            if let Some((_, to)) = m.iter().find(|(from, _)| from == n) {
                *n = to.clone();
            }
        }
        Pat::Tuple(ps) | Pat::Struct { fields: ps, .. } | Pat::Variant { fields: ps, .. } => ps.iter_mut().for_each(|p| rename_map(p, m)),
        Pat::Or(a, b) => {
            rename_map(a, m);
            rename_map(b, m);
        }
        _ => {}
    }
}

/// is the pattern a well-formed pattern of the type (shape, arity, binder discipline)?
pub fn well_formed(p: &Pat, ty: &Ty) -> bool {
    fn shape(p: &Pat, ty: &Ty) -> bool {
        match (p, ty) {
            (Pat::Wild, _) | (Pat::Bind(_), _) => true,
            (Pat::Nil, Ty::Void) | (Pat::Bool(_), Ty::Bool) | (Pat::Int(_), Ty::Int) | (Pat::Float(_), Ty::Float) | (Pat::Str(..), Ty::Str) => true,
            (Pat::Tuple(ps), Ty::Tuple(ts)) => ps.len() == ts.len() && ps.iter().zip(ts).all(|(p, t)| shape(p, t)),
            (Pat::Struct { order, fields }, Ty::Nom(..)) => match struct_fields_of(ty) {
                Some(fs) => fs.len() == fields.len() && perm_ok(order.as_deref(), fs.len()) && fields.iter().zip(fs.iter()).all(|(p, (_, t))| shape(p, t)),
                None => false,
            },
            (Pat::Variant { vi, form, fields, .. }, Ty::Nom(..)) => match variants_of(ty) {
                Some(vs) if (*vi as usize) < vs.len() => {
                    let fs = &vs[*vi as usize].1;
                    match form {
                        VForm::Bare => fields.is_empty() && (fs.is_empty() || (fs.len() == 1 && fs[0].1 == Ty::Void)),
                        VForm::Pos => !fs.is_empty() && fs.len() == fields.len() && fields.iter().zip(fs.iter()).all(|(p, (_, t))| shape(p, t)),
                        VForm::Named(o) => {
                            !fs.is_empty() && fs.iter().all(|f| f.0.is_some()) && fs.len() == fields.len() && perm_ok(Some(o), fs.len()) && fields.iter().zip(fs.iter()).all(|(p, (_, t))| shape(p, t))
                        }
                    }
                }
                _ => false,
            },
            (Pat::Or(a, b), _) => shape(a, ty) && shape(b, ty),
            _ => false,
        }
    }
    fn perm_ok(o: Option<&[u8]>, n: usize) -> bool {
        match o {
            None => true,
            Some(o) => {
                let mut s: Vec<u8> = o.to_vec();
                s.sort();
                s == (0..n as u8).collect::<Vec<_>>()
            }
        }
    }
    fn binds_ok(p: &Pat, ty: &Ty) -> Option<Vec<(String, Ty)>> {
        match (p, ty) {
            (Pat::Bind(n), _) => Some(vec![(n.clone(), ty.clone())]),
            (Pat::Tuple(ps), Ty::Tuple(ts)) => merge(ps.iter().zip(ts.iter().cloned()).map(|(p, t)| binds_ok(p, &t)).collect()),
            (Pat::Struct { fields, .. }, _) => {
                let fs = struct_fields_of(ty)?;
                merge(fields.iter().zip(fs.iter()).map(|(p, (_, t))| binds_ok(p, t)).collect())
            }
            (Pat::Variant { vi, fields, .. }, _) => {
                let fs = variants_of(ty)?[*vi as usize].1.clone();
                merge(fields.iter().zip(fs.iter()).map(|(p, (_, t))| binds_ok(p, t)).collect())
            }
            (Pat::Or(a, b), _) => {
                let (mut x, mut y) = (binds_ok(a, ty)?, binds_ok(b, ty)?);
                x.sort();
                y.sort();
                if x == y { Some(x) } else { None }
            }
            _ => Some(vec![]),
        }
    }
    fn merge(parts: Vec<Option<Vec<(String, Ty)>>>) -> Option<Vec<(String, Ty)>> {
        let mut all = vec![];
        for p in parts {
            all.extend(p?);
        }
        let mut names: Vec<&String> = all.iter().map(|(n, _)| n).collect();
        names.sort();
        let n = names.len();
        names.dedup();
        if names.len() != n || all.iter().any(|(n, _)| n.is_empty()) { None } else { Some(all) }
    }
    shape(p, ty) && binds_ok(p, ty).is_some()
}

pub fn pat_kinds(p: &Pat, out: &mut Vec<&'static str>) {
    match p {
        Pat::Wild => out.push("wild"),
        Pat::Bind(_) => out.push("bind"),
        Pat::Nil => out.push("nil"),
        Pat::Bool(_) | Pat::Int(_) | Pat::Float(_) | Pat::Str(..) => out.push("literal"),
        Pat::Tuple(ps) => {
            out.push("tuple");
            ps.iter().for_each(|p| pat_kinds(p, out));
        }
        Pat::Struct { order, fields } => {
            out.push(if order.is_some() { "struct-named" } else { "struct-positional" });
            fields.iter().for_each(|p| pat_kinds(p, out));
        }
        Pat::Variant { form, fields, .. } => {
            out.push(match form {
                VForm::Bare => "variant-bare",
                VForm::Pos => "variant-positional",
                VForm::Named(_) => "variant-named",
            });
            fields.iter().for_each(|p| pat_kinds(p, out));
        }
        Pat::Or(a, b) => {
            let mut bs = vec![];
            binders_untyped(a, &mut bs);
            out.push(if bs.is_empty() { "or" } else { "or-binding" });
            pat_kinds(a, out);
            pat_kinds(b, out);
        }
    }
}

fn binders_untyped(p: &Pat, out: &mut Vec<String>) {
    match p {
        Pat::Bind(n) => out.push(n.clone()),
        Pat::Tuple(ps) | Pat::Struct { fields: ps, .. } | Pat::Variant { fields: ps, .. } => ps.iter().for_each(|p| binders_untyped(p, out)),
        Pat::Or(a, _) => binders_untyped(a, out),
        _ => {}
    }
}

pub fn has_or(p: &Pat) -> bool {
    match p {
        Pat::Or(..) => true,
        Pat::Tuple(ps) | Pat::Struct { fields: ps, .. } | Pat::Variant { fields: ps, .. } => ps.iter().any(has_or),
        _ => false,
    }
}

/// number of independent or-patterns that are siblings inside one product (the cartesian case)
pub fn or_siblings(p: &Pat) -> usize {
    match p {
        Pat::Tuple(ps) | Pat::Struct { fields: ps, .. } | Pat::Variant { fields: ps, .. } => {
            let here = ps.iter().filter(|p| has_or(p)).count();
            here.max(ps.iter().map(or_siblings).max().unwrap_or(0))
        }
        Pat::Or(a, b) => or_siblings(a).max(or_siblings(b)),
        _ => 0,
    }
}

pub fn is_literal_only(p: &Pat) -> bool {
    matches!(p, Pat::Bool(_) | Pat::Int(_) | Pat::Float(_) | Pat::Str(..) | Pat::Nil)
}

// ---------------------------------------------------------------------------------------------
// the type universe

fn nom(n: &str, args: Vec<Ty>) -> Ty {
    Ty::Nom(n.to_string(), args)
}
fn opt(t: Ty) -> Ty {
    nom("option", vec![t])
}
fn tup(ts: Vec<Ty>) -> Ty {
    Ty::Tuple(ts)
}

/// the fixed universe, smallest types first
pub fn universe() -> Vec<Ty> {
    use Ty::*;
    let color = || nom0("Color");
    let res = || nom("result", vec![Bool, color()]);
    vec![
        Bool,
        Void,
        Int,
        Float,
        Str,
        color(),
        nom0("Shape"),
        nom0("Nv"),
        nom0("Pt"),
        nom("Rf", vec![Bool]),
        opt(Bool),
        res(),
        nom0("Vd"),
        nom0("Tw"),
        nom0("On"),
        nom0("Wr"),
        opt(tup(vec![Void, Bool])),
        opt(tup(vec![Bool, Bool])),
        opt(color()),
        opt(opt(Bool)),
        nom("Rf", vec![color()]),
        nom("Rf", vec![tup(vec![Bool, color()])]),
        tup(vec![Bool, Bool]),
        tup(vec![Bool, color()]),
        tup(vec![color(), color()]),
        tup(vec![Void, Bool]),
        tup(vec![Bool, Void, color()]),
        tup(vec![Bool, Bool, Bool]),
        tup(vec![opt(Bool), color()]),
        tup(vec![nom0("Shape"), Bool]),
        tup(vec![Bool, nom0("Nv")]),
        tup(vec![nom0("Pt"), Bool]),
        tup(vec![nom("Rf", vec![Bool]), nom0("Pt")]),
        tup(vec![res(), Bool]),
        tup(vec![Int, Bool]),
        tup(vec![Str, color()]),
        tup(vec![Float, Bool]),
        tup(vec![Int, Int]),
        tup(vec![nom0("Tw"), Bool]),
        tup(vec![nom0("Vd"), Bool]),
        tup(vec![opt(Bool), opt(Bool)]),
        tup(vec![tup(vec![Bool, Bool]), color()]),
        tup(vec![Bool, tup(vec![color(), Void])]),
        tup(vec![tup(vec![Bool, Void]), tup(vec![Void, Bool])]),
        tup(vec![opt(tup(vec![Bool, Bool])), Bool]),
        tup(vec![tup(vec![Int, Bool]), color()]),
        tup(vec![Str, Float, Bool]),
    ]
}

// ---------------------------------------------------------------------------------------------
// pattern pools (exhaustive layers)

fn diag_products(pools: &[Vec<Pat>], cap: usize) -> Vec<Vec<Pat>> {
    // index tuples ordered by (sum, lexicographic): simple combinations first
    let n = pools.len();
    let mut out = vec![];
    if n == 0 {
        return vec![vec![]];
    }
    let max_sum: usize = pools.iter().map(|p| p.len() - 1).sum();
    for sum in 0..=max_sum {
        let mut idx = vec![0usize; n];
        fn rec(pools: &[Vec<Pat>], pos: usize, left: usize, idx: &mut Vec<usize>, out: &mut Vec<Vec<Pat>>, cap: usize) {
            if out.len() >= cap {
                return;
            }
            if pos == pools.len() - 1 {
                if left < pools[pos].len() {
                    idx[pos] = left;
                    out.push(idx.iter().enumerate().map(|(i, j)| pools[i][*j].clone()).collect());
                }
                return;
            }
            for j in 0..pools[pos].len().min(left + 1) {
                idx[pos] = j;
                rec(pools, pos + 1, left - j, idx, out, cap);
            }
        }
        rec(pools, 0, sum, &mut idx, &mut out, cap);
        if out.len() >= cap {
            break;
        }
    }
    out
}

fn rotated(n: usize, k: usize) -> Vec<u8> {
    // a non-identity order when n > 1: rotation by (k mod (n-1)) + 1, reversed on odd k
    if n <= 1 {
        return (0..n as u8).collect();
    }
    let r = k % (n - 1) + 1;
    let mut o: Vec<u8> = (0..n).map(|i| ((i + r) % n) as u8).collect();
    if k % 2 == 1 {
        o.reverse();
    }
    o
}

/// patterns used below the top level; `lvl` 1 = directly under the top constructor
fn sub_pool(ty: &Ty, lvl: u32) -> Vec<Pat> {
    let b = || Pat::Bind(String::new());
    let lit = |s: &str| s.to_string();
    match ty {
        Ty::Bool => {
            if lvl <= 1 { vec![Pat::Wild, b(), Pat::Bool(true), Pat::Bool(false)] } else { vec![Pat::Wild, Pat::Bool(true), b()] }
        }
        Ty::Void => {
            if lvl <= 1 { vec![Pat::Wild, Pat::Nil, b()] } else { vec![Pat::Wild, Pat::Nil] }
        }
        Ty::Int => {
            if lvl <= 1 { vec![Pat::Wild, b(), Pat::Int(lit("1")), Pat::Int(lit("0")), Pat::Int(lit("01"))] } else { vec![Pat::Wild, Pat::Int(lit("1"))] }
        }
        Ty::Float => {
            if lvl <= 1 { vec![Pat::Wild, b(), Pat::Float(lit("1.0")), Pat::Float(lit("1.00")), Pat::Float(lit("0.0"))] } else { vec![Pat::Wild, Pat::Float(lit("1.0"))] }
        }
        Ty::Str => {
            if lvl <= 1 { vec![Pat::Wild, b(), Pat::Str(lit("a"), false), Pat::Str(lit("b"), false), Pat::Str(lit("a"), true)] } else { vec![Pat::Wild, Pat::Str(lit("a"), false)] }
        }
        Ty::Tuple(ts) => {
            let mut out = vec![Pat::Wild];
            if lvl <= 1 {
                out.push(b());
                let pools: Vec<Vec<Pat>> = ts.iter().map(|t| sub_pool(t, lvl + 1)).collect();
                out.extend(diag_products(&pools, 5).into_iter().map(Pat::Tuple));
            } else {
                out.push(Pat::Tuple(ts.iter().map(|_| Pat::Wild).collect()));
            }
            out
        }
        Ty::Nom(..) => {
            let mut out = vec![Pat::Wild];
            if let Some(fs) = struct_fields_of(ty) {
                if lvl <= 1 {
                    out.push(b());
                    let pools: Vec<Vec<Pat>> = fs.iter().map(|(_, t)| sub_pool(t, lvl + 1)).collect();
                    for (k, fields) in diag_products(&pools, 4).into_iter().enumerate() {
                        out.push(Pat::Struct { order: if k % 2 == 1 { Some(rotated(fs.len(), k)) } else { None }, fields });
                    }
                } else {
                    out.push(Pat::Struct { order: None, fields: fs.iter().map(|_| Pat::Wild).collect() });
                }
            } else {
                let vs = variants_of(ty).unwrap();
                if lvl <= 1 {
                    out.push(b());
                }
                for (vi, (_, fs)) in vs.iter().enumerate() {
                    if lvl > 1 && vi > 0 {
                        break;
                    }
                    let pools: Vec<Vec<Pat>> = fs.iter().map(|(_, t)| sub_pool(t, lvl + 1)).collect();
                    let cap = if lvl <= 1 { 3 } else { 1 };
                    for (k, fields) in diag_products(&pools, cap).into_iter().enumerate() {
                        out.push(variant_pat(vi, fs, fields, k + vi));
                    }
                }
            }
            out
        }
        Ty::Param(_) => vec![Pat::Wild],
    }
}

fn variant_pat(vi: usize, fs: &[Field], fields: Vec<Pat>, k: usize) -> Pat {
    let named_ok = !fs.is_empty() && fs.iter().all(|f| f.0.is_some());
    let form = if fs.is_empty() {
        VForm::Bare
    } else if named_ok && k % 2 == 0 {
        VForm::Named(if k % 4 == 0 { (0..fs.len() as u8).collect() } else { rotated(fs.len(), k / 2) })
    } else {
        VForm::Pos
    };
    Pat::Variant { vi: vi as u8, form, qual: k % 3 == 2, fields }
}

/// The ordered candidate list of top-level patterns of a type (basic first); the pool of a tier
/// is a prefix of it.
pub fn candidates(ty: &Ty) -> Vec<Pat> {
    let b = || Pat::Bind(String::new());
    let lit = |s: &str| s.to_string();
    let or = |a: Pat, b: Pat| Pat::Or(Box::new(a), Box::new(b));
    let mut ctors: Vec<Pat> = vec![];
    let mut ors: Vec<Pat> = vec![];
    match ty {
        Ty::Bool => {
            ctors = vec![Pat::Bool(true), Pat::Bool(false)];
            ors = vec![or(Pat::Bool(true), Pat::Bool(false)), or(Pat::Bool(false), Pat::Wild)];
        }
        Ty::Void => {
            ctors = vec![Pat::Nil];
            ors = vec![or(Pat::Nil, Pat::Wild)];
        }
        Ty::Int => {
            ctors = ["0", "1", "10", "1_0", "010", "2"].iter().map(|s| Pat::Int(lit(s))).collect();
            ors = vec![or(Pat::Int(lit("0")), Pat::Int(lit("1"))), or(Pat::Int(lit("10")), Pat::Int(lit("1_0")))];
        }
        Ty::Float => {
            ctors = ["0.0", "1.0", "1.00", "01.0", "10.0", "1_0.0", "0.00"].iter().map(|s| Pat::Float(lit(s))).collect();
            ors = vec![or(Pat::Float(lit("1.0")), Pat::Float(lit("1.00"))), or(Pat::Float(lit("0.0")), Pat::Float(lit("1.0")))];
        }
        Ty::Str => {
            ctors = vec![Pat::Str(lit("a"), false), Pat::Str(lit("a"), true), Pat::Str(lit("b"), false), Pat::Str(lit("cc"), false), Pat::Str(lit("b"), true)];
            ors = vec![or(Pat::Str(lit("a"), false), Pat::Str(lit("b"), false)), or(Pat::Str(lit("a"), true), Pat::Str(lit("cc"), false))];
        }
        Ty::Tuple(ts) => {
            let pools: Vec<Vec<Pat>> = ts.iter().map(|t| sub_pool(t, 1)).collect();
            ctors = diag_products(&pools, 60).into_iter().skip(1).map(Pat::Tuple).collect();
            ctors.insert(2.min(ctors.len()), Pat::Tuple(ts.iter().map(|_| Pat::Wild).collect()));
        }
        Ty::Nom(..) => {
            if let Some(fs) = struct_fields_of(ty) {
                let pools: Vec<Vec<Pat>> = fs.iter().map(|(_, t)| sub_pool(t, 1)).collect();
                for (k, fields) in diag_products(&pools, 60).into_iter().enumerate() {
                    ctors.push(Pat::Struct { order: if k % 2 == 1 { Some(rotated(fs.len(), k / 2)) } else { None }, fields });
                }
            } else {
                let vs = variants_of(ty).unwrap();
                let per: Vec<Vec<Pat>> = vs
                    .iter()
                    .enumerate()
                    .map(|(vi, (_, fs))| {
                        let pools: Vec<Vec<Pat>> = fs.iter().map(|(_, t)| sub_pool(t, 1)).collect();
                        let mut v: Vec<Pat> = diag_products(&pools, 24).into_iter().enumerate().map(|(k, fields)| variant_pat(vi, fs, fields, k + vi)).collect();
                        if fs.len() == 1 && fs[0].1 == Ty::Void {
                            v.insert(0, Pat::Variant { vi: vi as u8, form: VForm::Bare, qual: false, fields: vec![] });
                        }
                        v
                    })
                    .collect();
                // round robin over the variants
                let longest = per.iter().map(|v| v.len()).max().unwrap_or(0);
                for k in 0..longest {
                    for v in &per {
                        if k < v.len() {
                            ctors.push(v[k].clone());
                        }
                    }
                }
            }
        }
        Ty::Param(_) => {}
    }
    if ors.is_empty() {
        // or-patterns over the simplest constructor patterns, including ones whose sides bind
        let m = ctors.len().min(7);
        for i in 0..m {
            for j in 0..m {
                if i != j && (i + j) % 2 == 1 {
                    ors.push(or(ctors[i].clone(), ctors[j].clone()));
                }
            }
        }
        ors.truncate(14);
    }
    let mut out = vec![Pat::Wild, b()];
    let (mut ci, mut oi) = (0, 0);
    while ci < ctors.len() || oi < ors.len() {
        for _ in 0..3 {
            if ci < ctors.len() {
                out.push(ctors[ci].clone());
                ci += 1;
            }
        }
        if oi < ors.len() {
            out.push(ors[oi].clone());
            oi += 1;
        }
    }
    let mut seen = std::collections::HashSet::new();
    out.into_iter().map(|p| name_pat(&p, ty)).filter(|p| seen.insert(pat_text(p, ty))).collect()
}

pub fn pool(ty: &Ty, cap: usize) -> Vec<Pat> {
    let mut c = candidates(ty);
    c.truncate(cap);
    c
}

// ---------------------------------------------------------------------------------------------
// random patterns (all randomness comes from proptest)

fn perm_from(seed: u16, n: usize) -> Vec<u8> {
    // Lehmer code from the seed; seed 0 = identity (shrinks towards declaration order)
    let mut items: Vec<u8> = (0..n as u8).collect();
    let mut s = seed as usize;
    let mut out = vec![];
    while !items.is_empty() {
        let k = s % items.len();
        s /= items.len();
        out.push(items.remove(k));
    }
    out
}

pub fn rand_pat(ty: &Ty, depth: u32) -> BoxedStrategy<Pat> {
    let sel = |v: Vec<Pat>| proptest::sample::select(v).boxed();
    let lit = |s: &str| s.to_string();
    let ctor: BoxedStrategy<Pat> = match ty {
        Ty::Bool => sel(vec![Pat::Bool(true), Pat::Bool(false)]),
        Ty::Void => Just(Pat::Nil).boxed(),
        Ty::Int => sel(["0", "1", "10", "1_0", "010", "2", "00"].iter().map(|s| Pat::Int(lit(s))).collect()),
        Ty::Float => sel(["0.0", "1.0", "1.00", "01.0", "10.0", "1_0.0", "0.00", "2.5"].iter().map(|s| Pat::Float(lit(s))).collect()),
        Ty::Str => sel(vec![Pat::Str(lit("a"), false), Pat::Str(lit("a"), true), Pat::Str(lit("b"), false), Pat::Str(lit("cc"), false), Pat::Str(lit("cc"), true)]),
        Ty::Tuple(ts) => ts.iter().map(|t| rand_pat(t, depth.saturating_sub(1))).collect::<Vec<_>>().prop_map(Pat::Tuple).boxed(),
        Ty::Nom(..) => {
            if let Some(fs) = struct_fields_of(ty) {
                let n = fs.len();
                (fs.iter().map(|(_, t)| rand_pat(t, depth.saturating_sub(1))).collect::<Vec<_>>(), proptest::option::of(any::<u16>()))
                    .prop_map(move |(fields, o)| Pat::Struct { order: o.map(|s| perm_from(s, n)), fields })
                    .boxed()
            } else {
                let vs = variants_of(ty).unwrap();
                let alts: Vec<BoxedStrategy<Pat>> = vs
                    .iter()
                    .enumerate()
                    .map(|(vi, (_, fs))| {
                        let n = fs.len();
                        let named_ok = n > 0 && fs.iter().all(|f| f.0.is_some());
                        let void1 = n == 1 && fs[0].1 == Ty::Void;
                        (fs.iter().map(|(_, t)| rand_pat(t, depth.saturating_sub(1))).collect::<Vec<_>>(), any::<bool>(), 0u8..4, any::<u16>())
                            .prop_map(move |(fields, qual, f, s)| {
                                let form = if n == 0 || (void1 && f == 3) {
                                    VForm::Bare
                                } else if named_ok && f >= 2 {
                                    VForm::Named(perm_from(s, n))
                                } else {
                                    VForm::Pos
                                };
                                let fields = if matches!(form, VForm::Bare) { vec![] } else { fields };
                                Pat::Variant { vi: vi as u8, form, qual, fields }
                            })
                            .boxed()
                    })
                    .collect();
                proptest::strategy::Union::new(alts).boxed()
            }
        }
        Ty::Param(_) => Just(Pat::Wild).boxed(),
    };
    if depth == 0 {
        prop_oneof![2 => Just(Pat::Wild), 2 => Just(Pat::Bind(String::new())), 5 => ctor].boxed()
    } else {
        let l = rand_pat(ty, depth - 1);
        let r = rand_pat(ty, depth - 1);
        prop_oneof![2 => Just(Pat::Wild), 2 => Just(Pat::Bind(String::new())), 7 => ctor, 2 => (l, r).prop_map(|(a, b)| Pat::Or(Box::new(a), Box::new(b)))].boxed()
    }
}

#[derive(Clone, Debug, Serialize, Deserialize, PartialEq, Eq, Hash)]
pub struct MCase {
    pub ty: Ty,
    pub arms: Vec<Pat>,
    /// dynamic form: 0 scrutinee is a function parameter, 1 a local `let`
    #[serde(default)]
    pub form: u8,
}

pub fn rand_ty() -> BoxedStrategy<Ty> {
    proptest::sample::select(universe()).boxed()
}

/// one random arm list: 1..=max arms, patterns of depth <= 2
pub fn rand_case(min_arms: usize, max_arms: usize) -> BoxedStrategy<MCase> {
    rand_ty()
        .prop_flat_map(move |ty| {
            let p = rand_pat(&ty, 2);
            (Just(ty), proptest::collection::vec(p, min_arms..=max_arms), 0u8..2)
        })
        .prop_map(|(ty, arms, form)| {
            let arms = arms.iter().map(|p| name_pat(p, &ty)).collect();
            MCase { ty, arms, form }
        })
        .boxed()
}

// ---------------------------------------------------------------------------------------------
// reference analysis of an arm list

pub struct RefAnalysis {
    pub values: Vec<Val>,
    /// per value: index of the first matching arm
    pub taken: Vec<Option<usize>>,
    /// per arm: does some value reach it?
    pub reachable: Vec<bool>,
}

pub fn analyse_ref(c: &MCase) -> RefAnalysis {
    let lits = lits_of(&c.arms);
    let values = all_values(&c.ty, &lits);
    let taken: Vec<Option<usize>> = values.iter().map(|v| first_match(&c.arms, v).map(|(i, _)| i)).collect();
    let mut reachable = vec![false; c.arms.len()];
    for t in taken.iter().flatten() {
        reachable[*t] = true;
    }
    RefAnalysis { values, taken, reachable }
}

impl RefAnalysis {
    pub fn exhaustive(&self) -> bool {
        self.taken.iter().all(|t| t.is_some())
    }
    pub fn irredundant(&self) -> bool {
        self.reachable.iter().all(|r| *r)
    }
    pub fn unmatched(&self) -> Vec<&Val> {
        self.values.iter().zip(&self.taken).filter(|(_, t)| t.is_none()).map(|(v, _)| v).collect()
    }
}

/// C13's non-triviality: an arm overlaps an earlier, textually different arm
pub fn has_overlap(c: &MCase, ra: &RefAnalysis) -> bool {
    for j in 1..c.arms.len() {
        for i in 0..j {
            if c.arms[i] != c.arms[j] && ra.values.iter().any(|v| matches(&c.arms[i], v) && matches(&c.arms[j], v)) {
                return true;
            }
        }
    }
    false
}

// ---------------------------------------------------------------------------------------------
// witnesses ("The following cases are missing")

#[derive(Clone, Debug, PartialEq)]
pub enum WPat {
    Wild,
    Bool(bool),
    Int(i64),
    Float(u64),
    Str(String),
    Unit,
    Tuple(Vec<WPat>),
    Struct(Vec<WPat>),
    /// variant index, payload (None = any payload)
    Variant(u8, Option<Box<WPat>>),
}

struct WParser<'a> {
    s: &'a str,
    pos: usize,
}

impl<'a> WParser<'a> {
    fn rest(&self) -> &'a str {
        &self.s[self.pos..]
    }
    fn eat(&mut self, t: &str) -> bool {
        if self.rest().starts_with(t) {
            self.pos += t.len();
            true
        } else {
            false
        }
    }
    fn expect(&mut self, t: &str) -> Result<(), String> {
        if self.eat(t) { Ok(()) } else { Err(format!("expected `{t}` at offset {} of `{}`", self.pos, self.s)) }
    }
    fn at_delim(&self, after: usize) -> bool {
        let r = &self.rest()[after..];
        r.is_empty() || r.starts_with(',') || r.starts_with(')')
    }
    fn word(&mut self, ok: impl Fn(char) -> bool) -> &'a str {
        let r = self.rest();
        let n = r.char_indices().find(|(_, c)| !ok(*c)).map(|(i, _)| i).unwrap_or(r.len());
        self.pos += n;
        &r[..n]
    }
    fn pat(&mut self, ty: &Ty) -> Result<WPat, String> {
        if self.rest().starts_with('_') && self.at_delim(1) {
            self.pos += 1;
            return Ok(WPat::Wild);
        }
        match ty {
            Ty::Bool => {
                if self.eat("true") {
                    Ok(WPat::Bool(true))
                } else if self.eat("false") {
                    Ok(WPat::Bool(false))
                } else {
                    Err(format!("expected a bool at offset {} of `{}`", self.pos, self.s))
                }
            }
            Ty::Void => {
                self.expect("()")?;
                Ok(WPat::Unit)
            }
            Ty::Int => {
                let w = self.word(|c| c.is_ascii_digit() || c == '-');
                w.parse::<i64>().map(WPat::Int).map_err(|_| format!("expected an int, found `{w}` in `{}`", self.s))
            }
            Ty::Float => {
                let w = self.word(|c| c.is_ascii_digit() || c == '-' || c == '.' || c == '_');
                w.replace('_', "").parse::<f64>().map(|f| WPat::Float(f.to_bits())).map_err(|_| format!("expected a float, found `{w}` in `{}`", self.s))
            }
            Ty::Str => {
                let w = self.word(|c| c != ',' && c != ')');
                Ok(WPat::Str(w.to_string()))
            }
            Ty::Tuple(ts) => {
                self.expect("(")?;
                let mut ps = vec![];
                for (i, t) in ts.iter().enumerate() {
                    if i > 0 {
                        self.expect(", ")?;
                    }
                    ps.push(self.pat(t)?);
                }
                self.expect(")")?;
                Ok(WPat::Tuple(ps))
            }
            Ty::Nom(n, _) => {
                if let Some(fs) = struct_fields_of(ty) {
                    self.expect(n)?;
                    self.expect("(")?;
                    let mut ps = vec![];
                    for (i, (fnm, t)) in fs.iter().enumerate() {
                        if i > 0 {
                            self.expect(", ")?;
                        }
                        self.expect(fnm)?;
                        self.expect(" = ")?;
                        ps.push(self.pat(t)?);
                    }
                    self.expect(")")?;
                    Ok(WPat::Struct(ps))
                } else {
                    let vs = variants_of(ty).unwrap();
                    let w = self.word(|c| c.is_ascii_alphanumeric() || c == '_');
                    let Some(vi) = vs.iter().position(|(vn, _)| vn == w) else {
                        return Err(format!("`{w}` is not a variant of {} in `{}`", ty_text(ty), self.s));
                    };
                    let fs = &vs[vi].1;
                    if self.eat(" of ") {
                        let payload_ty = match fs.len() {
                            0 => return Err(format!("a payload is printed for `{w}`, which has none, in `{}`", self.s)),
                            1 => fs[0].1.clone(),
                            _ => Ty::Tuple(fs.iter().map(|f| f.1.clone()).collect()),
                        };
                        let p = self.pat(&payload_ty)?;
                        Ok(WPat::Variant(vi as u8, Some(Box::new(p))))
                    } else {
                        Ok(WPat::Variant(vi as u8, None))
                    }
                }
            }
            Ty::Param(_) => Err("type parameter".into()),
        }
    }
}

/// parse one witness (the text between the backquotes) as a pattern of `ty`
pub fn parse_witness(text: &str, ty: &Ty) -> Result<WPat, String> {
    let mut p = WParser { s: text, pos: 0 };
    let w = p.pat(ty)?;
    if p.pos != text.len() {
        return Err(format!("trailing text `{}` in witness `{text}` for type {}", p.rest(), ty_text(ty)));
    }
    Ok(w)
}

pub fn wmatches(w: &WPat, v: &Val) -> bool {
    match (w, v) {
        (WPat::Wild, _) => true,
        (WPat::Bool(a), Val::Bool(b)) => a == b,
        (WPat::Int(a), Val::Int(b)) => a == b,
        (WPat::Float(a), Val::Float(b)) => a == b,
        (WPat::Str(a), Val::Str(b)) => a == b,
        (WPat::Unit, Val::Void) => true,
        (WPat::Tuple(ps), Val::Tuple(vs)) | (WPat::Struct(ps), Val::Struct(vs)) => ps.len() == vs.len() && ps.iter().zip(vs).all(|(p, v)| wmatches(p, v)),
        (WPat::Variant(i, payload), Val::Variant(j, vs)) => {
            i == j
                && match payload {
                    None => true,
                    Some(p) => match (&**p, vs.len()) {
                        (WPat::Wild, _) => true,
                        (p, 1) => wmatches(p, &vs[0]),
                        (WPat::Tuple(ps), n) => ps.len() == n && ps.iter().zip(vs).all(|(p, v)| wmatches(p, v)),
                        _ => false,
                    },
                }
        }
        _ => false,
    }
}

// ---------------------------------------------------------------------------------------------
// static batch: one function per arm list, diagnostics mapped back by source range

pub struct StaticSpans {
    pub fn_range: (usize, usize),
    pub match_line: usize,
    pub arm_ranges: Vec<(usize, usize)>,
}

pub fn static_source(cases: &[MCase]) -> (String, Vec<StaticSpans>) {
    let mut s = String::from(preamble());
    let mut spans = vec![];
    for (i, c) in cases.iter().enumerate() {
        let start = s.len();
        s.push_str(&format!("fn m{i}(x: {}) -> int {{\n", ty_text(&c.ty)));
        let match_line = s.matches('\n').count() + 1;
        s.push_str("  match x {\n");
        let mut arm_ranges = vec![];
        for (k, p) in c.arms.iter().enumerate() {
            s.push_str("    ");
            let a = s.len();
            s.push_str(&pat_text(p, &c.ty));
            arm_ranges.push((a, s.len()));
            s.push_str(&format!(" -> {k}\n"));
        }
        s.push_str("  }\n}\n");
        spans.push(StaticSpans { fn_range: (start, s.len()), match_line, arm_ranges });
        s.push('\n');
    }
    (s, spans)
}

#[derive(Clone, Debug, Default)]
pub struct StaticReport {
    /// witnesses listed under "The following cases are missing" (None = not reported)
    pub missing: Option<Vec<String>>,
    /// indices of the arms reported redundant (None = no redundancy diagnostic)
    pub redundant: Option<Vec<usize>>,
    /// anything else reported inside this function
    pub other: Vec<String>,
}

impl StaticReport {
    pub fn accepted(&self) -> bool {
        self.missing.is_none() && self.redundant.is_none() && self.other.is_empty()
    }
    pub fn verdict(&self) -> &'static str {
        match (self.missing.is_some(), self.redundant.is_some(), self.other.is_empty()) {
            (_, _, false) => "verdict:other-diagnostic",
            (false, false, _) => "verdict:accepted",
            (true, false, _) => "verdict:nonexhaustive",
            (false, true, _) => "verdict:redundant",
            (true, true, _) => "verdict:nonexhaustive+redundant",
        }
    }
}

pub fn strip_ansi(s: &str) -> String {
    let mut out = String::new();
    let mut it = s.chars().peekable();
    while let Some(c) = it.next() {
        if c == '\u{1b}' {
            if it.peek() == Some(&'[') {
                it.next();
                for d in it.by_ref() {
                    if d.is_ascii_alphabetic() {
                        break;
                    }
                }
            }
        } else {
            out.push(c);
        }
    }
    out
}

pub const MSG_NONEXH: &str = "This match expression doesn't cover every case";
pub const MSG_REDUNDANT: &str = "This match expression has redundant cases";

/// (header message, line of the primary label, witnesses) of every rendered diagnostic
pub fn parse_rendered(text: &str) -> Vec<(String, Option<usize>, Vec<String>)> {
    let text = strip_ansi(text);
    let mut out: Vec<(String, Option<usize>, Vec<String>)> = vec![];
    for line in text.lines() {
        if let Some(m) = line.strip_prefix("error: ") {
            out.push((m.trim().to_string(), None, vec![]));
            continue;
        }
        let Some(cur) = out.last_mut() else { continue };
        if cur.1.is_none() {
            if let Some(i) = line.find("main.abra:") {
                let rest = &line[i + "main.abra:".len()..];
                let num: String = rest.chars().take_while(|c| c.is_ascii_digit()).collect();
                cur.1 = num.parse::<usize>().ok();
                continue;
            }
        }
        let t = line.trim_start();
        if let Some(n) = t.strip_prefix("= ") {
            let n = n.trim();
            if n.starts_with('`') && n.ends_with('`') && n.len() >= 2 {
                cur.2.push(n[1..n.len() - 1].to_string());
            }
        }
    }
    out
}

pub enum Analysed {
    Reports(Vec<StaticReport>),
    Fail(Failure),
}

/// Check the batch once with the editor analysis (structured diagnostics) and once with the
/// compiler front end (rendered text, for the witnesses); both must tell the same story.
pub fn analyse_static(env: &mut Env, cases: &[MCase]) -> Exec<(String, Analysed)> {
    let (src, spans) = static_source(cases);
    let files = single(src.clone());
    let lsp = match env.lsp(&files, "main.abra", false, vec![], false) {
        Exec::Ok(v) => v,
        Exec::Abort(f) => return Exec::Abort(f),
        Exec::Inconclusive(s) => return Exec::Inconclusive(s),
    };
    if let Some(p) = &lsp.analysis_panic {
        return Exec::Ok((src, Analysed::Fail(Failure::new("HostPanic", norm_msg(&p.msg)).feat(format!("file:{}", base(&p.file))).feat("phase:check").detail(serde_json::json!({"panic": p})))));
    }
    let mut reports: Vec<StaticReport> = cases.iter().map(|_| StaticReport::default()).collect();
    let case_of = |off: usize| spans.iter().position(|s| s.fn_range.0 <= off && off < s.fn_range.1);
    for d in &lsp.diags {
        let Some(ci) = (if d.file.ends_with("main.abra") { case_of(d.start) } else { None }) else {
            return Exec::Ok((
                src,
                Analysed::Fail(Failure::new("VerdictMismatch", format!("diagnostic outside every generated match: {}", d.message)).feat("where:outside").detail(serde_json::json!({"diag": d.message, "file": d.file, "start": d.start}))),
            ));
        };
        if d.message == MSG_NONEXH {
            reports[ci].missing.get_or_insert_with(Vec::new);
        } else if d.message == MSG_REDUNDANT {
            let mut idx = vec![];
            for (_, a, b, _) in &d.secondary {
                match spans[ci].arm_ranges.iter().position(|(x, y)| x <= a && b <= y) {
                    Some(k) => idx.push(k),
                    None => reports[ci].other.push(format!("redundant-arm label {a}..{b} is not inside an arm pattern")),
                }
            }
            idx.sort();
            idx.dedup();
            reports[ci].redundant = Some(idx);
        } else {
            reports[ci].other.push(d.message.clone());
        }
    }
    // rendered text: witnesses
    let (chk, _) = match env.front(&files, "main.abra", true, false) {
        Exec::Ok(v) => v,
        Exec::Abort(f) => return Exec::Abort(f),
        Exec::Inconclusive(s) => return Exec::Inconclusive(s),
    };
    match chk {
        FrontVerdict::Panic(p) => {
            return Exec::Ok((src, Analysed::Fail(Failure::new("HostPanic", norm_msg(&p.msg)).feat(format!("file:{}", base(&p.file))).feat("phase:check").detail(serde_json::json!({"panic": p})))));
        }
        FrontVerdict::Ok | FrontVerdict::NotRun => {
            if !lsp.diags.is_empty() {
                return Exec::Ok((src, Analysed::Fail(Failure::new("VerdictMismatch", "the editor analysis reports diagnostics but the compiler check accepts the file").feat("where:lsp-vs-check"))));
            }
        }
        FrontVerdict::Diag(text) => {
            let line_case = |l: usize| spans.iter().position(|s| s.match_line == l);
            let mut seen_missing = vec![false; cases.len()];
            let mut seen_red = vec![false; cases.len()];
            for (msg, line, wit) in parse_rendered(&text) {
                let ci = line.and_then(line_case);
                if msg == MSG_NONEXH {
                    match ci {
                        Some(ci) if reports[ci].missing.is_some() => {
                            reports[ci].missing = Some(wit);
                            seen_missing[ci] = true;
                        }
                        _ => return Exec::Ok((src, Analysed::Fail(Failure::new("VerdictMismatch", "rendered non-exhaustive diagnostic has no structured counterpart").feat("where:lsp-vs-check").detail(serde_json::json!({"line": line}))))),
                    }
                } else if msg == MSG_REDUNDANT {
                    match ci {
                        Some(ci) if reports[ci].redundant.is_some() => seen_red[ci] = true,
                        _ => return Exec::Ok((src, Analysed::Fail(Failure::new("VerdictMismatch", "rendered redundancy diagnostic has no structured counterpart").feat("where:lsp-vs-check").detail(serde_json::json!({"line": line}))))),
                    }
                }
            }
            for (i, r) in reports.iter().enumerate() {
                if (r.missing.is_some() && !seen_missing[i]) || (r.redundant.is_some() && !seen_red[i]) {
                    return Exec::Ok((src, Analysed::Fail(Failure::new("VerdictMismatch", "structured match diagnostic has no rendered counterpart").feat("where:lsp-vs-check").detail(serde_json::json!({"case": i})))));
                }
            }
        }
    }
    Exec::Ok((src, Analysed::Reports(reports)))
}

// ---------------------------------------------------------------------------------------------
// dynamic batch: every accepted match is run on every value of its type

/// text of `println(...)` printing the arm index and every binder (sorted by name)
fn arm_body(k: usize, p: &Pat, ty: &Ty) -> String {
    let mut bs = vec![];
    binders(p, ty, &mut bs);
    bs.sort();
    let mut s = format!("println(\"{k}\"");
    for (n, _) in &bs {
        s.push_str(&format!(" .. \";{n}=\" .. {n}"));
    }
    s.push(')');
    s
}

/// the line the arm prints for a value that takes it
pub fn expected_line(c: &MCase, k: usize, bound: &[(String, Val)]) -> String {
    let mut bs = vec![];
    binders(&c.arms[k], &c.ty, &mut bs);
    bs.sort();
    let mut s = format!("{k}");
    for (n, t) in &bs {
        let v = bound.iter().find(|(m, _)| m == n).map(|(_, v)| val_show(v, t)).unwrap_or_else(|| "<unbound>".into());
        s.push_str(&format!(";{n}={v}"));
    }
    s
}

fn match_text(c: &MCase, scrut: &str, indent: &str) -> String {
    let mut s = format!("{indent}match {scrut} {{\n");
    for (k, p) in c.arms.iter().enumerate() {
        s.push_str(&format!("{indent}  {} -> {}\n", pat_text(p, &c.ty), arm_body(k, p, &c.ty)));
    }
    s.push_str(&format!("{indent}}}"));
    s
}

/// (items, bodies, (case index, value index) of every body)
pub fn dynamic_program(cases: &[(usize, &MCase, &Vec<Val>)]) -> (String, Vec<String>, Vec<(usize, usize)>) {
    let mut items = String::from(preamble());
    let mut bodies = vec![];
    let mut index = vec![];
    for (ci, c, values) in cases {
        if c.form == 0 {
            items.push_str(&format!("fn m{ci}(x: {}) {{\n{}\n}}\n\n", ty_text(&c.ty), match_text(c, "x", "  ")));
        }
        for (vi, v) in values.iter().enumerate() {
            if c.form == 0 {
                bodies.push(format!("  m{ci}({})", val_expr(v, &c.ty)));
            } else {
                bodies.push(format!("  let s: {} = {}\n{}", ty_text(&c.ty), val_expr(v, &c.ty), match_text(c, "s", "  ")));
            }
            index.push((*ci, vi));
        }
    }
    (items, bodies, index)
}

pub fn case_feats(c: &MCase) -> Vec<String> {
    let mut f = vec![format!("ty:{}", ty_kind(&c.ty))];
    let mut kinds = vec![];
    c.arms.iter().for_each(|p| pat_kinds(p, &mut kinds));
    kinds.sort();
    kinds.dedup();
    f.extend(kinds.into_iter().map(|k| format!("pat:{k}")));
    if c.arms.iter().any(|p| or_siblings(p) >= 2) {
        f.push("pat:or-siblings".into());
    }
    f
}

pub fn case_text(c: &MCase) -> String {
    format!("match x: {} {{ {} }}", ty_text(&c.ty), c.arms.iter().map(|p| pat_text(p, &c.ty)).collect::<Vec<_>>().join(" ; "))
}

pub fn case_labels(c: &MCase, st: &mut CaseStats) {
    st.label(format!("ty:{}", ty_kind(&c.ty)));
    st.label(format!("arms:{}", c.arms.len()));
    let mut kinds = vec![];
    c.arms.iter().for_each(|p| pat_kinds(p, &mut kinds));
    kinds.sort();
    kinds.dedup();
    for k in kinds {
        st.label(format!("pat:{k}"));
    }
}

// ---------------------------------------------------------------------------------------------
// batches: explicit arm lists, or a span of the exhaustive enumeration (kept compact so that the
// thorough tier does not hold a million pattern lists in memory)

#[derive(Clone, Debug, Serialize, Deserialize, PartialEq, Eq, Hash)]
pub enum MBatch {
    Lists(Vec<MCase>),
    /// arm lists number `from .. from+n` (base-|pool| digits, most significant first) of length
    /// `len` over `pool(ty, cap)`
    Span { ty: Ty, cap: u16, len: u8, from: u64, n: u32 },
}

impl MBatch {
    pub fn expand(&self) -> Vec<MCase> {
        match self {
            MBatch::Lists(v) => v.clone(),
            MBatch::Span { ty, cap, len, from, n } => {
                let p = pool(ty, *cap as usize);
                let base = p.len() as u64;
                let total = base.pow(*len as u32);
                let mut out = vec![];
                for k in *from..(*from + *n as u64).min(total) {
                    let mut digits = vec![0usize; *len as usize];
                    let mut x = k;
                    for d in digits.iter_mut().rev() {
                        *d = (x % base) as usize;
                        x /= base;
                    }
                    out.push(MCase { ty: ty.clone(), arms: digits.iter().map(|d| p[*d].clone()).collect(), form: (k % 2) as u8 });
                }
                out
            }
        }
    }
    pub fn split(&self) -> Vec<MBatch> {
        self.expand().into_iter().map(|c| MBatch::Lists(vec![c])).collect()
    }
}

/// spans covering every arm list of the given length over the capped pool of every type
pub fn enumerate_spans(len: u8, cap: impl Fn(&Ty) -> usize, span: u32, tys: &[Ty]) -> Vec<MBatch> {
    let mut out = vec![];
    for ty in tys {
        let c = cap(ty);
        if c == 0 {
            continue;
        }
        let base = pool(ty, c).len() as u64;
        let total = base.pow(len as u32);
        let mut from = 0;
        while from < total {
            out.push(MBatch::Span { ty: ty.clone(), cap: c as u16, len, from, n: span });
            from += span as u64;
        }
    }
    out
}

/// types small enough for arm lists of length 4
pub fn smallest_types() -> Vec<Ty> {
    universe().into_iter().filter(|t| cardinality(t, 3) <= 3).collect()
}
